"""C15 — commands touch only what they are documented to touch."""
import hashlib
import json
import os
import re
import shutil
import stat
import subprocess
import sys
import urllib.request

from core import Property, Stream, enc, enc_list, dec, VERIF
import cli
import c03

HERE = os.path.dirname(os.path.abspath(__file__))
BINARY = b"\x89PNG\r\n\x1a\n\x00\x00\x00\rIHDR\x00\x01\x02\x03\xff\xfe\x00\x00"
DEP5 = ("Format: https://www.debian.org/doc/packaging-manuals/copyright-format/1.0/\nUpstream-Name: x\nUpstream-Contact: x\n"
        "Source: https://example.com\n\nFiles: data.csv\nCopyright: 2020 X\nLicense: ISC\n")
TOML = 'version = 1\n\n[[annotations]]\npath = "data.csv"\nSPDX-FileCopyrightText = "2020 X"\nSPDX-License-Identifier = "ISC"\n'
BASE = {
    "a.c": "int a;\n", "b.py": "b = 1\n", "src/s.cpp": "int s;\n", "src/deep/d.html": "<p>d</p>\n", "data.csv": "a,b\n",
    "pic.png": BINARY, "notes.foo": "notes\n", "ign.c": "int ign;\n", "build/gen.py": "g = 1\n", "ro.c": "int ro;\n",
    "LICENSES/ISC.txt": "ISC text\n", "empty.py": "",
    # entries whose names merely begin like the directory `src` (must never be selected by `--recursive src`)
    "src-vendored/v.c": "int v;\n", "src2.py": "s2 = 1\n",
    "hdr.py": "# SPDX-FileCopyrightText: 2019 Own\n#\n# SPDX-License-Identifier: ISC\n\nh = 1\n",
}
SENTINEL = {"out.c": "int out;\n", "out.py": "o = 1\n", "keep.txt": "keep\n"}
LINKS = {"l_out.c": "../sentinel/out.c", "l_in.c": "a.c", "l_dir": "../sentinel", "dangling.c": "nowhere",
         # symbolic links to directories *inside* the project (an alias of `src` at the top, an alias of a sibling directory below)
         "l_src": "src", "src/l_deep": "deep"}
IGNORED = ("ign.c", "build/gen.py")
# REUSE.toml as a symbolic link (tree flavour "tl"; further values: "dir" = a directory of that name, "ignored-file" = a regular
# file that Git ignores): target of the link, relative to the project root
TOML_LINKS = {"dangling-out": "../sentinel/new5.txt", "live-out": "../sentinel/keep.txt", "dangling-in": "conf/nowhere.toml",
              "live-in": "conf/reuse.toml", "live-in-source": "a.c"}
# tree flavour "dl": `.reuse/dep5` (or `.reuse` itself) is a symbolic link.  name -> (files inside the project, files in the sentinel
# directory, links; "<TOP>" = the scratch directory, for absolute targets, "<DEP5>" = the dep5 text)
DEP5_LINKS = {
    "file-in": ({"debian/copyright": "<DEP5>"}, {}, {".reuse/dep5": "../debian/copyright"}),
    "file-out": ({".reuse/keep.txt": "k\n"}, {"copyright": "<DEP5>"}, {".reuse/dep5": "../../sentinel/copyright"}),
    "abs-out": ({}, {"copyright": "<DEP5>"}, {".reuse/dep5": "<TOP>/sentinel/copyright"}),
    "abs-in": ({"debian/copyright": "<DEP5>"}, {}, {".reuse/dep5": "<TOP>/proj/debian/copyright"}),
    "chain-in": ({"debian/copyright": "<DEP5>"}, {}, {".reuse/dep5": "dep5.real", ".reuse/dep5.real": "../debian/copyright"}),
    "chain-out": ({}, {"copyright": "<DEP5>"}, {".reuse/dep5": "../pkg", "pkg": "../sentinel/copyright"}),
    "sibling-in": ({".reuse/dep5.in": "<DEP5>"}, {}, {".reuse/dep5": "dep5.in"}),
    "dir-in": ({"packaging/reuse/dep5": "<DEP5>"}, {}, {".reuse": "packaging/reuse"}),
    "dir-in-link": ({"debian/copyright": "<DEP5>", "packaging/reuse/other.txt": "o\n"}, {}, {".reuse": "packaging/reuse", "packaging/reuse/dep5": "../../debian/copyright"}),
    "dir-out": ({}, {"reuse-dir/dep5": "<DEP5>", "reuse-dir/templates/t.jinja2": "t\n"}, {".reuse": "../sentinel/reuse-dir"}),
    "dir-out-link": ({}, {"reuse-dir/other.txt": "o\n", "copyright": "<DEP5>"}, {".reuse": "../sentinel/reuse-dir", "../sentinel/reuse-dir/dep5": "../copyright"}),
    "dangling": ({".reuse/keep.txt": "k\n"}, {}, {".reuse/dep5": "../nowhere/copyright"}),
}
# the snapshot key of the directory entry `.reuse/dep5` where `.reuse` is itself a link (the walk of the snapshot does not follow links)
DEP5_ENTRY = {"dir-in": "packaging/reuse/dep5", "dir-in-link": "packaging/reuse/dep5", "dir-out": "../sentinel/reuse-dir/dep5",
              "dir-out-link": "../sentinel/reuse-dir/dep5"}
# tree flavour "odd": file names that are not valid UTF-8 (surrogate-escaped here, raw bytes on disk: Latin-1, a lone continuation byte,
# a truncated sequence, an overlong form, an encoded surrogate, 0xff 0xfe) and valid but unusual ones (NFC / NFD spellings of the same
# text, stacked combining characters, a character outside the BMP, a space).  tree["odd"] = {"cov": [...], "ign": [...], "igndir": [...],
# "twin": None | "nfc" | "nfd"}: NAME.py at the top and in oddd/ (covered), NAME.gen.py at the top and in oddd/ (ignored through
# `*.gen.py`), oddd/NAME.tmpdir/in.py (directory ignored through `*.tmpdir/`), and the twins oddd/twin-caf\u00e9.c / oddd/twin-cafe\u0301.c
# of which .git/info/exclude names exactly one, byte for byte.  oddd/keep.py is tracked.
ODD_NAMES = {
    "latin1": "r\udce9sum\udce9", "cont": "x\udc80y", "trunc": "caf\udcc3", "overlong": "o\udcc0\udcaf", "surr": "s\udced\udca0\udc80",
    "ff": "\udcff\udcfe", "nfc": "caf\u00e9", "nfd": "cafe\u0301", "comb": "a\u0308\u0323", "astral": "\U0001f600", "space": "na\u00efve name",
}
ODD_UTF8 = ("nfc", "nfd", "comb", "astral", "space")
TWINS = {"nfc": "oddd/twin-caf\u00e9.c", "nfd": "oddd/twin-cafe\u0301.c"}


def odd_files(case):
    """-> (covered odd files, ignored odd files) of the tree, {} {} without the flavour"""
    o = case["tree"].get("odd")
    if not o:
        return {}, {}
    cov, ign = {"oddd/keep.py": "k = 1\n"}, {}
    for k in o.get("cov", []):
        cov[ODD_NAMES[k] + ".py"] = "c = 1\n"
        cov["oddd/" + ODD_NAMES[k] + ".py"] = "c = 2\n"
    for k in o.get("ign", []):
        ign[ODD_NAMES[k] + ".gen.py"] = "g = 1\n"
        ign["oddd/" + ODD_NAMES[k] + ".gen.py"] = "g = 2\n"
    for k in o.get("igndir", []):
        ign["oddd/" + ODD_NAMES[k] + ".tmpdir/in.py"] = "t = 1\n"
    if o.get("twin"):
        for k, n in TWINS.items():
            (ign if k == o["twin"] else cov)[n] = "int twin;\n"
    if not case["tree"].get("git"):
        cov.update(ign)
        ign = {}
    return cov, ign


# tree flavour "sub": projects below the top of the repository (`reuse --root pkg/app`, `--root src`, `--root pkg`), with ignore rules
# at the top (.gitignore: *_local.py, build/, *.ign.c), below (pkg/app/.gitignore: secret.c, /tmp_*/) and in .git/info/exclude (*.tmp.c)
SUB_ROOTS = ["pkg/app", "src", "pkg"]
SUB_FILES = {
    "pkg/app/main.py": "m = 1\n", "pkg/app/settings_local.py": "s = 1\n", "pkg/app/build/generated.py": "g = 2\n",
    "pkg/app/.gitignore": "secret.c\n/tmp_*/\n", "pkg/app/secret.c": "int secret;\n", "pkg/app/tmp_x/t.py": "t = 1\n",
    "pkg/app/lib/util.c": "int util;\n", "pkg/app/lib/cache.tmp.c": "int cache;\n", "pkg/app/lib/deep/secret.c": "int deep;\n",
    "pkg/app/lib/deep/keep.py": "k = 1\n", "pkg/app/docs/d.html": "<p>x</p>\n", "pkg/app/docs/x.ign.c": "int x;\n",
    "pkg/other/o.py": "o = 1\n", "pkg/other/o_local.py": "o = 2\n", "pkg/top.c": "int top;\n",
    "src/gen_local.py": "g = 3\n", "src/build/x.py": "x = 1\n", "src/deep/junk.tmp.c": "int junk;\n",
}
SUB_IGNORED = ("pkg/app/settings_local.py", "pkg/app/build/generated.py", "pkg/app/secret.c", "pkg/app/tmp_x/t.py", "pkg/app/lib/cache.tmp.c",
               "pkg/app/lib/deep/secret.c", "pkg/app/docs/x.ign.c", "pkg/other/o_local.py", "src/gen_local.py", "src/build/x.py",
               "src/deep/junk.tmp.c")


def ignored_of(case):
    if not case["tree"].get("git"):
        return set()
    return set(IGNORED) | (set(SUB_IGNORED) if case["tree"].get("sub") else set()) | set(odd_files(case)[1])
# (single, multi, terminator, uncommentable) by extension — written down from the documentation
STYLES = {".c": (0, 1, "*/", 0), ".cpp": (1, 1, "*/", 0), ".py": (1, 0, "", 0), ".html": (0, 1, "-->", 0), ".csv": (0, 0, "", 1),
          ".png": (0, 0, "", 1), ".license": (0, 0, "", 0), ".gitignore": (1, 0, "", 0), ".toml": (1, 0, "", 0)}
FETCHABLE = ["MIT", "GPL-3.0-or-later", "0BSD"]
READ_ONLY = {"lint": ["lint"], "lint-json": ["lint", "--json"], "lint-lines": ["lint", "--lines"], "spdx": ["spdx"],
             "supported-licenses": ["supported-licenses"], "help": ["--help"], "version": ["--version"]}


def style_of(path):
    base = os.path.basename(path)
    if base == ".gitignore":
        return STYLES[".gitignore"]
    return STYLES.get(os.path.splitext(base)[1])


def tree_of(case):
    t = case["tree"]
    files = dict(BASE)
    links = dict(LINKS)
    if t.get("git"):
        files[".gitignore"] = "ign.c\nbuild/\n"
    if t.get("sub"):
        files.update(SUB_FILES)
        files[".gitignore"] = "ign.c\nbuild/\n*_local.py\n*.ign.c\n"
    if t.get("odd"):
        oc, oi = odd_files(case)
        files.update(oc)
        files.update(oi)
        if t.get("git"):
            files[".gitignore"] += "*.gen.py\n*.tmpdir/\n"
    if t.get("tl") in TOML_LINKS:
        files["conf/reuse.toml"] = TOML
        links["REUSE.toml"] = TOML_LINKS[t["tl"]]
    elif t.get("tl") == "ignored-file":
        # a regular REUSE.toml that Git ignores (needs "git"): the project does not read it, so it is no conflict with .reuse/dep5
        files["REUSE.toml"] = TOML
        files[".gitignore"] = files.get(".gitignore", "") + "REUSE.toml\n"
    elif t.get("tl") == "dir":
        files["REUSE.toml/keep.txt"] = "a directory of that name\n"
    if t.get("lic") == "dep5" and t.get("dl"):
        inside, _, dlinks = DEP5_LINKS[t["dl"]]
        files.update({n: DEP5 if c == "<DEP5>" else c for n, c in inside.items()})
        links.update(dlinks)
    elif t.get("lic") == "dep5":
        files[".reuse/dep5"] = DEP5
    elif t.get("lic") == "toml":
        files["REUSE.toml"] = TOML
    for n in t.get("sibs", []):
        files[n + ".license"] = "SPDX-FileCopyrightText: 2018 Sib\n\nSPDX-License-Identifier: ISC\n"
    if t.get("sl"):
        files["sl.py"] = "s = 1\n"
        links["sl.py.license"] = "../sentinel/keep.txt"
    if t.get("lr") == "file":
        files["LICENSES/LicenseRef-custom.txt"] = "custom licence text\n"      # an existing destination of `download LicenseRef-custom`
    elif t.get("lr") == "link":
        links["LICENSES/LicenseRef-custom.txt"] = "../../sentinel/keep.txt"
    elif t.get("lr") == "dangling":
        links["LICENSES/LicenseRef-custom.txt"] = "../../sentinel/new4.txt"
    if t.get("dsl"):
        # dangling links at .license positions, pointing outside the project: a header that has to go to FILE.license
        # (binary / uncommentable / unrecognised file, --force-dot-license) must not be written through them
        files["dsl.py"] = "d = 1\n"
        files["dpic.png"] = BINARY
        files["dnotes.foo"] = "notes\n"
        links["dsl.py.license"] = "../sentinel/new1.txt"
        links["dpic.png.license"] = "../sentinel/new2.txt"
        links["dnotes.foo.license"] = "../sentinel/new3.txt"
    return files, links


def sentinel_of(case):
    t = case["tree"]
    out = dict(SENTINEL)
    if t.get("lic") == "dep5" and t.get("dl"):
        out.update({n: DEP5 if c == "<DEP5>" else c for n, c in DEP5_LINKS[t["dl"]][1].items()})
    return out


def materialise(top, case):
    files, links = tree_of(case)
    proj = os.path.join(top, "proj")
    os.makedirs(proj)
    cli.write_tree(proj, files)
    cli.write_tree(os.path.join(top, "sentinel"), sentinel_of(case))
    for n, target in links.items():
        os.makedirs(os.path.dirname(os.path.join(proj, n)), exist_ok=True)
        os.symlink(target.replace("<TOP>", top), os.path.join(proj, n))
    os.chmod(os.path.join(proj, "ro.c"), 0o444)
    if case["tree"].get("git"):
        subprocess.run(["git", "init", "-q"], cwd=proj, check=True, capture_output=True)
        if case["tree"].get("sub"):
            with open(os.path.join(proj, ".git", "info", "exclude"), "a") as fp:
                fp.write("*.tmp.c\n")
            # every directory holds a tracked file (the Git strategy does not see ignored files inside wholly untracked directories:
            # known finding c03-git-ignored-in-untracked-dir); "tracked": everything that is not ignored
            keep = sorted(f for f in files if f not in SUB_IGNORED and f not in IGNORED and not f.startswith("LICENSES/"))
            if not case["tree"].get("tracked"):
                seen, one = set(), []
                for f in keep:
                    if os.path.dirname(f) not in seen:
                        seen.add(os.path.dirname(f))
                        one.append(f)
                keep = one
            subprocess.run(["git", "add", "--"] + keep, cwd=proj, check=True, capture_output=True)
            # generator precondition: Git itself calls exactly the listed files ignored
            r = subprocess.run(["git", "check-ignore", "--no-index", "--"] + sorted(files), cwd=proj, capture_output=True, text=True)
            if set(r.stdout.split()) != set(IGNORED) | set(SUB_IGNORED):
                raise RuntimeError("generator precondition: git check-ignore says %s" % sorted(set(r.stdout.split()) ^ (set(IGNORED) | set(SUB_IGNORED))))
        if case["tree"].get("odd"):
            with open(os.path.join(proj, ".git", "info", "exclude"), "ab") as fp:
                if case["tree"]["odd"].get("twin"):
                    fp.write(os.fsencode(TWINS[case["tree"]["odd"]["twin"]]) + b"\n")
            subprocess.run(["git", "add", "--", "oddd/keep.py"], cwd=proj, check=True, capture_output=True)
            # generator precondition: Git itself calls exactly the listed odd files ignored (names travel as bytes)
            oc, oi = odd_files(case)
            r = subprocess.run(["git", "check-ignore", "--no-index", "-z", "--stdin"], cwd=proj, capture_output=True,
                               input=b"".join(os.fsencode(n) + b"\0" for n in sorted(list(oc) + list(oi))))
            said = {os.fsdecode(x) for x in r.stdout.split(b"\0") if x}
            if said != set(oi):
                raise RuntimeError("generator precondition: git check-ignore differs on %r" % sorted(said ^ set(oi)))
        if case["tree"].get("sub"):
            pass
        elif case["tree"].get("tracked"):
            # tracked files whose time stamps are then changed: `git status` would like to refresh the index
            subprocess.run(["git", "add", "a.c", "b.py", "src", "ro.c", "l_in.c"], cwd=proj, check=True, capture_output=True)
    for dp, dn, fn in os.walk(top):
        for f in fn + dn:
            os.utime(os.path.join(dp, f), ns=(10**18, 10**18), follow_symlinks=False)
    return proj


def snapshot(top):
    """path relative to the project ('../sentinel/x' for the sentinel) ->
    (type, sha1, mode, size, mtime_ns) for files, (type, target) for links, (type, mode) for directories"""
    snap = {}
    proj = os.path.join(top, "proj")
    for dp, dn, fn in os.walk(top):
        if os.path.relpath(dp, proj).split(os.sep)[0] == ".git":
            continue
        for name in dn + fn:
            p = os.path.join(dp, name)
            rel = os.path.relpath(p, proj)
            if rel == ".git":
                continue
            st = os.lstat(p)
            if stat.S_ISLNK(st.st_mode):
                snap[rel] = ("link", os.readlink(p))
            elif stat.S_ISDIR(st.st_mode):
                snap[rel] = ("dir", stat.S_IMODE(st.st_mode))
            else:
                with open(p, "rb") as fp:
                    snap[rel] = ("file", hashlib.sha1(fp.read()).hexdigest(), stat.S_IMODE(st.st_mode), st.st_size, st.st_mtime_ns)
    return snap


def git_state(top):
    """digest of the repository's index and refs: no command may change them"""
    g = os.path.join(top, "proj", ".git")
    if not os.path.isdir(g):
        return None
    h = hashlib.sha1()
    for rel in ("index", "HEAD", "config"):
        p = os.path.join(g, rel)
        h.update(rel.encode())
        if os.path.exists(p):
            with open(p, "rb") as fp:
                h.update(fp.read())
    return h.hexdigest()


def argv_of(case, cmd, proj="<proj>"):
    """The command line.  Paths in a case are relative to the repository top (`proj`); a case may ask for another working
    directory ("cwd", relative to proj) and for `--root` ("rootdir" relative to proj, spelt "rel"ative to the cwd, "abs"olute or
    "slash" = relative with ./ and a trailing slash): the names are then re-expressed relative to the working directory."""
    if "cwd" not in case and "rootdir" not in case:
        return argv_local(case, cmd)
    cwd = case.get("cwd", ".")
    anchor = proj if os.path.isabs(proj) else "/top/proj"
    conv = lambda n: os.path.relpath(os.path.join(anchor, n), os.path.join(anchor, cwd))
    cmd2 = dict(cmd)
    if "named" in cmd2:
        cmd2["named"] = [conv(n) for n in cmd2["named"]]
    if cmd2.get("out"):
        cmd2["out"] = conv(cmd2["out"])
    pre = []
    if case.get("rootdir") is not None:
        rel = conv(case["rootdir"])
        spell = case.get("rootspell", "rel")
        pre = ["--root", os.path.normpath(os.path.join(proj, case["rootdir"])) if spell == "abs" else "./" + rel + "/" if spell == "slash" else rel]
    return pre + argv_local(case, cmd2)


def root_rel(case):
    """the project root relative to the repository top: --root if given, else what reuse finds (the top of the Git work tree,
    or the working directory without VCS)"""
    if case.get("rootdir") is not None:
        return os.path.normpath(case["rootdir"])
    return "." if case["tree"].get("git") else os.path.normpath(case.get("cwd", "."))


def argv_local(case, cmd):
    k = cmd["cmd"]
    if k in READ_ONLY:
        return list(READ_ONLY[k])
    if k == "lint-file":
        return ["lint-file"] + list(cmd["named"])
    if k == "spdx-o":
        return ["spdx", "-o", cmd["out"]]
    if k == "convert-dep5":
        return ["convert-dep5"]
    if k == "download":
        a = ["download"]
        if cmd.get("all"):
            a.append("--all")
        if cmd.get("out"):
            a += ["-o", cmd["out"]]
        if cmd.get("source"):
            a += ["--source", cmd["source"]]
        return a + list(cmd.get("ids", []))
    if k == "annotate":
        a = ["annotate", "--copyright", "Jane " + " ".join(case.get("terms", [])) + " Doe", "--license", "MIT"]
        if cmd.get("dot"):
            a.append({"force": "--force-dot-license", "fallback": "--fallback-dot-license", "skip": "--skip-unrecognised"}[cmd["dot"]])
        if cmd.get("recursive"):
            a.append("--recursive")
        if cmd.get("skip_existing"):
            a.append("--skip-existing")
        return a + list(cmd["named"])
    raise ValueError(k)


# ---------------------------------------------------------------------------
# the property text, executed on a before/after pair of snapshots

def covered_in(snap, ignored, below):
    """covered files (C03's clauses) below directory *below* ('.' = project root), from a snapshot"""
    out = set()
    for rel, e in snap.items():
        if rel.startswith("..") or e[0] != "file" or e[3] == 0:
            continue
        parts = rel.split("/")
        if any(d in c03.EXCLUDED_DIRS for d in parts[:-1]) or c03.spec_file_name_excluded(parts[-1]):
            continue
        if rel in ignored:
            continue
        if below not in (".", "") and not rel.startswith(below.rstrip("/") + "/"):
            continue
        out.add(rel)
    return out


def allowed_for(case, cmd, s0):
    """-> (set of paths that may change, may existing paths change?)"""
    k = cmd["cmd"]
    ignored = ignored_of(case)
    R = lambda p: os.path.normpath(os.path.join(root_rel(case), p))   # a path of the project, relative to the repository top
    if k in READ_ONLY or k == "lint-file":
        return set(), False
    if k == "spdx-o":
        return {os.path.normpath(cmd["out"])}, True
    if k == "convert-dep5":
        return {R("REUSE.toml"), dep5_entry(case)}, True
    if k == "download":
        al = set()
        if cmd.get("out"):
            al |= {cmd["out"], os.path.dirname(cmd["out"])}
        elif cmd.get("all"):
            al |= {R(p) for p in ("LICENSES/%s.txt" % i for i in FETCHABLE + ["ISC", "Nope-1.0"])}
        else:
            al |= {R("LICENSES/%s.txt" % (i[:-1] if i.endswith("+") else i)) for i in cmd.get("ids", [])}
        return al | {R("LICENSES")}, False
    if k == "annotate":
        files = set()
        for n in cmd["named"]:
            e = s0.get(os.path.normpath(n))
            if e is None:
                continue
            if e[0] == "file":
                files.add(os.path.normpath(n))
            elif e[0] == "dir" and cmd.get("recursive"):
                files |= covered_in(s0, ignored, os.path.normpath(n))
        return files | {f + ".license" for f in files}, True
    raise ValueError(k)


def dep5_entry(case):
    """the snapshot key of the directory entry `.reuse/dep5` of the project"""
    t = case["tree"]
    if t.get("lic") == "dep5" and t.get("dl") in DEP5_ENTRY:
        return DEP5_ENTRY[t["dl"]]
    return os.path.normpath(os.path.join(root_rel(case), ".reuse/dep5"))


def judge(case, cmd, s0, s1, g0, g1):
    al, may_modify = allowed_for(case, cmd, s0)
    entry = dep5_entry(case) if cmd["cmd"] == "convert-dep5" else None
    what = " ".join(argv_of(case, cmd)) + (" (in %s)" % case["cwd"] if case.get("cwd", ".") != "." else "")
    if g0 != g1:
        return "git-metadata: `reuse %s` changed .git/index, HEAD or config" % what
    for rel in sorted(set(s0) | set(s1)):
        a, b = s0.get(rel), s1.get(rel)
        if a == b:
            continue
        if rel == entry and b is None:
            # the documented effect of convert-dep5: the ENTRY `.reuse/dep5` goes -- a regular file or a symbolic link (the link,
            # never what it points to); where `.reuse` itself is a link, the entry lives in the directory `.reuse` points to
            continue
        if rel.startswith(".."):
            return "outside-project: `reuse %s` changed %s outside the project (%s -> %s)" % (what, rel, a, b)
        if a is not None and a[0] == "link" or b is not None and b[0] == "link":
            return "symlink-touched: `reuse %s` changed the symbolic link %s" % (what, rel)
        if rel not in al:
            kind = "created" if a is None else "removed" if b is None else "modified"
            if not al and a is not None and b is not None and a[:4] == b[:4]:
                return "metadata-touched: `reuse %s` is read-only but changed the time stamp of %s" % (what, rel)
            return "stray-write: `reuse %s` %s %s, which is not among %s" % (what, kind, rel, sorted(al)[:8])
        if not may_modify and a is not None:
            return "overwrite: `reuse %s` may only add files but changed the existing %s" % (what, rel)
    if cmd["cmd"] == "convert-dep5":
        ch = {rel for rel in al if s0.get(rel) != s1.get(rel)}
        toml, dep5 = os.path.normpath(os.path.join(root_rel(case), "REUSE.toml")), entry
        if ch and not (toml not in s0 and toml in s1 and s1[toml][0] == "file" and dep5 in s0 and dep5 not in s1):
            return "convert-shape: convert-dep5 did something other than creating the file REUSE.toml and removing the entry .reuse/dep5: %s" % sorted(ch)
    return None


# ---------------------------------------------------------------------------
# network stub (in-process)

class _Stub:
    def __enter__(self):
        sys.path.insert(0, os.path.dirname(HERE))
        import strace_entry
        self.old = urllib.request.urlopen
        strace_entry.install_stub(set(FETCHABLE))
        return self

    def __exit__(self, *a):
        urllib.request.urlopen = self.old
        return False


def gen_odd(rng, git):
    """covered files only get the valid-UTF-8 kinds: the tool prints the names of the files it handles, and the strict UTF-8 stream
    of the in-process runner cannot take the others (a matter of C16, not of what is written where)"""
    kinds = sorted(ODD_NAMES) if git else list(ODD_UTF8)
    return {"cov": rng.sample(ODD_UTF8, rng.randint(0, 3)), "ign": rng.sample(kinds, rng.randint(1, 3)),
            "igndir": rng.sample(kinds, rng.randint(0, 2)), "twin": rng.choice([None, "nfc", "nfd"])}


def printable(name):
    try:
        name.encode("utf-8")
        return True
    except UnicodeEncodeError:
        return False


def gen_odd_cmd(rng, case):
    oc, oi = odd_files(case)
    c = {"cmd": "annotate", "dot": rng.choice([None, None, "force", "fallback", "skip"])}
    if rng.random() < 0.6:
        c["recursive"] = True
        c["named"] = [rng.choice(["oddd", "oddd", ".", "src"])] if c["dot"] else ["oddd"]
        if rng.random() < 0.3:
            c["named"] += rng.sample(sorted(oc), min(len(oc), rng.randint(1, 2)))
    else:
        # named one by one: covered ones, and (a file that is named is annotated, ignored or not) now and then an ignored one
        # (only names the tool can print: it reports every file it annotated)
        pool = sorted(oc) * 2 + [n for n in sorted(oi) if printable(n)] + ["a.c", "b.py"]
        c["named"] = list(dict.fromkeys(rng.sample(pool, rng.randint(1, 4))))
    return c


def gen_cmd(rng, case, modelled=True):
    files, links = tree_of(case)
    if case["tree"].get("odd") and rng.random() < 0.5:
        return gen_odd_cmd(rng, case)
    r = rng.random()
    if r < 0.30:
        return {"cmd": rng.choice(sorted(READ_ONLY))}
    if r < 0.36:
        return {"cmd": "lint-file", "named": rng.sample(["a.c", "b.py", "src/s.cpp", "l_in.c", "hdr.py", "pic.png"], rng.randint(1, 3))}
    if r < 0.42:
        return {"cmd": "spdx-o", "out": "out.spdx"}
    if r < 0.50:
        return {"cmd": "convert-dep5"}
    if r < 0.64:
        c = {"cmd": "download"}
        q = rng.random()
        if q < 0.2:
            c.update(ids=["MIT"], out="lic/COPYING")
        elif q < 0.3 and not modelled:
            c.update(all=True)
        elif q < 0.4 and not modelled:
            c.update(ids=["LicenseRef-custom"])
            if rng.random() < 0.7:
                c["source"] = rng.choice(["a.c", "../sentinel/out.py", "src"])
        else:
            c.update(ids=rng.sample(["MIT", "ISC", "Nope-1.0", "GPL-3.0-or-later", "0BSD"] + (["MIT+"] if not modelled else []),
                                    rng.randint(1, 2)))
        return c
    c = {"cmd": "annotate", "dot": rng.choice([None, None, "force", "fallback", "skip"])}
    recursive = rng.random() < 0.4
    pool = ["a.c", "b.py", "src/s.cpp", "src/deep/d.html", "data.csv", "pic.png", "ro.c", "ign.c", "build/gen.py", "hdr.py",
            "l_out.c", "l_in.c", "l_out.c"]
    if not modelled:
        pool.append("empty.py")  # once annotated it is no longer empty, i.e. covered: the model's coverage oracle is static
    if c["dot"]:
        pool += ["notes.foo", "notes.foo"]
    if case["tree"].get("sl"):
        pool += ["sl.py", "sl.py"]
    if case["tree"].get("dsl"):
        pool += ["dsl.py", "dpic.png", "dpic.png"] + (["dnotes.foo", "dnotes.foo"] if c["dot"] else [])
    if rng.random() < 0.06:
        pool += ["dangling.c"] * 4
    if rng.random() < 0.08:
        pool += ["notes.foo"] * 3
    if recursive:
        c["recursive"] = True
        dirs = ["src", "src/deep", "build", "l_dir", "LICENSES", "l_src", "src/l_deep"] + (["."] if c["dot"] else [])
        c["named"] = rng.sample(dirs, 1) + (rng.sample(["a.c", "b.py", "l_out.c", "ro.c"], rng.randint(0, 2)) if rng.random() < 0.5 else [])
        if "." in c["named"]:
            c["named"] = ["."]
    else:
        c["named"] = rng.sample(pool, rng.randint(1, 4))
        c["named"] = list(dict.fromkeys(c["named"]))
        if rng.random() < 0.1:
            c["named"].append("src")  # a directory without --recursive is dropped
    return c


class CommandStream(Stream):
    name = "commands"
    modelled = True
    rule = ("every sub-command (lint in three formats, lint-file, spdx with and without -o, supported-licenses, --help, --version, "
            "annotate with named files / symbolic links / VCS-ignored files / --recursive over directories / each .license option / a "
            "failing holder, convert-dep5, download with the network stubbed) alone and in sequences of 2-4 on a project with "
            "symbolic links pointing outside (file, directory, dangling, at a .license position), a Git repository with ignored "
            "files, LICENSES/, .reuse/, a read-only file and a sentinel directory outside; snapshot (type, sha1, mode, size, "
            "mtime_ns, link target; .git index/HEAD/config digest) of project and sentinel around every command. impl = exit statuses "
            "+ created/removed/changed paths of the history; model = the Lean command models run as a history; oracle = the "
            "property's clauses per command. non-trivial = distinct (command kinds, set of changed paths)")

    def __init__(self):
        self.side = {}

    def gen_tree(self, rng):
        git = rng.random() < 0.6
        t = {"git": git, "tracked": git and rng.random() < 0.6, "lic": rng.choice(["dep5", "dep5", "toml", "none"]),
             "sibs": ["b.py"] if rng.random() < 0.3 else [], "sl": rng.random() < 0.3, "dsl": rng.random() < 0.25,
             "lr": rng.choice([None, None, None, "file", "link", "dangling"]) if not self.modelled else None}
        if t["lic"] == "dep5" and not self.modelled and rng.random() < 0.4:
            t["dl"] = rng.choice(sorted(DEP5_LINKS))    # .reuse/dep5 (or .reuse) is a symbolic link: the model's convert-dep5 reads a regular file only
        if not self.modelled and rng.random() < 0.2:
            t["odd"] = gen_odd(rng, git)
        if t["lic"] != "toml" and rng.random() < 0.2:
            t["tl"] = rng.choice(sorted(TOML_LINKS) + ["dir"] + (["ignored-file"] if git else []))   # REUSE.toml is there, but not as a file the project reads
        return t

    def cases(self, tier, rng):
        thorough = tier == "thorough"
        n1, nseq = (260, 420) if thorough else (45, 40)
        # every read-only command once per tree flavour
        for git in (True, False):
            for k in sorted(READ_ONLY) + ["lint-file"]:
                case = {"tree": {"git": git, "tracked": git, "lic": "dep5" if git else "toml", "sibs": [], "sl": True}, "terms": []}
                case["cmds"] = [{"cmd": k, "named": ["a.c", "l_in.c"]} if k == "lint-file" else {"cmd": k}]
                yield case
        # the explicit-symlink shapes
        for named in (["l_out.c"], ["l_in.c"], ["sl.py"], ["a.c", "l_out.c", "b.py"]):
            for dot in (None, "force"):
                yield {"tree": {"git": False, "lic": "none", "sibs": [], "sl": True}, "terms": [],
                       "cmds": [{"cmd": "annotate", "dot": dot, "named": named}]}
        # dangling links at the .license position of a binary, an unrecognised and a commentable file
        for named, dot in ((["dpic.png"], None), (["dsl.py"], "force"), (["dnotes.foo"], "fallback"), (["dnotes.foo"], "force"),
                           (["a.c", "dpic.png", "b.py"], None), (["dsl.py"], None)):
            yield {"tree": {"git": False, "lic": "none", "sibs": [], "sl": False, "dsl": True}, "terms": [],
                   "cmds": [{"cmd": "annotate", "dot": dot, "named": named}]}
        # REUSE.toml is a symbolic link (dangling or live, pointing outside or inside the project), a directory, or a file that Git
        # ignores -- nothing the project reads, so no conflict is seen when it is loaded -- with and without .reuse/dep5
        for tl in sorted(TOML_LINKS) + ["dir", "ignored-file"]:
            for lic in ("dep5", "none"):
                for git in ((True,) if tl == "ignored-file" else (False, True) if thorough or tl.endswith("out") else (False,)):
                    yield {"tree": {"git": git, "lic": lic, "sibs": [], "sl": False, "tl": tl}, "terms": [], "cmds": [{"cmd": "convert-dep5"}]}
            yield {"tree": {"git": tl == "ignored-file", "lic": "dep5", "sibs": [], "sl": False, "tl": tl}, "terms": [],
                   "cmds": [{"cmd": "lint"}, {"cmd": "convert-dep5"}, {"cmd": "annotate", "dot": None, "named": ["a.c"]}, {"cmd": "convert-dep5"}]}
        for _ in range(n1):
            case = {"tree": self.gen_tree(rng), "terms": rng.choice([[], [], ["*/"], ["-->"]])}
            case["cmds"] = [gen_cmd(rng, case, self.modelled)]
            yield case
        for _ in range(nseq):
            case = {"tree": self.gen_tree(rng), "terms": rng.choice([[], [], ["*/"]])}
            case["cmds"] = [gen_cmd(rng, case, self.modelled) for _ in range(rng.randint(2, 4))]
            yield case

    # -- implementation -----------------------------------------------------
    def impl(self, case):
        import logging
        snaps, gits, exits = [], [], []
        with cli.scratch("rv-c15-") as top, _Stub():
            proj = materialise(top, case)
            snaps.append(snapshot(top))
            gits.append(git_state(top))
            err = None
            for cmd in case["cmds"]:
                logging.disable(logging.CRITICAL)
                try:
                    code, out, exc = cli.run_cli(argv_of(case, cmd, proj), os.path.normpath(os.path.join(proj, case.get("cwd", "."))))
                finally:
                    logging.disable(logging.NOTSET)
                snaps.append(snapshot(top))
                gits.append(git_state(top))
                exits.append(code)
                if exc is not None and err is None:
                    err = "EXC:%s:%s" % (type(exc).__name__, str(exc)[:100])
        self.side[json.dumps(case, sort_keys=True)] = (snaps, gits, exits, err)
        shown = [str(c) if cmd["cmd"] in ("annotate", "convert-dep5", "download") else "-" for c, cmd in zip(exits, case["cmds"])]
        ch = []
        s0, s1 = snaps[0], snaps[-1]
        for rel in sorted(set(s0) | set(s1)):
            a, b = s0.get(rel), s1.get(rel)
            if a is None:
                ch.append("+" + rel)
            elif b is None:
                ch.append("-" + rel)
            elif a[:2] != b[:2]:
                ch.append("~" + rel)
        return "%s|%s" % (",".join(shown), " ".join(ch))

    # -- model ----------------------------------------------------------------
    def model_lines(self, case):
        if not self.modelled:
            return []
        files, links = tree_of(case)
        dirs = {".", ""}
        for n in list(files) + list(links):
            d = os.path.dirname(n)
            while d:
                dirs.add(d)
                d = os.path.dirname(d)
        fs = []
        for n, c in files.items():
            fs.append("F%s\n%s" % (n, "" if c in ("", b"") else ("I" if isinstance(c, str) and "SPDX-" in c else "x")))
        for n, c in SENTINEL.items():
            fs.append("F../sentinel/%s\nx" % n)
        fs.append("D../sentinel\n")
        fs += ["D%s\n" % d for d in sorted(dirs)]
        # (link targets as paths from the project root: a target is relative to the directory that holds the link)
        fs += ["L%s\n%s" % (n, os.path.normpath(os.path.join(os.path.dirname(n), t))) for n, t in links.items()]
        cand = set()
        for n in list(files) + list(links):
            cand |= {n, n + ".license", n + ".license.license"}
        styles = []
        failing = []
        holder = " ".join(case.get("terms", []))
        for p in sorted(cand):
            st = style_of(p)
            if st is not None:
                styles.append("%d%d%d%s" % (st[0], st[1], st[3], p))
                if st[1] and not st[0] and st[2] and st[2] in holder:
                    failing.append("C" + p)
        binary = [n for n, c in files.items() if isinstance(c, bytes)]
        ignored = ignored_of(case)
        snap0 = {n: ("file", "", 0, len(c)) for n, c in files.items()}
        below = ["\n".join([d] + sorted(covered_in(snap0, ignored, d))) for d in sorted(dirs) if d]
        world = ["0", "LICENSES"] + FETCHABLE
        watch = sorted(cand | {"../sentinel/" + n for n in SENTINEL} | {"../sentinel/new%d.txt" % i for i in (1, 2, 3, 4, 5)} | {"conf/nowhere.toml", "conf/reuse.toml", "conf"} | {"LICENSES/%s.txt" % i for i in FETCHABLE + ["Nope-1.0"]}
                       | {"REUSE.toml", ".reuse/dep5", "out.spdx", "lic", "lic/COPYING", "LICENSES"})
        cmds = []
        for cmd in case["cmds"]:
            k = cmd["cmd"]
            if k == "annotate":
                dot = cmd.get("dot")
                flags = [1, 0, 0, 0, 0, cmd.get("recursive"), dot == "force", dot == "fallback", dot == "skip", cmd.get("skip_existing")]
                cmds.append("A:%s:-:-:%s" % ("".join("1" if f else "0" for f in flags), enc_list([os.path.normpath(n) for n in cmd["named"]])))
            elif k == "convert-dep5":
                cmds.append("C")
            elif k == "download":
                cmds.append("D:%s:%s" % (enc_list(cmd["ids"]), enc(cmd["out"]) if cmd.get("out") else "-"))
            elif k == "spdx-o":
                cmds.append("S:" + enc(cmd["out"]))
            elif k == "lint-file":
                cmds.append("F:" + enc_list(cmd["named"]))
            elif k == "supported-licenses":
                cmds.append("P")
            elif k == "spdx":
                cmds.append("S:-")
            else:
                cmds.append("L")
        return ["\t".join(["eff", enc_list(fs), enc_list(styles), enc_list(binary), enc_list(failing), enc_list(below),
                           enc_list(world), enc_list(watch)] + cmds)]

    def model_out(self, case, outs):
        ex, _, ch = outs[0].partition("|")
        exits = ex.split(",") if ex else []
        shown = [e if cmd["cmd"] in ("annotate", "convert-dep5", "download") else "-" for e, cmd in zip(exits, case["cmds"])]
        items = sorted((dec(x[1:]), x[0]) for x in ch.split(" ") if x)
        return "%s|%s" % (",".join(shown), " ".join(k + p for p, k in items))

    # -- oracle ---------------------------------------------------------------
    def oracle(self, case, impl_out):
        snaps, gits, exits, err = self.side[json.dumps(case, sort_keys=True)]
        for i, cmd in enumerate(case["cmds"]):
            why = judge(case, cmd, snaps[i], snaps[i + 1], gits[i], gits[i + 1])
            if why:
                return why.encode("utf-8", "backslashreplace").decode("utf-8")   # names that are not UTF-8 stay printable
        if err:
            return "traceback: " + err
        return None

    def classify(self, case, failure):
        return None

    def nontrivial(self, case, impl_out):
        return (tuple(c["cmd"] for c in case["cmds"]), impl_out.split("|", 1)[1])

    def show(self, case):
        return {"tree": case["tree"], "argv": [argv_of(case, c) for c in case["cmds"]],
                **({"cwd": "<proj>/" + case["cwd"]} if "cwd" in case else {})}


class UnmodelledStream(CommandStream):
    name = "commands-oracle-only"
    modelled = False
    rule = ("same generator, additionally `download --all`, `download LicenseRef-…` with and without --source (file, file outside, "
            "directory) onto an absent / existing / symlinked / dangling destination, identifiers with '+'; judged by the property's "
            "clauses only (these variants are verified in depth under C19)")

    def cases(self, tier, rng):
        thorough = tier == "thorough"
        # `.reuse/dep5` is a symbolic link (relative, absolute, a chain; to a file inside the project or in the sentinel directory;
        # dangling), or `.reuse` is a link to a directory (inside, outside) that holds dep5 (itself a file or a link): convert-dep5
        # alone, after read-only commands, twice, followed by annotate / lint on the converted project
        for dl in sorted(DEP5_LINKS):
            for git in ((False, True) if thorough else (dl.startswith(("chain", "abs")),)):
                tree = {"git": git, "tracked": git, "lic": "dep5", "sibs": [], "sl": False, "dl": dl}
                yield {"tree": tree, "terms": [], "cmds": [{"cmd": "convert-dep5"}]}
                yield {"tree": tree, "terms": [], "cmds": [{"cmd": rng.choice(["lint", "spdx", "lint-json"])}, {"cmd": "convert-dep5"},
                                                           {"cmd": "annotate", "dot": rng.choice([None, "fallback"]), "recursive": True, "named": ["src"]},
                                                           {"cmd": "convert-dep5"}, {"cmd": "lint"}]}
                if thorough:
                    for k in sorted(READ_ONLY) + ["lint-file"]:
                        yield {"tree": tree, "terms": [], "cmds": [{"cmd": k, "named": ["a.c", "data.csv"]} if k == "lint-file" else {"cmd": k}]}
                    yield {"tree": dict(tree, tl=rng.choice(sorted(TOML_LINKS))), "terms": [], "cmds": [{"cmd": "convert-dep5"}]}
                    yield {"tree": tree, "terms": [], "cmds": [{"cmd": "annotate", "dot": "fallback", "recursive": True, "named": ["."]}, {"cmd": "convert-dep5"}]}
        for _ in range(150 if thorough else 25):
            case = {"tree": self.gen_tree(rng), "terms": []}
            case["cmds"] = [gen_cmd(rng, case, False) for _ in range(rng.randint(1, 3))]
            if not any(c["cmd"] == "download" for c in case["cmds"]):
                case["cmds"].append({"cmd": "download", "all": True} if rng.random() < 0.5 else {"cmd": "download", "ids": ["LicenseRef-custom", "MIT+"]})
            yield case
        # `download LicenseRef-… --source …` onto a destination that already exists (regular file, link to a file outside, dangling link)
        for lr in ("file", "link", "dangling"):
            for source in ("a.c", "../sentinel/out.py", "src"):
                for out in (None, "LICENSES/LicenseRef-custom.txt"):
                    cmd = {"cmd": "download", "ids": ["LicenseRef-custom"], "source": source}
                    if out:
                        cmd["out"] = out
                    yield {"tree": {"git": False, "lic": "none", "sibs": [], "sl": False, "lr": lr}, "terms": [], "cmds": [cmd]}


class OddNameStream(CommandStream):
    name = "oddnames"
    modelled = False
    rule = ("file names that are not valid UTF-8 (Latin-1 bytes, a lone continuation byte, a truncated sequence, an overlong form, an "
            "encoded surrogate, 0xff 0xfe) and unusual valid ones (NFC and NFD spellings, stacked combining characters, a character "
            "outside the BMP, a blank): Git-ignored files and directories carry any of them (through the patterns *.gen.py, *.tmpdir/ "
            "and through an exact byte-for-byte name in .git/info/exclude that tells an NFC-named file from its NFD-named twin), "
            "covered files the valid ones; `git check-ignore` confirms the generator's list; every kind alone and seeded mixtures, "
            "with `annotate --recursive` over the directory / the project (each .license option), annotate of named files, lint, "
            "spdx, convert-dep5, download, singly and in sequences; without Git the same names are all covered; same snapshot "
            "oracle: an ignored file is never written, whatever its name; oracle only")

    def cases(self, tier, rng):
        thorough = tier == "thorough"
        rec = {"cmd": "annotate", "dot": None, "recursive": True, "named": ["oddd"]}
        for k in sorted(ODD_NAMES):
            for shape in (("ign",), ("igndir",)) + ((("ign", "igndir"),) if thorough else ()):
                odd = {"cov": [x for x in ("nfd", "comb") if x != k], "ign": [], "igndir": [], "twin": None}
                for sh in shape:
                    odd[sh] = [k]
                tree = {"git": True, "tracked": rng.random() < 0.5, "lic": "none", "sibs": [], "sl": False, "odd": odd}
                yield {"tree": tree, "terms": [], "cmds": [rec]}
                if thorough:
                    yield {"tree": tree, "terms": [], "cmds": [{"cmd": "lint"}, dict(rec, dot="fallback", named=["."]), {"cmd": "spdx"}]}
        for twin in ("nfc", "nfd"):
            tree = {"git": True, "tracked": False, "lic": "none", "sibs": [], "sl": False, "odd": {"cov": ["astral"], "ign": ["space"], "igndir": [], "twin": twin}}
            yield {"tree": tree, "terms": [], "cmds": [rec]}
            yield {"tree": tree, "terms": [], "cmds": [{"cmd": "annotate", "dot": None, "named": [TWINS["nfc"], TWINS["nfd"]]}]}
        for _ in range(160 if thorough else 14):
            git = rng.random() < 0.8
            tree = {"git": git, "tracked": git and rng.random() < 0.5, "lic": rng.choice(["none", "none", "dep5", "toml"]), "sibs": [], "sl": False,
                    "odd": gen_odd(rng, git)}
            case = {"tree": tree, "terms": rng.choice([[], [], ["*/"]])}
            case["cmds"] = [gen_cmd(rng, case, False) for _ in range(rng.randint(1, 3))]
            if not any(c.get("recursive") for c in case["cmds"]):
                case["cmds"].append(dict(rec, dot=rng.choice([None, "skip"])))
            yield case


class SubRootStream(CommandStream):
    name = "subroot"
    modelled = False
    rule = ("projects that are a SUB-DIRECTORY of a Git work tree (pkg/app, src, pkg of a repository whose ignore rules live in the "
            "top-level .gitignore, in pkg/app/.gitignore and in .git/info/exclude; every directory holds a tracked file; `git "
            "check-ignore` confirms the generator's list of ignored files): the project root is given with --root (relative, "
            "absolute, ./x/) from the repository top, from the project directory itself, from a directory below it and from outside "
            "the repository, or not given at all (working directory inside the sub-directory, Git finds the top); annotate "
            "--recursive over the project / its sub-directories, annotate of named files, lint, spdx -o, download, singly and in "
            "sequences: same snapshot oracle (Git-ignored files below the named directories must stay byte-identical, nothing "
            "outside the documented paths changes); oracle only")

    def combos(self, rootdir):
        deeper = {"pkg/app": "pkg/app/lib", "src": "src/deep", "pkg": "pkg/app/docs"}[rootdir]
        return [(".", "rel"), (".", "abs"), (".", "slash"), (rootdir, "rel"), (rootdir, "abs"), (rootdir, None), (deeper, "rel"),
                (deeper, None), (deeper, "slash"), ("..", "rel"), ("..", "abs"), ("../sentinel", "rel")]

    def gen_sub_cmd(self, rng, rootdir, cwd):
        below = sorted({os.path.dirname(f) for f in list(SUB_FILES) + list(BASE) if f.startswith(rootdir + "/")} | {rootdir})
        inside = sorted(f for f in list(SUB_FILES) + list(BASE) if f.startswith(rootdir + "/") and not f.endswith(".gitignore"))
        r = rng.random()
        if r < 0.55:
            named = rng.sample(below, rng.randint(1, 2))
            if rng.random() < 0.5:
                named = [rootdir]
            return {"cmd": "annotate", "dot": rng.choice([None, "skip", "fallback", "force"]), "recursive": True, "named": named}
        if r < 0.7:
            return {"cmd": "annotate", "dot": rng.choice([None, "fallback"]), "named": rng.sample(inside, rng.randint(1, 3))}
        if r < 0.8:
            return {"cmd": rng.choice(["lint", "lint-json", "spdx"])}
        if r < 0.9:
            return {"cmd": "spdx-o", "out": "out.spdx" if cwd.startswith("..") else os.path.normpath(os.path.join(cwd, "out.spdx"))}
        return {"cmd": "download", "ids": rng.sample(["MIT", "0BSD", "Nope-1.0"], rng.randint(1, 2))}

    def cases(self, tier, rng):
        thorough = tier == "thorough"
        for rootdir in SUB_ROOTS:
            combos = self.combos(rootdir)
            for cwd, spell in (combos if thorough else [combos[0]] + rng.sample(combos[1:], 4)):
                tree = {"git": True, "tracked": rng.random() < 0.5, "lic": "none", "sibs": [], "sl": False, "sub": True}
                case = {"tree": tree, "terms": [], "cwd": cwd}
                if spell is not None:
                    case.update(rootdir=rootdir, rootspell=spell)
                # the whole project, recursively: every ignored file below the root is at stake
                case["cmds"] = [{"cmd": "annotate", "dot": rng.choice([None, "skip"]), "recursive": True, "named": [rootdir]}]
                yield case
                for _ in range(4 if thorough else 1):
                    c2 = {"tree": dict(tree, tracked=rng.random() < 0.5), "terms": [], "cwd": cwd}
                    if spell is not None:
                        c2.update(rootdir=rootdir, rootspell=spell)
                    c2["cmds"] = [self.gen_sub_cmd(rng, rootdir, cwd) for _ in range(rng.randint(1, 3))]
                    yield c2


# ---------------------------------------------------------------------------
# system-call monitor (thorough tier): every write-like system call of a child `python -m reuse …`

WHITELIST = ("/tmp/", "/dev/null", "/dev/shm/pym-", "/dev/shm/sem.", "/proc/", "/dev/tty")
WRITE_CALL = re.compile(r"^(?:\[pid\s+\d+\]\s+|\d+\s+)?(open|openat|creat|unlink|unlinkat|rename|renameat|renameat2|mkdir|mkdirat|rmdir|"
                        r"symlink|symlinkat|link|linkat|chmod|fchmodat|chown|lchown|fchownat|utime|utimes|utimensat|futimesat|truncate)\((.*)$")


def parse_strace(text, cwd):
    """-> list of (syscall, absolute path) for calls that write, create, remove or change metadata and did not fail"""
    out = []
    for line in text.split("\n"):
        m = WRITE_CALL.match(line)
        if not m or " = -1 " in line:
            continue
        call, rest = m.group(1), m.group(2)
        if call in ("open", "openat") and not re.search(r"O_(WRONLY|RDWR|CREAT|TRUNC|APPEND)", rest):
            continue
        paths = re.findall(r'"((?:[^"\\]|\\.)*)"', rest)
        if not paths:
            continue
        use = paths if call in ("rename", "renameat", "renameat2", "link", "linkat", "symlink", "symlinkat") else paths[:1]
        if call in ("symlink", "symlinkat"):
            use = paths[-1:]
        for p in use:
            if "\\" in p:
                # strace writes every byte outside printable ASCII as an octal escape: back to the bytes, then to a file name
                import codecs
                p = os.fsdecode(codecs.escape_decode(p.encode("ascii", "backslashreplace"))[0])
            out.append((call, os.path.normpath(p if os.path.isabs(p) else os.path.join(cwd, p))))
    return out


class StraceStream(CommandStream):
    name = "syscalls"
    modelled = False
    rule = ("thorough tier: single commands in a child process (`python harness/strace_entry.py … reuse-arguments`, network stubbed "
            "inside the child) under `strace -f -e trace=%file`; every successful open-for-write/creat/unlink/rename/mkdir/rmdir/"
            "symlink/link/chmod/chown/utime/truncate is resolved and must be whitelisted (Python's and multiprocessing's scratch: "
            "/tmp/, /dev/null, /dev/shm/pym-*, /dev/shm/sem.*, /proc/, /dev/tty, __pycache__) or be a path the command is documented "
            "to touch; symbolic links are resolved so a write through a link counts at its target")

    def cases(self, tier, rng):
        if tier != "thorough":
            # two cheap ones keep the machinery exercised in the quick tier
            yield {"tree": {"git": True, "tracked": True, "lic": "dep5", "sibs": [], "sl": True}, "terms": [], "cmds": [{"cmd": "lint"}]}
            yield {"tree": {"git": False, "lic": "none", "sibs": [], "sl": True}, "terms": [],
                   "cmds": [{"cmd": "annotate", "dot": None, "named": ["a.c", "l_in.c", "sl.py"]}]}
            return
        for k in sorted(READ_ONLY) + ["lint-file"]:
            yield {"tree": {"git": True, "tracked": True, "lic": "dep5", "sibs": [], "sl": True}, "terms": [],
                   "cmds": [{"cmd": k, "named": ["a.c", "l_in.c"]} if k == "lint-file" else {"cmd": k}]}
        for dl in sorted(DEP5_LINKS):
            yield {"tree": {"git": rng.random() < 0.5, "tracked": False, "lic": "dep5", "sibs": [], "sl": False, "dl": dl}, "terms": [], "cmds": [{"cmd": "convert-dep5"}]}
        for k in ("latin1", "cont", "nfd", "astral"):
            yield {"tree": {"git": True, "tracked": True, "lic": "none", "sibs": [], "sl": False,
                            "odd": {"cov": ["nfc", "comb", "space"], "ign": [k], "igndir": [k], "twin": "nfd" if k != "nfd" else "nfc"}},
                   "terms": [], "cmds": [{"cmd": "annotate", "dot": None, "recursive": True, "named": ["oddd"]}]}
        for _ in range(45):
            case = {"tree": self.gen_tree(rng), "terms": rng.choice([[], ["*/"]])}
            case["cmds"] = [gen_cmd(rng, case, False)]
            yield case

    def impl(self, case):
        with cli.scratch("rv-c15s-") as top:
            proj = materialise(top, case)
            s0, g0 = snapshot(top), git_state(top)
            cmd = case["cmds"][0]
            log = os.path.join(top, "strace.log")
            env = dict(os.environ)
            r = subprocess.run(
                ["strace", "-f", "-qq", "-e", "trace=%file", "-o", log, sys.executable, os.path.join(os.path.dirname(HERE), "strace_entry.py"),
                 ",".join(FETCHABLE), "--"] + argv_of(case, cmd),
                cwd=proj, env=env, capture_output=True, text=True, timeout=120)
            with open(log, encoding="utf-8", errors="replace") as fp:
                calls = parse_strace(fp.read(), proj)
            os.unlink(log)
            s1, g1 = snapshot(top), git_state(top)
            # resolve through symbolic links on the final tree: a write through a link counts at its target
            resolved = []
            for call, p in calls:
                # calls that act on a directory entry (unlink, rename, symlink) act on the entry itself -- in the directory its
                # parent path leads to --, the others on what the path leads to
                real = os.path.join(os.path.realpath(os.path.dirname(p)), os.path.basename(p)) \
                    if call in ("unlink", "unlinkat", "rename", "renameat", "renameat2", "symlink", "symlinkat") or not os.path.islink(p) else os.path.realpath(p)
                resolved.append((call, p, real))
        self.side[json.dumps(case, sort_keys=True)] = (s0, s1, g0, g1, resolved, top, r.returncode, r.stderr[-300:])
        return "%d|%d write-like calls" % (r.returncode, len(resolved))

    def oracle(self, case, impl_out):
        s0, s1, g0, g1, calls, top, rc, err = self.side[json.dumps(case, sort_keys=True)]
        if "Traceback" in err:
            return "traceback: " + err
        cmd = case["cmds"][0]
        why = judge(case, cmd, s0, s1, g0, g1)
        if why:
            return why.encode("utf-8", "backslashreplace").decode("utf-8")
        al, _ = allowed_for(case, cmd, s0)
        proj = os.path.join(top, "proj")
        for call, p, real in calls:
            if real.startswith(WHITELIST) or "__pycache__" in real or real == log_path(top):
                continue
            rel = os.path.relpath(real, proj)
            if rel in al and call in ("unlink", "unlinkat") and cmd["cmd"] == "convert-dep5":
                continue     # the entry .reuse/dep5, wherever `.reuse` leads
            if rel.startswith(".."):
                return "syscall-outside: `reuse %s` issued %s on %s (outside the project)" % (" ".join(argv_of(case, cmd)), call, real)
            if rel not in al:
                return ("syscall-stray: `reuse %s` issued %s on %s, which is not among %s" % (" ".join(argv_of(case, cmd)), call, rel, sorted(al)[:8])
                        ).encode("utf-8", "backslashreplace").decode("utf-8")
        return None

    def nontrivial(self, case, impl_out):
        return (case["cmds"][0]["cmd"], impl_out)


def log_path(top):
    return os.path.join(top, "strace.log")


PROPERTY = Property(
    pid="C15",
    streams=[CommandStream(), UnmodelledStream(), OddNameStream(), SubRootStream(), StraceStream()],
    assumptions=[
        "the model's file system has no write-through: a write at path p changes p only. That no written path is a symbolic link "
        "(or lies below a linked directory) is checked on the real tree by the snapshot of the outside sentinel and by the "
        "system-call monitor, not proved",
        "read-only commands (lint, lint-file, spdx without -o, supported-licenses, --help, --version) have no write operation in "
        "the model; for them the claim rests on the snapshot (content + mode + size + mtime_ns of project and sentinel, digest of "
        ".git/index, HEAD, config) and on the system-call monitor",
        "system-call whitelist: /tmp/, /dev/null, /dev/shm/pym-*, /dev/shm/sem.* (multiprocessing), /proc/, /dev/tty, __pycache__",
        "paths named on the command line that pass through a symbolic link to a directory (l_dir/out.py) are not generated: the "
        "named file itself then lies outside the project, and the property text does not say what should happen",
        "dangling symbolic links at .license sibling positions are generated (tree flavour dsl); links reached through a symlinked directory are not",
        "the network is a stub (urllib.request.urlopen replaced in-process / inside the traced child); download is verified in depth "
        "under C19, here only its frame condition",
        "directories are compared by type and mode only (their time stamps change when an allowed entry is created below them)",
        "the process runs as root: the read-only file (mode 0444) is writable, so 'read-only files' are exercised only as a mode "
        "that must be preserved",
        "Git is the only VCS installed",
        "tree flavour dl (`.reuse/dep5` or `.reuse` a symbolic link) is oracle-only: the model's convert-dep5 reads a regular file. Where `.reuse` "
        "itself links to a directory outside the project the ENTRY `.reuse/dep5` lives outside; its removal by convert-dep5 is the one change "
        "tolerated there (the property text does not say what should happen instead)",
        "tree flavour odd: names that are not valid UTF-8 are given to Git-ignored files and directories only; covered files (and files named on "
        "the command line) carry unusual but valid names, because the tool prints the names of the files it handles and the in-process runner's "
        "output stream is strict UTF-8 (a matter of C16). On the unrepaired tree every command over a tree with an ignored non-UTF-8 name ends in "
        "UnicodeDecodeError (fixes/vcs-paths-fsdecode.diff, `fixed` entry): the check's green state depends on that repair",
    ],
)
