"""C17, two more regions of the input space, both judged by stream `file`'s oracle (lint --json before = after, modulo the source name).

`exprs`    — License synopses that are *compound* expressions, the way DEP-5 files write them: `MIT and 0BSD`, `GPL-3.0-or-later or MIT`,
             `(ISC or CC0-1.0) and MIT`, `GPL-3.0-or-later with Classpath-exception-2.0 and MIT`, operators in lower / upper / mixed
             case, redundant parentheses, the same operand twice, several blanks.  One synopsis is one expression before the
             conversion and must be one — the same — expression after it (the comparison is on files[].spdx_expressions[] exactly).
`nfnames`  — files stored under names that are not in Unicode normal form C (decomposed accents, Hangul jamo, U+212B / U+2126,
             combining marks in non-canonical order), next to the same name in the other spelling (both exist on tmpfs), with dep5
             patterns that spell the name literally in the same spelling, in another spelling, or cover it with a wildcard.  dep5
             compares code points; so must the converted REUSE.toml.
"""
import unicodedata

import c17 as base

# --------------------------------------------------------------------------
IDS = ["MIT", "0BSD", "GPL-3.0-or-later", "Apache-2.0", "CC0-1.0", "ISC"]
EXC = "Classpath-exception-2.0"


def rand_expr(rng, depth=0):
    """-> (text, top-level operator or None); the text the way a DEP-5 synopsis is typed"""
    def op(word):
        return rng.choice([word.lower(), word.lower(), word.upper(), word.capitalize()])

    def atom():
        a = rng.choice(IDS)
        if a.startswith("GPL") and rng.random() < 0.4:
            return "%s %s %s" % (a, op("with"), EXC)
        return a
    r = rng.random()
    if depth >= 2 or r < (0.1 if depth == 0 else 0.45):
        return atom(), None
    word = "and" if rng.random() < 0.6 else "or"
    parts = []
    for _ in range(rng.choice([2, 2, 2, 3])):
        t, top = rand_expr(rng, depth + 1)
        if top is not None and (top != word or rng.random() < 0.5):
            t = "(" + t + ")"
        parts.append(t)
    if rng.random() < 0.15:
        parts.append(parts[0])          # the same operand twice
    gap = rng.choice([" ", " ", " ", "  "])
    text = (gap + op(word) + gap).join(parts)
    if depth == 0 and rng.random() < 0.1:
        text = "(" + text + ")"
    return text, word


def base_escape(path):
    """a path of the tree as a literal dep5 pattern"""
    return path.replace("\\", "\\\\").replace("*", "\\*").replace("?", "\\?")


FIXED_EXPRS = ["MIT and 0BSD", "MIT AND 0BSD", "(ISC or CC0-1.0) and MIT", "GPL-3.0-or-later with Classpath-exception-2.0 and MIT",
               "MIT or 0BSD", "MIT and 0BSD and ISC", "MIT and (0BSD and ISC)", "MIT and MIT", "(MIT or 0BSD) and (0BSD or MIT)",
               "MIT or (0BSD and ISC)", "((MIT))", "Apache-2.0 And MIT", "GPL-3.0-or-later WITH Classpath-exception-2.0",
               "CC0-1.0 and (GPL-3.0-or-later with Classpath-exception-2.0 or MIT)", "ISC  and  0BSD"]


class ExprStream(base.FileStream):
    name = "exprs"
    rule = ("generated .reuse/dep5 files (2-8 Files paragraphs over stream `file`'s tree of 14 files, 60 % naming one file literally, the "
            "others with patterns from its plain-glob grammar, 0-3 files with own information) whose License synopses are compound expressions as DEP-5 files type them: 15 fixed "
            "ones (`MIT and 0BSD`, `(ISC or CC0-1.0) and MIT`, `GPL-3.0-or-later with Classpath-exception-2.0 and MIT`, `MIT and MIT`, "
            "`((MIT))` …) one per file of the tree under a `*` paragraph (thorough: also each alone), then random trees of depth <= 2 over 6 identifiers and one exception with "
            "and / or / with in lower, upper and capitalised spelling, 2-3 operands, nested operands parenthesised (also where not "
            "needed), an operand repeated, doubled blanks, the whole in parentheses; `reuse lint --json` before and after `reuse "
            "convert-dep5` compared modulo the source name — the expressions listed per file exactly, one synopsis = one expression; "
            "no model; non-trivial = conversion succeeded and a file carries an expression with an operator")

    def cases(self, tier, rng):
        us = {"c": ["2020 Jane Doe"], "comment": False}
        # the fixed synopses: one paragraph per file of the tree under a `*` paragraph (14 at a time), thorough: also each alone
        for lo in range(0, len(FIXED_EXPRS), len(self.TREE)):
            chunk = FIXED_EXPRS[lo:lo + len(self.TREE)]
            yield {"paras": [dict(us, g=["*"], l="MIT")] + [{"g": [base_escape(f)], "c": ["20%02d Holder of %d" % (k, k)], "l": e, "comment": k % 4 == 0}
                                                            for k, (f, e) in enumerate(zip(self.TREE, chunk))], "own": ["src/a.c"]}
        if tier == "thorough":
            for k, e in enumerate(FIXED_EXPRS):
                yield {"paras": [dict(us, g=["*"], l=e)], "own": []}
                yield {"paras": [dict(us, g=["*"], l="MIT"), dict(us, g=[["src/*", "docs/*", "*.md"][k % 3]], l=e, comment=True)], "own": [["src/a.c"], ["docs/x.md"]][k % 2]}
        for _ in range(100 if tier == "thorough" else 12):
            paras = []
            files = rng.sample(self.TREE, len(self.TREE))
            for k in range(rng.randint(2, 8)):
                e, _top = rand_expr(rng)
                gs = [base_escape(files[k])] if rng.random() < 0.6 else rng.sample(self.GLOBS, rng.randint(1, 2))
                paras.append({"g": gs, "c": ["%d Holder %d" % (rng.randint(1990, 2024), k)], "l": e, "comment": rng.random() < 0.3})
                if rng.random() < 0.2:
                    paras[-1]["ltext"] = rng.choice(self.LICENCE_TEXTS)
            own = rng.sample(self.TREE, rng.randint(0, 3))
            yield {"paras": paras, "own": own, "own_kinds": {f: rng.choice(self.OWN_KINDS) for f in own}}

    def nontrivial(self, case, impl_out):
        if impl_out.startswith("EXC"):
            return None
        import json
        r = json.loads(impl_out)
        ls = tuple(p["l"] for p in case["paras"])
        return (ls, r.get("distinct")) if r.get("toml") and any(w in " %s " % l.lower() for l in ls for w in (" and ", " or ", " with ")) else None


# --------------------------------------------------------------------------
#: families of names that NFC identifies; every member is a file of the tree (tmpfs keeps them apart)
FAMILIES = [
    ["docs/re\u0301sume\u0301.md", "docs/r\xe9sum\xe9.md", "docs/r\xe9sume\u0301.md"],
    ["src/\u1100\u1161\u11a8.c", "src/\uac01.c", "src/\uac00\u11a8.c"],
    ["data/\u212b.json", "data/\xc5.json", "data/A\u030a.json"],
    ["cafe\u0301/menu.txt", "caf\xe9/menu.txt"],
    ["u\u0308ber.txt"],      # decomposed only
    ["d\u0307\u0323.txt", "d\u0323\u0307.txt", "\u1e0d\u0307.txt"],      # marks in non-canonical / canonical order / partly composed
    ["\u2126.md", "\u03a9.md"],
    ["lib/\u30cf\u3099.h"],      # decomposed kana only
    ["n\u0303/e\u0301/i\u0308.c", "\xf1/\xe9/\xef.c"],
]
NF_PLAIN = ["a.txt", "b.md", "src/a.c", "docs/x.md", "data/1.json", "README", "lib/plain.h"]


def nf_spellings(path):
    out = [path]
    for f in ("NFC", "NFD"):
        v = unicodedata.normalize(f, path)
        if v not in out:
            out.append(v)
    return out


def nf_patterns(rng, path):
    """dep5 patterns about `path`: literal (its own spelling / NFC / NFD), wildcards over or next to the non-ASCII part"""
    comps = path.split("/")
    name = comps[-1]
    ext = name[name.rindex("."):] if "." in name else ""
    r = rng.random()
    if r < 0.45:
        return path
    if r < 0.65:
        return rng.choice(nf_spellings(path))
    if r < 0.75:
        return "/".join(comps[:-1] + ["*"])
    if r < 0.85:
        return "/".join(comps[:-1] + ["*" + ext])
    if r < 0.93:
        # the first character literally (base letter of a decomposed name, or the composed character), then a wildcard
        return "/".join(comps[:-1] + [name[:rng.choice([1, 2])] + "*"])
    return comps[0][:1] + "*" if len(comps) > 1 else "*" + name[-3:]


class NfNamesStream(base.FileStream):
    name = "nfnames"
    TREE = NF_PLAIN + [f for fam in FAMILIES for f in fam]
    rule = ("generated .reuse/dep5 files over a tree of %d files of which %d are stored under names outside / inside Unicode normal "
            "form C in %d families (decomposed and precomposed accents side by side, one half-composed; Hangul jamo / syllable / "
            "syllable + final jamo; U+212B / U+00C5 / A + U+030A; U+2126 / U+03A9; combining marks in non-canonical and canonical "
            "order; decomposed kana; a decomposed directory name and a chain of three decomposed components; two names that exist "
            "decomposed only): 2-6 Files paragraphs of 1-2 patterns, 75 %% of them about a file of a family — its path literally in its "
            "own spelling, in NFC, in NFD, `dir/*`, `dir/*.ext`, the first one or two code points of the name + `*`, `x*` — the rest "
            "from {`*`, `*.md`, `docs/*`, `src/*`, `data/*.json`, `*.txt`}, each paragraph with an own licence and holder, 0-3 files "
            "with own information; per family one file in which every member is named literally by a paragraph of its own under a `*` paragraph (thorough: also every member and every spelling of it alone); `reuse lint --json` "
            "before and after `reuse convert-dep5` compared modulo the source name; no model; non-trivial = conversion succeeded "
            "and two members of one family are attributed differently") % (len(TREE), len(TREE) - len(NF_PLAIN), len(FAMILIES))
    PLAIN_GLOBS = ["*", "*.md", "docs/*", "src/*", "data/*.json", "*.txt", "lib/*"]

    def cases(self, tier, rng):
        us = {"c": ["2020 Jane Doe"], "l": "MIT", "comment": False}
        them = {"c": ["2019 Vendor Inc."], "l": "0BSD", "comment": False}
        members = [f for fam in FAMILIES for f in fam]
        # per family: every member named literally by a paragraph of its own, under a `*` paragraph
        for fam in FAMILIES:
            yield {"paras": [dict(us, g=["*"])] + [{"g": [f], "c": ["20%02d Spelling %d" % (k, k)], "l": self.LIC_SINGLE[k % len(self.LIC_SINGLE)], "comment": False}
                                                   for k, f in enumerate(fam)], "own": []}
        if tier == "thorough":
            for f in members:
                for sp in nf_spellings(f):
                    yield {"paras": [dict(us, g=["*"]), dict(them, g=[sp])], "own": []}
        for _ in range(100 if tier == "thorough" else 14):
            paras = []
            for k in range(rng.randint(2, 6)):
                gs = []
                for _ in range(rng.randint(1, 2)):
                    gs.append(nf_patterns(rng, rng.choice(members)) if rng.random() < 0.75 else rng.choice(self.PLAIN_GLOBS))
                paras.append({"g": gs, "c": ["%d Holder %d" % (rng.randint(1990, 2024), k)], "l": rng.choice(self.LIC), "comment": rng.random() < 0.2})
            own = rng.sample(self.TREE, rng.randint(0, 3))
            yield {"paras": paras, "own": own, "own_kinds": {f: rng.choice(self.OWN_KINDS) for f in own}}

    def nontrivial(self, case, impl_out):
        if impl_out.startswith("EXC"):
            return None
        import json
        r = json.loads(impl_out)
        return (tuple(ascii(g) for p in case["paras"] for g in p["g"]), r.get("distinct")) if r.get("toml") and r.get("distinct", 0) >= 2 else None

    def show(self, case):
        out = base.FileStream.show(self, case)
        out["dep5_ascii"] = ascii(out.get("dep5"))
        return out

# --------------------------------------------------------------------------
#: names with control characters in them (line feed, carriage return, tab; at the start, inside, at the very end; in file names and in
#: directory names) — a dep5 `*` covers every character (python-debian compiles its globs DOTALL), so must what it is converted to
CTRL_PLAIN = ["a.txt", "b.md", "src/a.c", "src/lib/d.h", "docs/x.md", "docs/img/y.png", "data/1.json", "README", "lib/plain.h"]
CTRL_NAMES = ["docs/release\nnotes.txt", "docs/tail.md\n", "src/a\rb.c", "src/tab\there.c", "line\nfeed/inner.txt", "data/two\n\nlines.json",
              "new\nline.md", "docs/img/cr\r\nlf.png", "lib/\nlead.h", "a\nb/c\nd/e.txt", "src/lib/x\ny.h", "\ttab-first.txt", "data/sub\n/2.json",
              "docs/\n", "cr\rdir/plain.txt"]
CTRL_GLOBS = ["*", "*", "docs/*", "docs/*.txt", "docs/*.md", "src/*", "src/*.c", "src/lib/*", "*.md", "*.txt", "data/*.json", "data/*", "docs/img/*.png",
              "docs/img/*", "lib/*", "lib/*.h", "d*", "l*", "a*", "li*", "*e.txt", "*.json", "*.h", "n*", "c*", "src/a*", "docs/r*s.txt", "**.png",
              "README", "a.txt", "src/a.c"]


class CtrlNamesStream(base.FileStream):
    name = "ctrlnames"
    TREE = CTRL_PLAIN + CTRL_NAMES
    rule = ("generated .reuse/dep5 files over a tree of %d files of which %d have a control character in their path — a line feed inside a "
            "file name, as its first character, as its last character, as the whole name, twice in a row, CR LF, a lone carriage "
            "return, a tab (inside / first), in a directory name at depth 1 and 2, at the end of a directory name, in two components "
            "at once: 1-5 Files paragraphs of 1-3 patterns from 31 wildcard shapes (`*`, `dir/*`, `dir/*.ext`, `*.ext`, `x*`, "
            "`dir/r*s.txt` …; a Files field cannot spell such a name literally, so a wildcard is the only way to "
            "cover it), each paragraph with its own holder and licence, 0-3 files with own information of four kinds; fixed: `*` "
            "alone; `*` + one `dir/*` per directory; ours / theirs / ours nested; `reuse lint --json` before and after `reuse "
            "convert-dep5` compared modulo the source name; no model; non-trivial = conversion succeeded and at least two files are "
            "attributed by different paragraphs") % (len(TREE), len(CTRL_NAMES))

    def cases(self, tier, rng):
        us = {"c": ["2020 Jane Doe"], "l": "MIT", "comment": False}
        them = {"c": ["2019 Vendor Inc."], "l": "0BSD", "comment": False}
        yield {"paras": [dict(us, g=["*"])], "own": []}
        for k, d in enumerate(["docs/*", "src/*", "data/*", "lib/*", "l*", "a*", "*.txt", "*.md", "docs/img/*", "c*"]):
            yield {"paras": [dict(us, g=["*"]), dict(them, g=[d])] + ([dict(us, g=["src/lib/*", "*.json"])] if k % 2 else []), "own": [["src/a.c"], []][k % 2]}
            if tier == "thorough" or k % 3 == 0:
                yield {"paras": [dict(them, g=[d])], "own": []}
        for _ in range(120 if tier == "thorough" else 10):
            paras = []
            for k in range(rng.randint(1, 5)):
                paras.append({"g": rng.sample(CTRL_GLOBS, rng.randint(1, 3)), "c": ["%d Holder %d" % (rng.randint(1990, 2024), k)], "l": rng.choice(self.LIC),
                              "comment": rng.random() < 0.2})
            own = rng.sample(self.TREE, rng.randint(0, 3))
            yield {"paras": paras, "own": own, "own_kinds": {f: rng.choice(self.OWN_KINDS) for f in own}}

    def nontrivial(self, case, impl_out):
        if impl_out.startswith("EXC"):
            return None
        import json
        r = json.loads(impl_out)
        return (tuple(g for p in case["paras"] for g in p["g"]), r.get("distinct")) if r.get("toml") and r.get("distinct", 0) >= 2 else None

    def show(self, case):
        out = base.FileStream.show(self, case)
        out["tree_ascii"] = [ascii(f) for f in self.TREE]
        return out


STREAMS = [ExprStream(), NfNamesStream(), CtrlNamesStream()]
