"""C01 — lint verdict equals compliance with the REUSE specification."""
import json

from core import Property, Stream
import reports_common as rc
from c01_e2e import E2EModelStream

CATS = ("missing", "unused", "bad", "deprecated", "noext", "nocop", "nolic", "readerr")


class VerdictOracle(rc.ReportStream):
    def oracle(self, case, impl_out):
        if impl_out.startswith("EXC"):
            return "crash: " + impl_out
        got = json.loads(impl_out)
        viol = rc.clauses(case)
        # the verdict, straight from clauses (a)-(d)
        if (got["exit"] == 0) != (not viol):
            kind = rc.diff_kind(case, got, rc.expected(case), CATS + ("exit",))
            if kind and not kind.startswith("category-mismatch"):
                return kind
            return "verdict: exit %d but violated clauses are %s" % (got["exit"], viol or "none")
        if got["compliant"] != (got["exit"] == 0):
            return "verdict-flag: summary.compliant=%s with exit %d" % (got["compliant"], got["exit"])
        # the named offenders, and nothing else
        return rc.diff_kind(case, got, rc.expected(case), CATS)


class TreeStream(VerdictOracle, Stream):
    name = "trees"
    rule = ("compliant-by-construction trees (1-6 covered files with spaces / non-ASCII / colon in their names, headers in 7 comment "
            "styles, .license siblings, binaries, REUSE.toml incl. aggregate precedence, dep5, LICENSES/ sub-directories and .license "
            "companions, non-covered material: LICENSE, COPYING, *.spdx, empty files, symlinks, empty directories, git-ignored files; one "
            "in five inside a Git repository; one in forty through the multiprocessing pool) with zero, one or 2-5 injected defects of 14 "
            "kinds (missing, unused, bad used / provided, wrong case, deprecated, no extension, no copyright, no licence, neither, "
            "read error through a FIFO, LicenseRef- missing / without extension, only ID+ provided); real `reuse lint --json` and exit "
            "status vs the model fed from the generator's records; oracle = clauses (a)-(d) and the category definitions; "
            "non-trivial = distinct reports")

    def cases(self, tier, rng):
        k = 0
        for c in rc.tree_cases(tier, rng):
            if rc.dup_free(c):
                k += 1
                if k % 40 == 0:
                    c["mp"] = True
                yield c


class CellStream(VerdictOracle, Stream):
    name = "cells"
    rule = "the identifier class x use x provision cells of C06, judged by clauses (a)-(d)"

    def cases(self, tier, rng):
        for c in rc.product_cases("quick", rng):
            if rc.dup_free(c):
                yield c


PROPERTY = Property(
    pid="C01",
    streams=[TreeStream(), CellStream(), E2EModelStream()],
    table_roundtrip=rc.table_roundtrip,
    assumptions=[
        "streams trees / cells: the model receives the abstract project (per covered file: readable?, any copyright line?, identifiers "
        "of each expression; the names below LICENSES/) from the generator's records; stream e2e-model: the composed model "
        "(Model/LintE2E.lean) receives the tree itself (bytes of every regular file) and computes walk, own source, REUSE.toml chain, "
        "extraction, attribution, LICENSES/ entries and the report; oracles there (parameters of the model, answered by the real "
        "libraries): binaryornot, tomlkit (REUSE.toml as its list of tables), python-debian (.reuse/dep5 as its paragraphs), "
        "license-expression (parses?, keys, rendering); no VCS in that stream",
        "outside the composed model: special files (FIFOs), symlinks below LICENSES/, a live symlink as FILE.license, a dep5 licence "
        "synopsis that does not parse",
        "read errors are provoked with a FIFO (the sandbox runs as root, so permissions cannot be used)",
        "theorems carry plainNames (see C06) and `generate … = some r` (no two LICENSES/ entries with one identifier: the tool stops, C16)",
    ],
)
