"""C01 — lint verdict equals compliance with the REUSE specification."""
import json

from core import Property, Stream
import reports_common as rc
from c01_e2e import E2EModelStream
import c01s16

CATS = ("missing", "unused", "bad", "deprecated", "noext", "nocop", "nolic", "readerr")


class VerdictOracle(rc.ReportStream):
    def judge(self, case, got, alt):
        viol = rc.clauses(case, alt)
        # the verdict, straight from clauses (a)-(d)
        if (got["exit"] == 0) != (not viol):
            kind = rc.diff_kind(case, got, rc.expected(case, alt), CATS + ("exit",))
            if kind and not kind.startswith("category-mismatch"):
                return kind
            return "verdict: exit %d but violated clauses are %s" % (got["exit"], viol or "none")
        if got["compliant"] != (got["exit"] == 0):
            return "verdict-flag: summary.compliant=%s with exit %d" % (got["compliant"], got["exit"])
        # the named offenders, and nothing else
        return rc.diff_kind(case, got, rc.expected(case, alt), CATS)

    def oracle(self, case, impl_out):
        if impl_out.startswith("EXC"):
            return "crash: " + impl_out
        got = json.loads(impl_out)
        # every covered file is accounted for — it has a per-file report or it is named as unreadable — and nothing else is
        covered = {p for p, rd, cop, exprs in rc.abstract(case)}
        seen = set(got["files"]) | set(got["readerr"])
        if covered - seen:
            return "file-vanished: covered file(s) %s have no per-file report and are not named under read errors (exit %d)" % (
                sorted(covered - seen), got["exit"])
        if seen - covered:
            return "non-covered-file-examined: %s" % sorted(seen - covered)
        why = self.judge(case, got, False)
        if why is not None and rc.has_choke(case) and self.judge(case, got, True) is None:
            # a tag on which the library's expression parser fails internally: taking nothing from the file (as for any other
            # unparseable expression: what the tool does since fixes/expression-parser-internal-failures.diff, and what the
            # model is told) and naming the file as unreadable (what it did before) are both accepted
            return None
        return why


class TreeStream(VerdictOracle, Stream):
    name = "trees"
    rule = ("compliant-by-construction trees (1-7 covered files with spaces / non-ASCII / colon in their names, headers in 7 comment "
            "styles, .license siblings, snippets, binaries; global licensing: none, one REUSE.toml with a table per file incl. aggregate "
            "precedence, REUSE.toml hierarchies (a REUSE.toml in the root and in any directory above a file, 1-3 tables each with "
            "`**`, `*`, `*.ext`, `dir/**` or literal paths, closest / aggregate / override, copyright only / licence only / both / "
            "neither, last matching table applies; files with a full header, half a header or none, completed by one or two REUSE.toml "
            "files), dep5 with one-file and wildcard paragraphs (last match applies, always aggregated); LICENSES/ sub-directories and "
            ".license companions, non-covered material: LICENSE, COPYING, *.spdx, empty files, symlinks, empty directories; one in five "
            "inside a Git repository (covered files tracked or not) that ignores 1-3 groups of entries - directories `/build/`, `build/`, "
            "`/src/out/`, `/tmp/`, files `/info`, `/notes.txt`, `/src/gen`, `/cache`, a glob `*.log`, some carrying licence tags - next to "
            "covered files whose names merely begin like an ignored entry (`build.gradle`, `builder/m.c`, `notes.txt.in`, "
            "`src/output.c`, `run.log.txt`) or are a beginning of one (`buil`, `inf`, `src/ou`, `b`); three trees in ten hold covered files in "
            "directories whose names have the name of an exempt directory as a proper prefix, a proper suffix, in the middle or in another case "
            "(`.github/workflows/`, `.hgpatches`, `LICENSES-thirdparty`, `x.git`, `my.reuse`, `OLD-LICENSES`, `a.reuse.b`, `licenses`, `.GIT`; 40 names, at "
            "top level, below `src/`, `docs/deep/`, inside one another) or covered regular files called `.hg`, `.sl`, `.reuse`, `LICENSES`; three trees "
            "in ten reach some of their licence texts through symbolic links: 1-3 entries of LICENSES/ are links to a regular file (another text "
            "of LICENSES/, `../COPYING-n` and the like elsewhere in the project, a hidden store below LICENSES/, a file outside the project, a link "
            "to a link; relative or absolute), a sub-directory of LICENSES/ (an existing one, a new one into which 1-3 entries move, now and then "
            "LICENSES itself) is a link to a directory (`vendor/LICENSES`, below .reuse/, a hidden directory of LICENSES/, a directory outside the "
            "project), and a dangling link named like a licence text (used-but-missing, deprecated, unknown or current identifier, with or without "
            "extension) is no licence text at all — a link is named by its own name, so the ground truth of the categories does not change; one in "
            "forty through the multiprocessing pool, under a time limit) with zero, one or 2-5 injected "
            "defects of 22 kinds (an ill-formed LicenseRef- look-alike (underscore, non-ASCII, colon, empty tail) used and provided, "
            "a text provided under a related name (X / X+ / X-only / X-or-later) only, missing, unused, bad used / provided, wrong case, deprecated, no extension, no copyright, no licence, "
            "neither, read error through a FIFO, LicenseRef- missing / without extension, only ID+ provided, empty notice in REUSE.toml, "
            "a dep5 paragraph whose License field is no SPDX expression, a licence tag on which the expression parser fails internally, "
            "a REUSE.toml table stripped / with another precedence / shadowed by a later table); real `reuse lint --json` and exit "
            "status vs the model fed from the generator's records (attribution through the specification function of C04); oracle = "
            "clauses (a)-(d), the category definitions, and: every covered file has a per-file report or is named under read errors; "
            "non-trivial = distinct reports")

    def cases(self, tier, rng):
        k = 0
        for c in rc.tree_cases(tier, rng):
            if rc.dup_free(c):
                k += 1
                if k % 40 == 0:
                    c["mp"] = True
                yield c


class CellStream(VerdictOracle, Stream):
    name = "cells"
    rule = "the identifier class x use x provision cells of C06, judged by clauses (a)-(d)"

    def cases(self, tier, rng):
        for c in rc.product_cases("quick", rng):
            if rc.dup_free(c):
                yield c


PROPERTY = Property(
    pid="C01",
    streams=[TreeStream(), CellStream(), E2EModelStream()] + c01s16.STREAMS,
    table_roundtrip=rc.table_roundtrip,
    assumptions=[
        "streams trees / cells: the model receives the abstract project (per covered file: readable?, any copyright line?, identifiers "
        "of each expression; the names below LICENSES/) from the generator's records; stream e2e-model: the composed model "
        "(Model/LintE2E.lean) receives the tree itself (bytes of every regular file) and computes walk, own source, REUSE.toml chain, "
        "extraction, attribution, LICENSES/ entries and the report; oracles there (parameters of the model, answered by the real "
        "libraries): binaryornot, tomlkit (REUSE.toml as its list of tables), python-debian (.reuse/dep5 as its paragraphs), "
        "license-expression (parses?, keys, rendering); no VCS in that stream",
        "outside the composed model: special files (FIFOs), a live symlink as FILE.license, link loops, a dep5 licence synopsis that does "
        "not parse (FIFOs and such synopses are in the streams trees / cells)",
        "symbolic links below LICENSES/ (to files and to directories, inside and outside the project, links to links, links inside linked "
        "directories, dangling and hidden ones; LICENSES itself a link) are in all three streams; reading, for the oracles: a link that "
        "resolves to a regular file is a licence text named by the link's name, texts below a linked directory count like texts in any "
        "sub-directory, a dangling link is nothing. In stream e2e-model the composed model receives every link with what it resolves to "
        "(ENode.symlink / LinkTarget; the harness follows links to links on the case, LinkView) and walks them itself (licWalkLink; "
        "theorem C01_e2e_linked_text); its oracle adds the generator's record of linked names to the regular files it finds below LICENSES/",
        "read errors are provoked with a FIFO (the sandbox runs as root, so permissions cannot be used)",
        "per-file failures that are not I/O errors are provoked with a dep5 License field that is no SPDX expression and with licence tags "
        "on which the expression parser fails internally",
        "streams trees / cells: which REUSE.toml table / dep5 paragraph matches which file is the generator's ground truth (its own five pattern "
        "shapes); glob translation is the subject of C05, precedence of C04 (whose specification function is reused here)",
        "theorems carry plainNames (see C06) and `generate … = some r` (no two LICENSES/ entries with one identifier: the tool stops, C16)",
    ],
)
