"""Stream `annotate-e2e` (C11, C07): the composed end-to-end model of `reuse annotate`
(lean/ReuseVerif/Model/AnnotateE2E.lean) against the real CLI on generated trees.

Both sides get the same project: written to disk for the real `reuse annotate` (in-process click CLI), serialised
for the driver op `ae2e`.  Compared: exit status, the set of created / removed / changed paths and the bytes of every
changed file.  The oracle does not look at the model: it is the generator's ground truth (which file is of which
kind, what was planted in it, what was requested) read through the documented behaviour (`plan`: C11's clauses) plus
the tool's own linter on the result (C07's read-back, `reuse lint --json`)."""
import datetime
import json
import os
import stat

from core import Stream, enc, dec, enc_list, dec_list, run_driver
import cli
import annotgen as G

# ---------------------------------------------------------------------------
# generator ground truth, written down from the documentation (docs/man/reuse-annotate.rst, the comment style list)
# kind -> name suffix, single-line leader, multi-line (start, prefix of the middle lines, end), uncommentable, binary content
KINDS = {
    "py": (".py", "#", None, 0, 0),
    "sh": (".sh", "#", None, 0, 0),
    "toml": (".toml", "#", None, 0, 0),
    "tex": (".tex", "%", None, 0, 0),
    "hs": (".hs", "--", None, 0, 0),
    "bat": (".bat", "REM", None, 0, 0),
    "lisp": (".lisp", ";;;", None, 0, 0),
    "cpp": (".cpp", "//", ("/*", " * ", "*/"), 0, 0),
    "rs": (".rs", "//", ("/*", " * ", "*/"), 0, 0),
    "jl": (".jl", "#", ("#=", "", "=#"), 0, 0),
    "c": (".c", None, ("/*", " * ", "*/"), 0, 0),
    "css": (".css", None, ("/*", " * ", "*/"), 0, 0),
    "html": (".html", None, ("<!--", "", "-->"), 0, 0),
    "md": (".md", None, ("<!--", "", "-->"), 0, 0),
    "ml": (".ml", None, ("(*", " * ", "*)"), 0, 0),
    "j2": (".j2", None, ("{#", "", "#}"), 0, 0),
    "mk": ("/Makefile", "#", None, 0, 0),         # recognised by its file name
    "foo": (".foo", "?", "?", 0, 0),               # unrecognised extension
    "txt": (".txt", "?", "?", 0, 0),               # unrecognised extension
    "zzz": (".zzz", "?", "?", 0, 1),               # unrecognised extension, binary content
    "png": (".png", None, None, 1, 1),             # uncommentable, binary content
    "csv": (".csv", None, None, 1, 0),             # uncommentable, text content
    "json": (".json", None, None, 1, 0),           # uncommentable, text content
    "lat": (".rb", "#", None, 0, 0),               # recognised, but the content is not UTF-8 text
    # recognised and commentable by name, valid UTF-8 — but binary to binaryornot (raw control characters / NUL padding):
    # the header belongs in FILE.license, where the linter (which asks the same library) looks
    "pyb": (".py", "#", None, 0, 2),
    "cb": (".c", None, ("/*", " * ", "*/"), 0, 2),
    "mdb": (".md", None, ("<!--", "", "-->"), 0, 3),
    "pngt": (".png", None, None, 1, 0),             # uncommentable (and binary to binaryornot by its name), text content
}
UNRECOGNISED = ("foo", "txt", "zzz")
TEXT_KINDS = [k for k, v in KINDS.items() if not v[4] and k != "lat"]
COMMENTABLE = [k for k, v in KINDS.items() if v[1] != "?" and not v[3] and k != "lat"]
#: --style value -> (single-line leader, multi-line triple)
FORCED = {"python": ("#", None), "c": (None, ("/*", " * ", "*/")), "cpp": ("//", ("/*", " * ", "*/")), "html": (None, ("<!--", "", "-->")),
          "julia": ("#", ("#=", "", "=#")), "tex": ("%", None), "haskell": ("--", None), "lisp": (";;;", None), "jinja": (None, ("{#", "", "#}")),
          "ml": (None, ("(*", " * ", "*)")), "bat": ("REM", None)}
LATIN1 = b"s = 'caf\xe9 na\xefve'\nputs s\n"
BINARY = b"\x89PNG\r\n\x1a\n\x00\x00\x00\rIHDR\x00\x01\x02\x03\xff\xfe\x00\x00"
#: valid UTF-8 that binaryornot calls binary: string constants holding the raw C0 control characters / NUL-padded records
BINTEXT = "".join("K%d = \"%s\"\n" % (i, "".join(chr(c) for c in range(1, 32) if c not in (9, 10, 13))) for i in range(24)).encode()
BINRECORDS = "".join(("field%d" % i).ljust(16, "\0") + "\n" for i in range(40)).encode()
BINARY_CONTENTS = (BINARY, BINTEXT, BINRECORDS)
CODE = {"py": "x = 1\nprint(x)\n", "sh": "echo hello\n", "toml": "[a]\nb = 1\n", "tex": "\\section{x}\n", "hs": "main = return ()\n", "bat": "echo off\n",
        "lisp": "(print 1)\n", "cpp": "int main() { return 0; }\n", "rs": "fn main() {}\n", "jl": "x = 1\n", "c": "int x;\n", "css": "a { color: red }\n",
        "html": "<p>x</p>\n", "md": "Title\n=====\n\ntext é 张\n", "ml": "let x = 1\n", "j2": "{{ x }}\n", "mk": "all:\n\ttrue\n", "foo": "some text\n",
        "txt": "plain words\n", "csv": "a,b\n1,2\n", "json": "{\"a\": 1}\n", "pngt": "not really a picture\n"}
SHEBANG = {"py": "#!/usr/bin/env python3", "sh": "#!/bin/sh", "jl": "#!/usr/bin/env julia", "html": "<?xml version=\"1.0\"?>", "tex": "% !TEX root = main.tex",
           "hs": "cabal-version: 2.2", "cpp": "#!/usr/bin/env cppscript"}
OWN = (["SPDX-FileCopyrightText: 2019 Own"], ["ISC"], [])
OWN2 = (["SPDX-FileCopyrightText: 2019 Own", "Copyright (C) 2015 Elder & Co."], ["ISC", "Zlib"], ["Helper"])
SIB = (["SPDX-FileCopyrightText: 2018 Sib"], ["Zlib"], [])
HOLDERS = ["Jane Doe", "ACME Inc.", "Jane Doe <jane@example.com>", "José Álvarez", "张三", "R&D, Ltd.", "The FOO Project Developers", "Doe; Jane",
           "Team «Rocket»", "\U0001F600 Smile Corp"]
NOTICE_HOLDERS = ["Copyright 2017 Other Org", "SPDX-FileCopyrightText: 2016 Third Party", "© 2014 Fifth Ltd."]
LICENSES = ["MIT", "GPL-3.0-or-later", "Apache-2.0 OR MIT", "0BSD", "LicenseRef-custom", "EUPL-1.2+", "mit", "GPL-2.0-only WITH Classpath-exception-2.0",
            # spellings the parser prints differently (the header holds `str(parse(x))`)
            "(BSD-3-Clause)", "ISC and Zlib", "CC0-1.0  OR   Unlicense", "GPL-2.0-only with Autoconf-exception-2.0"]
CONTRIBUTORS = ["Alice", "Bob <bob@example.com>", "Zoë Ø"]
DIRS = ["", "src/", "src/deep/"]
DROPPING = ("drops-licences", "drops-copyright", "drops-both", "drops-first-licence", "drops-first-copyright")
TEMPLATE_NAMES = ("adds-text", "no-contributors", "commented") + DROPPING
MARKER = {"adds-text": "Header of this file"}
YEAR = str(datetime.date.today().year)


def header_lines(info):
    cpr, lic, con = info
    return cpr + ["SPDX-FileContributor: " + c for c in con] + ([""] if lic else []) + ["SPDX-License-Identifier: " + l for l in lic]


def own_block(kind, info, multi=False):
    """an existing header in the file's own comment syntax (from the documentation of the syntax, not from the tool)"""
    _s, single, mult, _u, _b = KINDS[kind]
    lines = header_lines(info)
    if single and not (multi and mult):
        return [single + (" " + l if l else "") for l in lines]
    start, mid, end = mult
    return [start] + [(mid + l) if l else mid.rstrip() for l in lines] + [(" " if mid.startswith(" ") else "") + end]


def fname(i, f):
    suffix = KINDS[f["kind"]][0]
    if suffix.startswith("/"):
        return "%sm%d%s" % (f["dir"], i, suffix)
    return "%s%s%d%s" % (f["dir"], "l" if f.get("link") is not None else "f", i, suffix)


def body_of(f):
    """(bytes, planted information or None)"""
    k = f["kind"]
    if KINDS[k][4]:
        return {1: BINARY, 2: BINTEXT, 3: BINRECORDS}[KINDS[k][4]], None
    if k == "lat":
        return LATIN1, None
    b = f.get("body", "plain")
    lines = []
    planted = None
    if "shebang" in b and k in SHEBANG:
        lines.append(SHEBANG[k])
    if "own" in b and k in COMMENTABLE:
        planted = OWN2 if "own2" in b else OWN
        if lines:
            lines.append("")
        lines += own_block(k, planted, multi="ownmulti" in b) + [""]
    text = "\n".join(lines) + ("\n" if lines else "") + CODE[k]
    if "nonl" in b:
        text = text.rstrip("\n")
    if "crlf" in b:
        text = text.replace("\n", "\r\n")
    elif "cr" in b.split("+"):
        text = text.replace("\n", "\r")
    if "bom" in b:
        text = "\ufeff" + text
    return text.encode("utf-8"), planted


def sib_text(info):
    return "\n".join(header_lines(info)) + "\n"


def tree_of(case):
    """{path: bytes | ("link", target relative to the link's directory)}"""
    files = {}
    for i, f in enumerate(case["files"]):
        n = fname(i, f)
        if f.get("link") is not None:
            j = f["link"]
            files[n] = ("link", os.path.basename(fname(j, case["files"][j])) if j >= 0 else "nowhere" + KINDS[f["kind"]][0])
            continue
        files[n] = body_of(f)[0]
        s = f.get("sib")
        if s == "e":
            files[n + ".license"] = b""
        elif s == "i":
            files[n + ".license"] = sib_text(SIB).encode()
        elif s == "dl":
            files[n + ".license"] = ("link", "nowhere.license")
        elif s == "ll":
            files[n + ".license"] = ("link", "lt%d.license" % i)
            files[os.path.join(os.path.dirname(n), "lt%d.license" % i)] = sib_text(SIB).encode()
    files["bystander.py"] = b"y = 2\n"
    files["src/other.c"] = b"int bystander;\n"
    t = case["opts"].get("tmpl")
    if t in G.TEMPLATES and G.TEMPLATES[t] is not None:
        fn, text = G.TEMPLATES[t]
        files[".reuse/templates/" + fn] = text.encode()
    return files


def argv_of(case):
    o = case["opts"]
    a = ["annotate"]
    for h in o.get("cpr", []):
        a += ["--copyright", h]
    for l in o.get("lic", []):
        a += ["--license", l]
    for c in o.get("con", []):
        a += ["--contributor", c]
    if o.get("prefix"):
        a += ["--copyright-prefix", o["prefix"]]
    for y in o.get("years", []):
        a += ["--year", y]
    if o.get("exclude"):
        a.append("--exclude-year")
    if o.get("style"):
        a += ["--style", o["style"]]
    if o.get("tmpl"):
        a += ["--template", o.get("tmpl_arg") or o["tmpl"]]
    for flag, opt in (("merge", "--merge-copyrights"), ("single", "--single-line"), ("multi", "--multi-line"), ("recursive", "--recursive"),
                      ("no_replace", "--no-replace"), ("force", "--force-dot-license"), ("fallback", "--fallback-dot-license"),
                      ("skip", "--skip-unrecognised"), ("skip_existing", "--skip-existing")):
        if o.get(flag):
            a.append(opt)
    return a + list(case["named"])


# ---------------------------------------------------------------------------
# what the documentation says should happen

def kind_of_path(path):
    """(single, multi, unc) of a path by its name, None when unrecognised"""
    if path.endswith(".license"):
        return (None, None, 0)
    base = os.path.basename(path)
    if base == "Makefile":
        return ("#", None, 0)
    for k, (suffix, single, multi, unc, _b) in KINDS.items():
        if not suffix.startswith("/") and path.endswith(suffix):
            return None if single == "?" else (single, multi, unc)
    return None


def eff_style(case, path):
    st = case["opts"].get("style")
    if st:
        return FORCED[st] + (0,)
    return kind_of_path(path)


def year_text(o):
    if o.get("exclude"):
        return None
    ys = o.get("years", [])
    if not ys:
        return YEAR
    return ys[0] if len(ys) == 1 else "%s - %s" % (min(ys), max(ys))


def wanted(case):
    o = case["opts"]
    y = year_text(o)
    return ({G.expected_notice(h, o.get("prefix"), y) for h in o.get("cpr", [])}, {G.norm_lic(l) for l in o.get("lic", [])}, set(o.get("con", [])))


def planted_at(case, path):
    """what the regular file at `path` declared before the run (generator ground truth)"""
    for i, f in enumerate(case["files"]):
        if f.get("link") is not None:
            continue
        n = fname(i, f)
        if path == n:
            return body_of(f)[1]
        if path == n + ".license" and f.get("sib") == "i":
            return SIB
    return None


def uses_multi(case, st):
    o = case["opts"]
    return bool(st[1]) and bool(o.get("multi") or not st[0])


def header_fails(case, files, t):
    o = case["opts"]
    if files.get(t) == LATIN1:
        return "not UTF-8 text"
    if o.get("tmpl") in DROPPING:
        return "the template drops requested information"
    st = eff_style(case, t)
    if st is not None and uses_multi(case, st) and o.get("tmpl") != "commented":
        end = st[1][2]
        if any(end in h for h in o.get("cpr", []) + o.get("con", [])):
            return "the multi-line terminator %s is part of the header text" % end
    return None


def is_link(files, p):
    return isinstance(files.get(p), tuple)


def resolves(files, p):
    """the regular file a path leads to (one link followed), or None"""
    v = files.get(p)
    if isinstance(v, tuple):
        q = os.path.join(os.path.dirname(p), v[1])
        return q if isinstance(files.get(q), bytes) else None
    return p if isinstance(v, bytes) else None


def dirs_of(files):
    dirs = {"."}
    for n in files:
        d = os.path.dirname(n)
        while d:
            dirs.add(d)
            d = os.path.dirname(d)
    return dirs


def covered_below(files, d):
    out = []
    for n, c in sorted(files.items()):
        if d == "." or n.startswith(d + "/"):
            if n.endswith(".license") or n.startswith(".reuse/") or not isinstance(c, bytes) or len(c) == 0:
                continue
            out.append(n)
    return out


def usage_reason(case, files):
    o = case["opts"]
    if not (o.get("cpr") or o.get("lic") or o.get("con")):
        return "none of --copyright / --license / --contributor"
    if o.get("years") and o.get("exclude"):
        return "--year with --exclude-year"
    if o.get("single") and o.get("multi"):
        return "--single-line with --multi-line"
    if sum(1 for k in ("force", "fallback", "skip") if o.get(k)) > 1:
        return "two of --force-dot-license / --fallback-dot-license / --skip-unrecognised"
    if o.get("style") and o.get("skip"):
        return "--style with --skip-unrecognised"
    if any(l.startswith("(((") for l in o.get("lic", [])):
        return "a --license value that is not an SPDX expression"
    return None


def plan(case):
    """-> ('usage', reason) | list of (named file, written path, status, reason); status: ok / fail / skip / drop"""
    files = tree_of(case)
    o = case["opts"]
    why = usage_reason(case, files)
    if why:
        return ("usage", why)
    dirs = dirs_of(files)
    work = []
    for n in case["named"]:
        if resolves(files, n) is not None:
            work.append(n)
        elif n in dirs:
            if o.get("recursive"):
                work.extend(covered_below(files, n))
        else:
            return ("usage", "no such path: %s" % n)
    seen = []
    for n in work:
        if n not in seen:
            seen.append(n)
    paths = []
    out = []
    for n in seen:
        sib = n + ".license"
        p = sib if (isinstance(files.get(sib), bytes) or resolves(files, sib) is not None) else n
        if is_link(files, p):
            out.append((n, None, "drop", "%s is a symbolic link" % p))
        else:
            paths.append((n, p))
    if not o.get("style") and not (o.get("force") or o.get("fallback") or o.get("skip")):
        for _, p in paths:
            if kind_of_path(p) is None:
                return ("usage", "%s is not recognised and no option says what to do" % p)
    for _, p in paths:
        st = eff_style(case, p)
        if st is not None:
            if o.get("single") and not st[0]:
                return ("usage", "%s does not support single-line comments" % p)
            if o.get("multi") and not st[1]:
                return ("usage", "%s does not support multi-line comments" % p)
    if o.get("tmpl") and o["tmpl"] not in G.TEMPLATES:
        return ("usage", "template not found")
    for n, p in paths:
        body = files[p]
        st0 = kind_of_path(p)
        t = p
        if body in BINARY_CONTENTS or (st0 is not None and st0[2]) or o.get("force"):
            t = p if p.endswith(".license") else p + ".license"
            if is_link(files, t):
                out.append((n, t, "fail", "a symbolic link is in the way at %s" % t))
                continue
        if eff_style(case, t) is None:
            if o.get("skip"):
                out.append((n, t, "skip", "unrecognised"))
                continue
            if o.get("fallback"):
                t = t + ".license"
                if is_link(files, t):
                    out.append((n, t, "fail", "a symbolic link is in the way at %s" % t))
                    continue
        if o.get("skip_existing") and planted_at(case, t) is not None:
            body_t = files.get(t, b"")
            if b"\r" in body_t and b"\r\n" not in body_t:
                # lone CR line ends: `contains_reuse_info` is asked before the line ends are folded and reads the whole file as
                # one line (lint folds them first), so whether the file counts as "existing" depends on what follows the header;
                # the property texts say nothing about --skip-existing: no claim is made about this file
                out.append((n, t, "any", "already has REUSE information, CR line ends"))
                continue
            out.append((n, t, "skip", "already has REUSE information"))
            continue
        why = header_fails(case, files, t)
        out.append((n, t, "fail" if why else "ok", why))
    return out


# ---------------------------------------------------------------------------
# disk and serialisation

def write_project(root, files):
    for rel, content in files.items():
        p = os.path.join(root, rel)
        os.makedirs(os.path.dirname(p) or root, exist_ok=True)
        if isinstance(content, tuple):
            os.symlink(content[1], p)
        else:
            with open(p, "wb") as fp:
                fp.write(content)
    for dp, dn, fn in os.walk(root):
        for f in fn + dn:
            os.utime(os.path.join(dp, f), ns=(10**18, 10**18), follow_symlinks=False)


def meta_snapshot(root):
    snap = {}
    for dp, dn, fn in os.walk(root):
        for name in dn + fn:
            p = os.path.join(dp, name)
            rel = os.path.relpath(p, root)
            st = os.lstat(p)
            if stat.S_ISLNK(st.st_mode):
                snap[rel] = ("link", os.readlink(p), 0, 0)
            elif stat.S_ISDIR(st.st_mode):
                snap[rel] = ("dir", "", stat.S_IMODE(st.st_mode), 0)
            else:
                with open(p, "rb") as fp:
                    snap[rel] = ("file", fp.read(), stat.S_IMODE(st.st_mode), st.st_mtime_ns)
    return snap


def change_list(s0, s1):
    out = []
    for k in sorted(set(s0) | set(s1)):
        a, b = s0.get(k), s1.get(k)
        if a is not None and b is not None and a[:2] == b[:2]:
            continue
        if a is None and b[0] == "file":
            out.append("+%s=%s" % (k, b[1].hex()))
        elif b is None:
            out.append("-%s" % k)
        elif a is not None and a[0] == "file" and b[0] == "file":
            out.append("~%s=%s" % (k, b[1].hex()))
        else:
            out.append("!%s" % k)
    return out


def tokens_of(files):
    """nested tree tokens for the driver"""
    root = {}
    for path, content in files.items():
        parts = path.split("/")
        d = root
        for comp in parts[:-1]:
            d = d.setdefault(comp, {})
        d[parts[-1]] = content
    out = []

    def emit(d):
        for name in sorted(d):
            v = d[name]
            if isinstance(v, dict):
                out.append("D:" + enc(name))
                emit(v)
                out.append("E")
            elif isinstance(v, tuple):
                out.append("L:%s:%s" % (enc(name), enc(v[1])))
            else:
                try:
                    out.append("F:%s:%s" % (enc(name), enc(v.decode("utf-8"))))
                except UnicodeDecodeError:
                    out.append("R:" + enc(name))
    emit(root)
    return " ".join(out)


_EXPR = {}


def expr_row(text):
    """license-expression, asked what the code asks it: does it parse, and how is it printed"""
    if text not in _EXPR:
        from reuse import _LICENSING
        try:
            _EXPR[text] = (True, str(_LICENSING.parse(text)))
        except Exception:
            _EXPR[text] = (False, text)
    return _EXPR[text]


def expr_table(texts):
    rows = {}
    todo = list(texts)
    while todo:
        t = todo.pop()
        if t in rows:
            continue
        rows[t] = expr_row(t)
        if rows[t][0] and rows[t][1] not in rows:
            todo.append(rows[t][1])
    return " ".join("%s/%s/%s" % (enc(t), "1" if ok else "0", enc(n)) for t, (ok, n) in sorted(rows.items()))


def render_real(template_text, cpr, con, lic):
    from jinja2 import Environment
    return Environment(trim_blocks=True).from_string(template_text).render(copyright_lines=cpr, contributor_lines=con, spdx_expressions=lic)


class AnnotateE2EStream(Stream):
    name = "annotate-e2e"
    rule = ("generated trees (1-5 files of 28 kinds: single- and multi-line comment styles, a style chosen by file name, unrecognised, "
            "uncommentable, binary, not UTF-8, commentable by name but binary to binaryornot although valid UTF-8 (raw control characters, "
            "NUL padding), text under a name binaryornot lists as binary; bodies with shebang / own header in single- or multi-line form / CRLF / CR / byte order mark / no "
            "final newline; .license sibling absent / empty / with information / dangling link / live link; symbolic links to files; "
            "bystanders) x generated command lines over the whole option space (several paths, directories with and without --recursive, "
            "the three .license options, --skip-existing, --style, --single-line / --multi-line, --merge-copyrights, --no-replace, 10 "
            "prefixes, --year x0..3 / --exclude-year, 8 custom templates looked up by three name forms and rendered by real Jinja, holders "
            "containing a style's terminator, unparseable --license, every mutex pair, missing path / template).  impl = real `reuse "
            "annotate` (click CLI) on disk: exit status + created / removed / changed paths + bytes of every changed file; model = the "
            "composed Lean model (driver op ae2e; binaryornot, license-expression, Jinja and the clock answered by the harness with the real "
            "libraries).  oracle = generator ground truth read through the documentation (usage errors touch nothing and exit 2; a failed or "
            "skipped file and its sibling are untouched, the others receive the header in the documented place, in the documented comment "
            "form, exit status 1 iff some file failed) + real `reuse lint --json` on the result (exactly requested + previously declared "
            "information is read back under the file's own name).  non-trivial = distinct (statuses, .license option, template, style, line mode)")

    def __init__(self):
        self.side = {}

    # -- generation ---------------------------------------------------------
    def _file(self, rng, kinds):
        k = rng.choice(kinds)
        f = {"kind": k, "dir": rng.choice(DIRS)}
        if k in TEXT_KINDS:
            parts = []
            if rng.random() < 0.25:
                parts.append("shebang")
            r = rng.random()
            if r < 0.3:
                parts.append(rng.choice(["own", "own", "own2", "own+ownmulti"]))
            r = rng.random()
            if r < 0.12:
                parts.append("crlf")
            elif r < 0.18:
                parts.append("cr")
            if rng.random() < 0.06:
                parts.append("bom")
            if rng.random() < 0.1:
                parts.append("nonl")
            f["body"] = "+".join(parts) or "plain"
        r = rng.random()
        if r < 0.10:
            f["sib"] = "e"
        elif r < 0.22:
            f["sib"] = "i"
        elif r < 0.27:
            f["sib"] = "dl"
        elif r < 0.30:
            f["sib"] = "ll"
        return f

    def _request(self, rng, o, both=False):
        pool = HOLDERS + (NOTICE_HOLDERS if rng.random() < 0.15 else [])
        o["cpr"] = rng.sample(pool, rng.choice([1, 1, 1, 2, 3] if both else [0, 1, 1, 1, 2, 3]))
        o["lic"] = rng.sample(LICENSES, rng.choice([1, 1, 2] if both else [0, 1, 1, 1, 2]))
        o["con"] = rng.sample(CONTRIBUTORS, rng.choice([0, 0, 0, 1, 2]))
        if not o["cpr"] and not o["lic"] and not o["con"]:
            o["cpr"] = [HOLDERS[0]]

    def _opts(self, rng):
        o = {"prefix": rng.choice([None] * 4 + G.PREFIXES[1:]),
             "years": rng.choice([[]] * 4 + [["2019"], ["2015", "2021"], ["2021", "1999", "2005"]])}
        if rng.random() < 0.15:
            o["years"], o["exclude"] = [], True
        r = rng.random()
        if r < 0.35:
            o["tmpl"] = rng.choice(TEMPLATE_NAMES)
            fn = G.TEMPLATES[o["tmpl"]][0]
            o["tmpl_arg"] = rng.choice([fn.split(".")[0], fn.split(".")[0], fn, fn[:-len(".jinja2")]])
        self._request(rng, o, both=o.get("tmpl") in DROPPING)
        r = rng.random()
        if r < 0.15:
            o["multi"] = True
        elif r < 0.25:
            o["single"] = True
        d = rng.choice([None, None, None, "force", "fallback", "skip"])
        if d:
            o[d] = True
        if rng.random() < 0.2:
            o["style"] = rng.choice(list(FORCED))
        for flag, p in (("no_replace", 0.15), ("merge", 0.15), ("skip_existing", 0.2)):
            if rng.random() < p:
                o[flag] = True
        return o

    def _repair(self, rng, case):
        """most generated command lines should be well-formed for the generated files: drop what makes them a usage error"""
        o = case["opts"]
        if o.get("style"):
            o.pop("skip", None)
        for _ in range(4):
            pl = plan(case)
            if not (isinstance(pl, tuple) and pl[0] == "usage"):
                return
            why = pl[1]
            if "not recognised" in why:
                o[rng.choice(["force", "fallback", "skip"]) if not o.get("style") else "force"] = True
                if o.get("style"):
                    o.pop("skip", None)
            elif "single-line" in why:
                o.pop("single", None)
            elif "multi-line" in why:
                o.pop("multi", None)
            else:
                return

    def _finish(self, rng, case, reason):
        files = case["files"]
        named = [fname(i, f) for i, f in enumerate(files)]
        rng.shuffle(named)
        case.setdefault("named", named)
        case["reason"] = reason
        return case

    def cases(self, tier, rng):
        thorough = tier == "thorough"
        all_kinds = list(KINDS)
        # 1. random mixtures over the whole option space (repaired to be well-formed most of the time)
        for _ in range(2600 if thorough else 150):
            n = rng.randint(1, 5)
            files = [self._file(rng, all_kinds) for _ in range(n)]
            # now and then a symbolic link to one of the files, or a dangling one, named on the command line
            if rng.random() < 0.12 and files[0]["kind"] != "mk":
                files.append({"kind": files[0]["kind"], "dir": files[0]["dir"], "link": rng.choice([0, 0, -1])})
            case = {"files": files, "opts": self._opts(rng)}
            if files[-1].get("link") == 0 and rng.random() < 0.5:
                # the link is named, the file it points to is not: nothing may happen to that file
                case["named"] = [fname(i, f) for i, f in enumerate(files) if i != 0]
                rng.shuffle(case["named"])
            if rng.random() < 0.85:
                self._finish(rng, case, "random")
                self._repair(rng, case)
            else:
                self._finish(rng, case, "random-raw")
            yield case
        # 2. a chosen subset fails: terminator inside the holder / information-dropping template / not UTF-8 / link in the way
        for _ in range(700 if thorough else 50):
            n = rng.randint(1, 5)
            reason = rng.choice(["terminator", "terminator", "template", "not-utf8", "link"])
            o = {"prefix": rng.choice([None, None] + G.PREFIXES[1:]), "years": rng.choice([[], [], ["2020"]])}
            files = []
            if reason == "terminator":
                end = rng.choice(["*/", "-->", "*)", "=#", "#}"])
                multi = rng.random() < 0.5
                if multi:
                    o["multi"] = True
                pool = [k for k in COMMENTABLE if KINDS[k][2]] if multi else COMMENTABLE + ["csv", "png"]
                files = [self._file(rng, pool) for _ in range(n)]
                self._request(rng, o, both=True)
                o["cpr"] = ["Jane %s Doe" % end] + o["cpr"][1:]
            elif reason == "template":
                o["tmpl"] = rng.choice(DROPPING)
                files = [self._file(rng, COMMENTABLE + ["csv", "png", "zzz", "foo"]) for _ in range(n)]
                self._request(rng, o, both=True)
                o["skip_existing"] = rng.random() < 0.5
            elif reason == "not-utf8":
                files = [self._file(rng, COMMENTABLE + ["csv"]) for _ in range(n)]
                files[rng.randrange(n)] = {"kind": "lat", "dir": rng.choice(DIRS), "sib": rng.choice([None, None, "e", "i"])}
                self._request(rng, o)
                o["skip_existing"] = rng.random() < 0.3
            else:
                files = [self._file(rng, COMMENTABLE + ["csv", "png", "zzz", "foo"]) for _ in range(n)]
                files[rng.randrange(n)]["sib"] = "dl"
                self._request(rng, o)
            d = rng.choice([None, None, "force", "fallback", "skip"])
            if d:
                o[d] = True
            case = self._finish(rng, {"files": files, "opts": o}, reason)
            self._repair(rng, case)
            yield case
        # 3. --recursive over directories (bystanders included), directories without --recursive
        for _ in range(300 if thorough else 25):
            n = rng.randint(1, 5)
            files = [self._file(rng, COMMENTABLE + ["csv", "png", "lat"]) for _ in range(n)]
            o = self._opts(rng)
            o.pop("single", None)
            o.pop("multi", None)
            o["recursive"] = rng.random() < 0.85
            case = self._finish(rng, {"files": files, "opts": o}, "recursive")
            named = case["named"]
            case["named"] = rng.choice([["."], ["src"], ["src/deep"] + [x for x in named if not x.startswith("src/deep/")],
                                        ["src"] + [x for x in named if not x.startswith("src/")]])
            self._repair(rng, case)
            yield case
        # 3a. line mode: --multi-line / --single-line where the (detected or forced) style offers both forms, and where it offers one
        both = ["cpp", "rs", "jl"]
        for _ in range(300 if thorough else 30):
            n = rng.randint(1, 4)
            o = self._opts(rng)
            for k in ("single", "multi", "style", "tmpl", "tmpl_arg", "skip"):
                o.pop(k, None)
            self._request(rng, o)
            r = rng.random()
            if r < 0.5:
                files = [self._file(rng, both + (["c", "html", "ml", "j2"] if rng.random() < 0.3 else [])) for _ in range(n)]
                o["multi"] = True
            elif r < 0.7:
                files = [self._file(rng, both + (["py", "tex", "hs"] if rng.random() < 0.3 else [])) for _ in range(n)]
                o["single"] = True
            else:
                files = [self._file(rng, COMMENTABLE + ["foo", "csv", "png"]) for _ in range(n)]
                o["style"] = rng.choice(["cpp", "julia"])
                o[rng.choice(["multi", "multi", "single"])] = True
            case = self._finish(rng, {"files": files, "opts": o}, "line-mode")
            if rng.random() < 0.8:
                self._repair(rng, case)
            yield case
        # 4. usage errors, each kind at every position of a three-file invocation
        usage = ["mutex-line", "mutex-year", "mutex-force-fallback", "mutex-force-skip", "mutex-fallback-skip", "mutex-style-skip", "noinfo", "nopath",
                 "dangling-named", "single-unsupported", "multi-unsupported", "template-missing", "sibling-line-mode", "unrecognised", "bad-licence"]
        for u in usage:
            for pos in range(3 if thorough else 1):
                files = [{"kind": rng.choice(["cpp", "jl", "rs"]), "dir": rng.choice(DIRS), "body": "plain"} for _ in range(3)]
                o = {"cpr": ["Jane Doe"], "lic": ["MIT"], "con": []}
                if u == "mutex-line":
                    o.update(multi=True, single=True)
                elif u == "mutex-year":
                    o.update(years=["2020"], exclude=True)
                elif u.startswith("mutex-") and u != "mutex-style-skip":
                    for k in u.split("-")[1:]:
                        o[k] = True
                elif u == "mutex-style-skip":
                    o.update(style="python", skip=True)
                elif u == "noinfo":
                    o.update(cpr=[], lic=[])
                elif u == "single-unsupported":
                    o["single"] = True
                    files[pos] = {"kind": rng.choice(["c", "html", "csv"]), "dir": "", "body": "plain"}
                elif u == "multi-unsupported":
                    o["multi"] = True
                    files[pos] = {"kind": rng.choice(["py", "png"]), "dir": ""}
                elif u == "template-missing":
                    o["tmpl"] = "missing"
                elif u == "sibling-line-mode":
                    o["multi"] = True
                    files[pos]["sib"] = "e"
                elif u == "unrecognised":
                    files[pos] = {"kind": rng.choice(["foo", "txt"]), "dir": "", "body": "plain"}
                elif u == "bad-licence":
                    o["lic"] = ["MIT", "((( not an expression"]
                elif u == "dangling-named":
                    files.insert(pos, {"kind": "py", "dir": "", "link": -1})
                case = self._finish(rng, {"files": files, "opts": o}, "usage:" + u)
                if u == "nopath":
                    case["named"].insert(pos, "src/nosuch.py")
                yield case

    # -- implementation -----------------------------------------------------
    def impl(self, case):
        files = tree_of(case)
        from binaryornot.check import is_binary
        with cli.scratch("rv-ae2e-") as root:
            write_project(root, files)
            binary = sorted(n for n, c in files.items() if isinstance(c, bytes) and is_binary(os.path.join(root, n)))
            s0 = meta_snapshot(root)
            code, out, exc = cli.run_cli(argv_of(case), root)
            s1 = meta_snapshot(root)
            reading = None
            pl = plan(case)
            if exc is None and isinstance(pl, list) and any(s == "ok" for _, _, s, _ in pl):
                reading = G.lint_reading(root, [n for n, _, s, _ in pl if s == "ok"])
        self.side[json.dumps(case, sort_keys=True)] = (s0, s1, reading, binary)
        if exc is not None:
            return "EXC:%s:%s" % (type(exc).__name__, str(exc)[:100])
        return "%d|%s" % (code, " ".join(change_list(s0, s1)))

    # -- model ----------------------------------------------------------------
    def _line(self, case, exprs, renders):
        o = case["opts"]
        files = tree_of(case)
        key = json.dumps(case, sort_keys=True)
        if key in self.side:
            binary = self.side[key][3]
        else:
            binary = [n for n, c in files.items() if c in BINARY_CONTENTS]
        flags = "".join("1" if o.get(k) else "0" for k in ("exclude", "merge", "single", "multi", "recursive", "no_replace", "force", "fallback",
                                                           "skip", "skip_existing"))
        tmpl = "=" + enc(o.get("tmpl_arg") or o["tmpl"]) if o.get("tmpl") else "-"
        rtab = " ".join("%s/%s/%s/%s/%s" % (enc(p), enc_list(c), enc_list(n), enc_list(l), enc(t)) for (p, c, n, l), t in sorted(renders.items()))
        return "\t".join(["ae2e", flags, o.get("style") or "-", o.get("prefix") or "-", tmpl, enc_list(o.get("years", [])), enc_list(o.get("cpr", [])),
                          enc_list(o.get("lic", [])), enc_list(o.get("con", [])), enc_list(case["named"]), enc(YEAR), tokens_of(files),
                          enc_list(binary), expr_table(exprs), rtab])

    def _seed_exprs(self, case):
        return set(case["opts"].get("lic", [])) | {"ISC", "Zlib", "MIT"}

    def model_lines(self, case):
        return [self._line(case, self._seed_exprs(case), {})]

    def model_out(self, case, outs):
        out = outs[0]
        exprs = self._seed_exprs(case)
        renders = {}
        files = tree_of(case)
        for _ in range(8):
            if not out.startswith("need|"):
                break
            _, e, r = out.split("|")
            exprs |= set(dec_list(e[2:]))
            for item in (r[2:].split(" ") if r[2:] else []):
                p, c, n, l = item.split("/")
                key = (dec(p), tuple(dec_list(c)), tuple(dec_list(n)), tuple(dec_list(l)))
                renders[key] = render_real(files[key[0]].decode("utf-8"), list(key[1]), list(key[2]), list(key[3]))
            out = run_driver([self._line(case, exprs, renders)])[0]
        if not out.startswith("ok|"):
            return "MODEL:" + out[:200]
        _, code, ch, pl, hyp = out.split("|")
        items = []
        for x in ch.split(" "):
            if not x:
                continue
            p, _, t = x[1:].partition("=")
            items.append((dec(p), x[0], dec(t).encode("utf-8").hex() if x[0] in "+~" else None))
        items.sort()
        self.side.setdefault("plan:" + json.dumps(case, sort_keys=True), (pl, hyp))
        return "%s|%s" % (code, " ".join(k + p + ("=" + h if h is not None else "") for p, k, h in items))

    def agree(self, case, impl_out, model_out):
        if impl_out != model_out:
            return False
        key = json.dumps(case, sort_keys=True)
        pl_hyp = self.side.get("plan:" + key)
        if pl_hyp is None or key not in self.side:
            return True
        mplan, hyp = pl_hyp
        truth = plan(case)
        if mplan == "usage":
            return isinstance(truth, tuple)
        if isinstance(truth, tuple):
            return False
        steps = []
        for item in (mplan.split(" ") if mplan else []):
            pp, _, rest = item.partition(">")
            t, _, st = rest.partition(":")
            steps.append((dec(pp), dec(t) if t else None, st))
        # (1) the model's reading of the invocation against the generator's ground truth: which paths are written, how many fail / are skipped
        want_w = sorted(t for _, t, s, _ in truth if s == "ok")
        anys = {t for _, t, s, _ in truth if s == "any"}
        got_w = sorted(t for _, t, st in steps if st == "W" and t not in anys)
        if got_w != want_w:
            return False
        nf, tf = sum(1 for _, _, st in steps if st == "F"), sum(1 for _, _, s, _ in truth if s == "fail")
        if not (tf <= nf <= tf + len(anys)):
            return False
        # (2) theorem-hypothesis tie: where the hypotheses of C11_e2e_failed_unchanged / C11_e2e_each_alone / C11_e2e_exit hold
        #     (Separate, WfPath, no link at a written position) the implementation must show their conclusions
        if hyp[:3] != "111":
            return True
        s0, s1, _reading, _binary = self.side[key]
        code = int(impl_out.split("|")[0])
        if code != (1 if any(st == "F" for _, _, st in steps) else 0):
            return False
        for pp, t, st in steps:
            if st == "F":
                for x in (pp, pp + ".license"):
                    if (s0.get(x) or ())[:2] != (s1.get(x) or ())[:2]:
                        return False
            elif st == "W":
                new = s1.get(t)
                if new is None or new[0] != "file":
                    return False
        return True

    # -- oracle -----------------------------------------------------------------
    def oracle(self, case, impl_out):
        if impl_out.startswith("EXC"):
            return "traceback: " + impl_out
        s0, s1, reading, _binary = self.side[json.dumps(case, sort_keys=True)]
        code = int(impl_out.split("|")[0])
        pl = plan(case)
        o = case["opts"]
        diff = {k for k in set(s0) | set(s1) if s0.get(k) != s1.get(k)}
        if isinstance(pl, tuple):
            if code != 2:
                return "usage-exit: a usage error is expected (%s), exit status is %d" % (pl[1], code)
            if diff:
                return "usage-touched: exit status 2 but the tree changed: %s" % sorted(diff)
            return None
        if code == 2:
            return "unexpected-usage-error: exit status 2 for a well-formed invocation"
        accounted = set()
        want = wanted(case)
        tmpl = o.get("tmpl") or "default"
        failed = [n for n, _, s, _ in pl if s == "fail"]
        for n, t, status, why in pl:
            pair = {n, n + ".license"} | ({t} if t else set())
            accounted |= pair
            if status == "any":
                continue
            if status in ("fail", "skip", "drop"):
                for p in sorted(pair):
                    same = s0.get(p) == s1.get(p) if status == "fail" else (s0.get(p) or ())[:2] == (s1.get(p) or ())[:2]
                    if not same:
                        what = "created" if p not in s0 else "removed" if p not in s1 else \
                            "rewritten" if s0[p][:2] != s1[p][:2] else "touched (mode/mtime)"
                        return "%s-not-unchanged: %s is %s (%s), yet %s was %s" % (
                            {"fail": "failed", "skip": "skipped", "drop": "dropped"}[status], n,
                            {"fail": "to fail", "skip": "to be skipped", "drop": "not to be processed"}[status], why, p, what)
                continue
            new = s1.get(t)
            if new is None or new[0] != "file" or new[:2] == (s0.get(t) or ())[:2]:
                return "not-processed: %s should have received the header in %s (files of the invocation that fail: %s)" % (n, t, failed)
            for p in pair - {t}:
                if s0.get(p) != s1.get(p):
                    return "wrong-file-written: the header of %s belongs in %s but %s changed" % (n, t, p)
            try:
                text = new[1].decode("utf-8")
            except UnicodeDecodeError:
                return "not-text: %s is not UTF-8 text after the run" % t
            # the comment form of the header: that of the file that holds it
            probe = sorted(want[0])[0] if want[0] else "SPDX-License-Identifier: " + sorted(want[1])[0] if want[1] else None
            if probe is not None and tmpl != "commented":
                st = eff_style(case, t)
                lead = ""
                if st is not None and (st[0] or st[1]):
                    lead = st[1][1] if uses_multi(case, st) else st[0] + " "
                lines = [l for l in text.replace("\r\n", "\n").replace("\r", "\n").split("\n") if probe in l]
                if not lines:
                    return "header-form: %r is not in %s" % (probe, t)
                if not any(l.lstrip("\ufeff").startswith(lead + probe) for l in lines):
                    return "header-form: in %s the header line should read %r, found %r" % (t, lead + probe, lines[0])
            if tmpl in MARKER and MARKER[tmpl] not in text:
                return "template-not-used: %s was written without the text of template %s" % (t, tmpl)
            # what lint reads for the file under its own name
            rec = (reading or {}).get(n)
            if rec is None:
                return "harness: no lint reading for %s" % n
            prev = planted_at(case, t) or ([], [], [])
            renders_con = tmpl in G.RENDERS_CONTRIBUTORS
            exp = (set(prev[0]) | want[0], {G.norm_lic(x) for x in prev[1]} | want[1], (set(prev[2]) | want[2]) if renders_con else set())
            got = (set(rec["cpr"]), {G.norm_lic(x) for x in rec["lic"]}, set(rec["con"]))
            m = G.missing(exp, got, bool(o.get("merge")))
            if m:
                return "readback-%s: exit status %d, %s written, but lint does not read %r for %s (reads %r)" % (
                    sorted(m)[0], code, t, m, n, {"cpr": sorted(got[0]), "lic": sorted(got[1]), "con": sorted(got[2])})
            if not got[0] <= exp[0]:
                return "invented-copyright: lint reads %r for %s, neither requested nor declared before" % (sorted(got[0] - exp[0]), n)
            if not got[1] <= exp[1]:
                return "invented-licence: lint reads %r for %s, neither requested nor declared before" % (sorted(got[1] - exp[1]), n)
        stray = diff - accounted
        if stray:
            return "stray-change: paths outside the files of the invocation and their siblings changed: %s" % sorted(stray)
        want_code = 1 if failed else 0
        if code != want_code and not (code == 1 and any(s == "any" for _, _, s, _ in pl)):
            return "exit-status: %d, expected %d (failing files: %s)" % (code, want_code, failed)
        return None

    def classify(self, case, failure):
        return None

    def nontrivial(self, case, impl_out):
        pl = plan(case)
        o = case["opts"]
        if isinstance(pl, tuple):
            return ("usage", pl[1].split(":")[0][:40])
        st = "".join(sorted({"ok": "o", "fail": "F", "skip": "s", "drop": "d", "any": "a"}[s] for _, _, s, _ in pl))
        dot = [k for k in ("force", "fallback", "skip") if o.get(k)]
        return (st, tuple(dot), o.get("tmpl"), o.get("style"), bool(o.get("multi")), bool(o.get("single")), bool(o.get("recursive")),
                bool(o.get("skip_existing")), bool(o.get("no_replace")), bool(o.get("merge")))

    def show(self, case):
        files = {}
        for k, v in tree_of(case).items():
            files[k] = "-> " + v[1] if isinstance(v, tuple) else (v.decode("utf-8") if v not in (BINARY, LATIN1) else "<%d bytes, not text>" % len(v))
        pl = plan(case)
        return {"argv": argv_of(case), "files": files, "expected": pl if isinstance(pl, tuple) else [list(x) for x in pl]}
