"""C02 — licence, copyright and contributor tags are read exactly, in any comment syntax.

Streams
  findtag / csearch / extract   the regex mirrors of the model against CPython's re (textcorr)
  grid        planted-value grid: every style of the live style table x comment form x decoration x value x line ending,
              written to a real file and read with reuse_info_of_file (LF cases also through extract_reuse_info);
              oracle = the planted value (generator ground truth)
  theorem     theorem-hypothesis tie: the driver evaluates the hypotheses of C02_tag_value_exact / C02_frame /
              C02_copyright_exact_partial on the physical line of every grid case; where they hold the implementation must
              return exactly the planted value
  textlines   theorem-hypothesis tie for C02_tag_lines / C02_tag_lines_general: texts of several tag lines
  infolines   theorem-hypothesis tie for C02_extract_exact / C02_file_exact: texts of licence, contributor, notice and information-free
              lines in any order; where the line-by-line hypotheses hold the result must be exactly what is planted
  blocklines  the same with ignore blocks hiding further lines (C02_extract_exact_with_blocks / C02_file_exact_with_blocks)
  lint        a sample of grid files through `reuse lint --json`
  window      tag lines around the 4096-byte boundary, multi-byte characters on the cut, snippet marker before / after / absent
  snippetfile files with a snippet marker: the marker straddling 4096*k and every buffer-size-like offset from 4 KiB to 1 MiB (powers of two,
              odd multiples, decimal sizes), 8-20 KiB files with tags / ignore blocks on the boundaries
  notations   lines holding two copyright notations, the lower-ranking one (word, sign) to the left of the notice proper
  parseerror  an unparseable expression anywhere in the file => the file contributes nothing; the converse shape
  decode      decoded_text_from_binary against the model's UTF-8 decoder on random byte strings
  smallenum   exhaustive small-alphabet lines `<pre> TAG <value> <trail>`
"""
import itertools
import logging
import os
import re

from core import Property, Stream, enc, dec, enc_list, dec_list
import textcorr

logging.getLogger("reuse").setLevel(logging.CRITICAL)      # the tool logs every unparseable expression

LIC_TAG = "SPDX-License-Identifier:"
CON_TAG = "SPDX-FileContributor:"
SNIPPET = "SPDX-SnippetBegin"

SPLITLINES_BREAKS = "\n\r\x0b\x0c\x1c\x1d\x1e\x85  "


# --------------------------------------------------------------------------
# the live tables


def style_classes():
    from reuse.comment import _all_style_classes
    return sorted(_all_style_classes(), key=lambda c: c.__name__)


def style_forms():
    """(style name, form, fields) for every style of the live table; a style without any marker gives the form `bare`."""
    out = []
    seen_bare = False
    for c in style_classes():
        ml = c.MULTI_LINE
        f = {"single": c.SINGLE_LINE, "ias": c.INDENT_AFTER_SINGLE, "start": ml.start, "middle": ml.middle, "end": ml.end,
             "ibm": c.INDENT_BEFORE_MIDDLE, "iam": c.INDENT_AFTER_MIDDLE, "ibe": c.INDENT_BEFORE_END}
        any_form = False
        if c.SINGLE_LINE:
            out.append((c.__name__, "single", f))
            any_form = True
        if ml.start and ml.end:
            out.append((c.__name__, "inline", f))
            out.append((c.__name__, "block", f))
            any_form = True
        if not any_form and not seen_bare:
            out.append((c.__name__, "bare", f))
            seen_bare = True
    return out


def all_terminators():
    return sorted({c.MULTI_LINE.end for c in style_classes() if c.MULTI_LINE.end})


def end_regex():
    from reuse import extract
    return extract._END_PATTERN[:-1]          # without the final `$`


def has_end_suffix(v):
    """some non-empty suffix of v consists of blanks / comment terminators (what END would swallow)"""
    pat = re.compile(r"(?:%s)\Z" % end_regex())
    return any(pat.match(v, k) for k in range(len(v)))


def parse_expr(s):
    """str of the parsed expression, or None when the library rejects it"""
    from reuse import _LICENSING
    from boolean.boolean import ParseError
    from license_expression import ExpressionError
    try:
        return str(_LICENSING.parse(s))
    except (ExpressionError, ParseError):
        return None


# --------------------------------------------------------------------------
# decorations and values

TERM_TRAILS = [" */", "*/", " -->", "-->", " */-->", " */ -->", "\">", "\" />", "'>", "' >", "]::", "] ::", " #}", " *)", " --}}", " =#",
               " :)", " }", " '/", " --%>", " *#", " */ --> ", "\t*/\t"]

DECORATIONS = (
    [{"id": "plain"}]
    + [{"id": "lead%d" % i, "lead": l} for i, l in enumerate(["  ", "\t", "    ", " \t"])]
    + [{"id": "sep%d" % i, "sep": s} for i, s in enumerate(["\t", "  ", " \t ", "\t\t"])]
    + [{"id": "tb%d" % i, "trail": t} for i, t in enumerate([" ", "\t", "  \t "])]
    + [{"id": "term%d" % i, "trail": t} for i, t in enumerate(TERM_TRAILS)]
    + [{"id": "frame%d" % i, "frame": p, "ws": ws, "trail": tr} for i, (p, ws, tr) in enumerate([
        ("", "  ", ""), ("", " ", " "), ("|*", "  ", ""), ("*", " ", ""), ("**", "\t", ""), ("|", "   ", ""), ("#", " ", "\t"),
        ("|*", " ", " */")])]
    + [{"id": "framelead0", "frame": "", "ws": " ", "lead": "\t"}, {"id": "framelead1", "frame": "|*", "ws": "\t", "lead": " \t", "trail": " "},
       {"id": "framelead2", "frame": "*", "ws": "  ", "lead": "    ", "sep": "\t"}]
)


def deco_by_id(i):
    for d in DECORATIONS:
        if d["id"] == i:
            return d
    raise KeyError(i)


def spdx_ids():
    from reuse._licenses import LICENSE_MAP, EXCEPTION_MAP
    return sorted(LICENSE_MAP), sorted(EXCEPTION_MAP)


def expressions(rng, n):
    lic, exc = spdx_ids()
    out = ["MIT", "GPL-3.0-or-later", "Apache-2.0 WITH LLVM-exception", "MIT OR Apache-2.0", "(MIT AND BSD-3-Clause) OR GPL-2.0+",
           "LicenseRef-my-own.licence-1", "GPL-2.0+", "CC-BY-SA-4.0 AND (MIT OR 0BSD)"]
    while len(out) < n:
        r = rng.random()
        a, b, c = rng.choice(lic), rng.choice(lic), rng.choice(lic)
        if r < 0.3:
            out.append(a)
        elif r < 0.4:
            out.append(a + "+")
        elif r < 0.55:
            out.append("%s OR %s" % (a, b))
        elif r < 0.7:
            out.append("%s AND %s" % (a, b))
        elif r < 0.8:
            out.append("%s WITH %s" % (a, rng.choice(exc)))
        elif r < 0.9:
            out.append("(%s AND %s) OR %s" % (a, b, c))
        else:
            out.append("LicenseRef-%s" % rng.choice(["x", "Foo-1.0", "a.b", "vendor-EULA"]))
    return out


HOLDERS = ["Jane Doe", "ACME Inc.", "Jane Doe <jane@example.com>", "Free Software Foundation Europe e.V. <https://fsfe.org>",
           "José Álvarez", "张三", "R&D, Ltd.", "O'Reilly & Sons", "Jane (maintainer)", "GmbH & Co. KG", "Doe, Jane", "J",
           "The FOO Project Developers", "Ünïcödé Ltd.", "Jane Doe and contributors <https://example.org/a?b=c#d>", "x/y", "Jane #1",
           "100% Code Ltd", "Jane \"JD\" Doe", "https://example.com/~jane", "jane@example.com", "Müller-Lüdenscheidt & Söhne"]
# holders at the edge of the value language: tails that look like a frame or a terminator
EDGE_HOLDERS = ["Eric", "Team C#", "Team #", "Foo {Bar}", "C*", "dnl", "Randl", "Hi!", "100%", "etc..", "Doe;", "a--", "x //", "Foo }",
                "Smile :)", "end */", "arrow -->", "Jane \"", "Jane '", "Foo *)", "X =#"]
YEARS = [None, "2020", "2019-2021", "2019 - 2021", "1999"]


def copyright_prefixes():
    """(key of the prefix table or None, prefix text)"""
    from reuse.copyright import _COPYRIGHT_PREFIXES
    return sorted(_COPYRIGHT_PREFIXES.items()) + [(None, "SPDX-SnippetCopyrightText:"), (None, "Copyright (c)"),
                                                  (None, "SPDX-FileCopyrightText: (c)"), (None, "SPDX-SnippetCopyrightText: ©")]


# --------------------------------------------------------------------------
# building a case


def build(style, form, f, deco, kind, value, eol="\n"):
    """The text of a small file holding one planted tag line, and the decomposition of that physical line:
    line = pre + tag + blanks + w + trail; w = v (+ ws + mirrored frame)."""
    lead = deco.get("lead", "")
    sep = deco.get("sep", " ")
    trail = deco.get("trail", "")
    before, after = [], []
    if form == "single":
        base = lead + f["single"] + f["ias"]
        close = ""
    elif form == "inline":
        base = lead + f["start"] + " "
        close = " " + f["end"]
    elif form == "block":
        before = [f["start"]]
        base = lead + f["ibm"] + f["middle"] + f["iam"]
        after = [f["ibe"] + f["end"]]
        close = ""
    else:
        base = lead
        close = ""
    frame = deco.get("frame")
    if frame is not None:
        pre = base + frame + (" " if frame else "")
    else:
        pre = base
    if kind == "L":
        tag, blanks, v = LIC_TAG, sep, value
    elif kind == "N":
        tag, blanks, v = CON_TAG, sep, value
    else:
        tag, blanks, v = "", "", value      # the notice itself starts with its prefix
    if frame is not None:
        mirror = pre.strip()[::-1]
        # a frame is the mirror image of the whole line prefix: not sensible inside an inline comment (the opener would be
        # mirrored), nor when the mirror image itself reads as a comment terminator
        if not mirror or form == "inline" or has_end_suffix(mirror):
            return None
        ws = deco["ws"]
        w = v + ws + mirror
    else:
        ws, w = "", v
    full_trail = trail + close
    line = pre + tag + blanks + w + full_trail
    lines = before + [line] + after
    text = eol.join(lines) + eol
    return {"text": text, "pre": pre, "tag": tag, "blanks": blanks, "w": w, "v": v, "ws": ws, "trail": full_trail, "line": line,
            "framed": frame is not None}


def boundary(case, b):
    """Is the planted value genuinely ambiguous *in its own line* (documented boundary of the property, not judged)?
    * it is not stripped / contains a line break / is empty;
    * it ends with the multi-line terminator of its own comment style (inline and block form);
    * it ends with the mirror image of its own line prefix set off by white space (or is that mirror image);
    * a contributor / licence value that itself contains a tag."""
    v = b["v"]
    if not v or v != v.strip() or any(c in v for c in SPLITLINES_BREAKS):
        return "not-stripped"
    f = case["f"]
    if case["form"] in ("inline", "block") and f["end"] and v.rstrip(" \t").endswith(f["end"]):
        return "own-terminator"
    m = b["pre"].strip()[::-1]
    if m and v.endswith(m) and (len(v) == len(m) or v[: -len(m)][-1].isspace()):
        return "own-frame"
    return None


# --------------------------------------------------------------------------
# implementation adapters


_SCRATCH = []


def scratch_dir():
    import atexit
    import shutil
    import cli
    d = os.path.join(cli.SCRATCH_BASE, "rv-c02-%d" % os.getpid())
    if not _SCRATCH:
        _SCRATCH.append(d)
        atexit.register(shutil.rmtree, d, True)
    os.makedirs(d, exist_ok=True)
    return d


def impl_info_of_bytes(data: bytes, name="f.txt"):
    """reuse_info_of_file on a real file holding `data` -> canonical string"""
    from reuse.extract import reuse_info_of_file
    d = scratch_dir()
    p = os.path.join(d, name)
    with open(p, "wb") as fp:
        fp.write(data)
    try:
        info = reuse_info_of_file(p, p, d)
    finally:
        os.unlink(p)
    return canon_info(info)


def canon(lic, cpr, con):
    return "L=%s|C=%s|N=%s" % (enc_list(sorted(lic)), enc_list(sorted(cpr)), enc_list(sorted(con)))


def canon_info(info):
    return canon({str(e) for e in info.spdx_expressions}, set(info.copyright_lines), set(info.contributor_lines))


def py_decode(data: bytes) -> str:
    """the harness's own statement of decoded_text_from_binary (for ground truth and for the `bad` list only)"""
    return data.decode("utf-8", errors="replace").replace("\r\n", "\n").replace("\r", "\n")


def bad_values(data: bytes):
    """raw licence values in the window or in the whole file that the expression library rejects: the model's `parses` oracle"""
    from reuse import extract
    bad = set()
    for chunk in (data, data[:4096], data[:4000], data[:8192]):
        t = extract.filter_ignore_block(py_decode(chunk))
        for raw in extract.find_spdx_tag(t, extract._LICENSE_IDENTIFIER_PATTERN):
            if parse_expr(raw) is None:
                bad.add(raw)
    return sorted(bad)


def model_info_out(out: str) -> str:
    """the model's raw licence values -> the library's spelling of the expression (as the implementation reports them)"""
    parts = dict(p.split("=", 1) for p in out.split("|"))
    lic = set()
    for raw in dec_list(parts["L"]):
        s = parse_expr(raw)
        lic.add(s if s is not None else "?unparseable:" + raw)
    return canon(lic, dec_list(parts["C"]), dec_list(parts["N"]))


def enc_bytes(data: bytes) -> str:
    return ",".join("%x" % b for b in data)


def expected_info(kind, v):
    if kind == "L":
        return canon({parse_expr(v)}, [], [])
    if kind == "C":
        return canon([], [v], [])
    return None     # a contributor alone: reuse_info_of_file reports nothing (no copyright or licensing)


# --------------------------------------------------------------------------
# grid


def grid_cases(tier, rng, per_combo):
    forms = style_forms()
    exprs = expressions(rng, 40)
    prefixes = copyright_prefixes()
    for (sname, form, f) in forms:
        for deco in DECORATIONS:
            for _ in range(per_combo):
                kind = rng.choice("LLCCN")
                if kind == "L":
                    value = rng.choice(exprs)
                elif kind == "N":
                    value = rng.choice(HOLDERS + EDGE_HOLDERS if rng.random() < 0.25 else HOLDERS)
                parts = None
                if kind == "C":
                    y = rng.choice(YEARS)
                    h = rng.choice(HOLDERS + EDGE_HOLDERS if rng.random() < 0.25 else HOLDERS)
                    pkey, ptext = rng.choice(prefixes)
                    value = "%s %s%s" % (ptext, (y + " ") if y else "", h)
                    parts = {"p": pkey, "ptext": ptext, "y": y, "h": h}
                eol = rng.choice(["\n", "\n", "\r\n", "\r"])
                yield {"style": sname, "form": form, "f": f, "deco": deco["id"], "kind": kind, "value": value, "eol": eol, "parts": parts}


def case_build(case):
    return build(case["style"], case["form"], case["f"], deco_by_id(case["deco"]), case["kind"], case["value"], case["eol"])


class GridStream(Stream):
    name = "grid"
    rule = ("planted-value grid: every (style, form) of the live style table (single-line, inline multi-line, block multi-line with middle "
            "marker; one bare form) x 46 decorations (indentation, tabs, several blanks, trailing blanks, 23 stacked foreign terminators, 11 "
            "ASCII-art frames with mirrored suffix, three of them indented with tabs) x values drawn from the grammars (SPDX expressions over the bundled id lists incl. "
            "WITH/AND/OR/+/LicenseRef, holders with e-mail/URL/punctuation/non-ASCII, 5 year forms, 13 copyright prefixes) x {LF, CRLF, "
            "CR}; each written to a real file and read with reuse_info_of_file (contributors together with a copyright line so that the file "
            "reports them); oracle: exactly the planted value; non-trivial = distinct (style, form, decoration, kind)")

    PER = {"quick": 5, "thorough": 40}

    def cases(self, tier, rng):
        yield from grid_cases(tier, rng, self.PER[tier])

    def data(self, case):
        b = case_build(case)
        if b is None:
            return None, None
        text = b["text"]
        if case["kind"] == "N":
            # a contributor alone is not reported by reuse_info_of_file: add a plain copyright line after the comment
            text += "Copyright 2001 Anchor Holder" + case["eol"]
        return b, text.encode("utf-8")

    def impl(self, case):
        b, data = self.data(case)
        if b is None:
            return "skip"
        out = impl_info_of_bytes(data)
        if case["eol"] == "\n":
            # the same through extract_reuse_info on the text
            from reuse import extract
            try:
                info = extract.extract_reuse_info(data.decode("utf-8"))
                t = canon_info(info)
                if not (info.spdx_expressions or info.copyright_lines):
                    t = canon([], [], [])
            except Exception:
                t = canon([], [], [])
            if t != out:
                return "TEXT-FILE-DIFFER:%s:%s" % (t, out)
        return out

    def model_lines(self, case):
        b, data = self.data(case)
        if b is None:
            return []
        return ["infofile\t%s\t%s" % (enc_bytes(data), enc_list(bad_values(data)))]

    def model_out(self, case, outs):
        return model_info_out(outs[0])

    def expected(self, case, b):
        v = b["v"]
        if case["kind"] == "L":
            return canon({parse_expr(v)}, [], [])
        if case["kind"] == "C":
            return canon([], [v], [])
        return canon([], ["Copyright 2001 Anchor Holder"], [v])

    def oracle(self, case, impl_out):
        if impl_out == "skip":
            return None
        b = case_build(case)
        if boundary(case, b):
            return None
        if impl_out.startswith(("EXC", "TEXT-FILE-DIFFER")):
            return "grid-crash: " + impl_out[:200]
        want = self.expected(case, b)
        if impl_out != want:
            return "planted-value: %s line %r read as %s, planted %s" % (
                {"L": "licence", "C": "copyright", "N": "contributor"}[case["kind"]], b["line"], show_canon(impl_out), show_canon(want))
        return None

    def classify(self, case, failure):
        return classify_case(case)

    def nontrivial(self, case, impl_out):
        if impl_out == "skip":
            return None
        return (case["style"], case["form"], case["deco"], case["kind"])

    def show(self, case):
        b = case_build(case)
        return {"style": case["style"], "form": case["form"], "deco": case["deco"], "kind": case["kind"], "value": case["value"],
                "eol": case["eol"], "text": None if b is None else b["text"]}


def show_canon(s):
    try:
        parts = dict(p.split("=", 1) for p in s.split("|"))
        return "L=%r C=%r N=%r" % (dec_list(parts["L"]), dec_list(parts["C"]), dec_list(parts["N"]))
    except Exception:
        return s


def classify_case(case):
    """key of the known-finding shape a failing grid case belongs to (None = not a known shape)"""
    b = case_build(case)
    if b is None:
        return None
    v = b["v"]
    if boundary(case, b):
        return None
    if has_end_suffix(v):
        # the value ends with a terminator of *another* comment syntax (END is one pattern for all styles)
        return "c02-foreign-terminator-tail"
    if case["kind"] == "C" and b["framed"]:
        # the mirrored-frame rule of find_spdx_tag is not applied to copyright notices
        return "c02-copyright-frame"
    return None


# --------------------------------------------------------------------------
# corpus: literal texts (repaired defects, examples of the property text)

CORPUS = [
    # fix 01f19b6: blanks between or after comment terminators
    {"text": "<!-- SPDX-FileCopyrightText: 2020 Jane --> ", "L": [], "C": ["SPDX-FileCopyrightText: 2020 Jane"], "N": []},
    {"text": "SPDX-License-Identifier: MIT */ -->", "L": ["MIT"], "C": [], "N": []},
    {"text": "<!-- SPDX-License-Identifier: MIT --> \n<!-- SPDX-FileCopyrightText: 2020 Jane -->\t\n", "L": ["MIT"],
     "C": ["SPDX-FileCopyrightText: 2020 Jane"], "N": []},
    # fix 2d939cf: stacked terminators
    {"text": "SPDX-License-Identifier: MIT */-->", "L": ["MIT"], "C": [], "N": []},
    # mirrored prefix only when set off by white space
    {"text": "c SPDX-FileContributor: Eric\nc Copyright 2020 Eric\n", "L": [], "C": ["Copyright 2020 Eric"], "N": ["Eric"]},
    {"text": "# SPDX-FileContributor: Team C#\n# SPDX-License-Identifier: MIT\n", "L": ["MIT"], "C": [], "N": ["Team C#"]},
    {"text": "/***********************\\\n|*  SPDX-License-Identifier: MIT  *|\n\\***********************/\n", "L": ["MIT"], "C": [], "N": []},
    # a tag without a value takes nothing from the following line; a tab separates as well as a blank
    {"text": "# SPDX-License-Identifier:\n# SPDX-FileCopyrightText: 2020 Jane\n", "L": [], "C": ["SPDX-FileCopyrightText: 2020 Jane"], "N": []},
    {"text": "# SPDX-FileContributor:\n# Copyright 2020 Jane\n", "L": [], "C": ["Copyright 2020 Jane"], "N": []},
    {"text": "# SPDX-License-Identifier:\tMIT\n#\tSPDX-FileContributor:\t\tJane Doe\t\n", "L": ["MIT"], "C": [], "N": ["Jane Doe"]},
    # lone carriage returns
    {"text": "# SPDX-License-Identifier: MIT\r# SPDX-FileCopyrightText: 2020 Jane\r# foo\r", "L": ["MIT"],
     "C": ["SPDX-FileCopyrightText: 2020 Jane"], "N": []},
    {"text": "# SPDX-License-Identifier: MIT\r\n# SPDX-FileCopyrightText: 2020 Jane\r\n", "L": ["MIT"],
     "C": ["SPDX-FileCopyrightText: 2020 Jane"], "N": []},
]


class CorpusStream(Stream):
    name = "corpus"
    exhaustive = True
    rule = ("literal files: the inputs of the repaired defects and the examples of the design; read with reuse_info_of_file; oracle: the "
            "recorded values")

    def cases(self, tier, rng):
        for c in CORPUS:
            yield {"items": [c]}

    def impl(self, case):
        return ";;".join(impl_info_of_bytes(i["text"].encode("utf-8")) for i in case["items"])

    def model_lines(self, case):
        return ["infofile\t%s\t%s" % (enc_bytes(i["text"].encode("utf-8")), enc_list(bad_values(i["text"].encode("utf-8"))))
                for i in case["items"]]

    def model_out(self, case, outs):
        return ";;".join(model_info_out(o) for o in outs)

    def oracle(self, case, impl_out):
        for i, got in zip(case["items"], impl_out.split(";;")):
            want = canon(i["L"], i["C"], i["N"]) if (i["L"] or i["C"]) else canon([], [], [])
            if got != want:
                return "corpus: %r read as %s, expected %s" % (i["text"], show_canon(got), show_canon(want))
        return None

    def show(self, case):
        return case


# --------------------------------------------------------------------------
# theorem-hypothesis tie


class TheoremStream(Stream):
    name = "theorem"
    rule = ("for the physical tag line of every grid case (licence and contributor tags) the compiled driver evaluates the hypotheses of "
            "C02_tag_value_exact (Spec.WFValue) or, for framed lines, C02_frame (Spec.WFFramed) on the generated END pattern; where they "
            "hold find_spdx_tag on that line must return exactly [planted value]; for copyright lines with a prefix of the table the "
            "hypotheses of C02_copyright_exact_partial (Spec.WFNotice): the three patterns must give exactly that prefix, year, holder and "
            "notice; non-trivial = hypotheses hold")

    def cases(self, tier, rng):
        for case in grid_cases(tier, rng, 2 if tier == "quick" else 10):
            if case["kind"] in "LN":
                for le in ("", "\n"):
                    yield dict(case, le=le, eol="\n")
            elif case["parts"]["p"] is not None and "frame" not in case["deco"]:
                yield dict(case, le="", eol="\n")

    def impl(self, case):
        from reuse import extract
        b = case_build(case)
        if b is None:
            return "skip"
        if case["kind"] == "C":
            m = textcorr.impl_search(b["line"])
            pr = case["parts"]
            want = (pr["ptext"], pr["y"], pr["h"], case["value"])
            got = None if m is None else (m.groupdict()["prefix"], m.groupdict()["year"], m.groupdict()["statement"], m.groupdict()["copyright"])
            return ("ok|" if got == want else "bad|") + enc(repr(got))
        pat = extract._LICENSE_IDENTIFIER_PATTERN if case["kind"] == "L" else extract._CONTRIBUTOR_PATTERN
        got = list(extract.find_spdx_tag(b["line"] + case["le"], pat))
        return ("ok|" if got == [b["v"]] else "bad|") + enc_list(got)

    def model_lines(self, case):
        b = case_build(case)
        if b is None:
            return []
        if case["kind"] == "C":
            y = case["parts"]["y"]
            if y is None:
                yf = "none"
            elif len(y) == 4:
                yf = "single/" + enc(y)
            else:
                mid = y[4:-4]
                yf = "range/%s/%s/%s/%s" % (enc(y[:4]), "1" if mid.startswith(" ") else "0", "1" if mid.endswith(" ") else "0", enc(y[-4:]))
            return ["c02chyp\t%s\t%s\t%s\t%s\t%s" % (case["parts"]["p"], yf, enc(case["parts"]["h"]), enc(b["pre"]), enc(b["trail"]))]
        if b["framed"]:
            return ["c02framed\t%s\t%s\t%s\t%s\t%s\t%s\t%s" % (case["kind"], enc(b["pre"]), enc(b["blanks"]), enc(b["v"]), enc(b["ws"]),
                                                             enc(b["trail"]), enc(case["le"]))]
        args = (case["kind"], enc(b["pre"]), enc(b["blanks"]), enc(b["v"]), enc(b["trail"]), enc(case["le"]))
        # the hypotheses of C02_tag_value_exact, and those of C02_value_exact (tailSafe: finer, independent of the trail)
        return ["c02hyp\t%s\t%s\t%s\t%s\t%s\t%s" % args, "c02hyp2\t%s\t%s\t%s\t%s\t%s\t%s" % args]

    def model_out(self, case, outs):
        return ";".join(outs)

    def agree(self, case, impl_out, model_out):
        if case["kind"] == "C":
            hyp, line = model_out.split("|")
            if hyp != "1":
                return True
            if dec(line) != case["value"]:
                return False          # the theorem's line is not the planted notice
        elif "1" not in model_out.split(";"):
            return True
        elif model_out == "0;1":
            return False              # C02_value_exact's hypotheses imply those of C02_tag_value_exact (C02L.wfValue_of_safe)
        self._hyp = getattr(self, "_hyp", set())
        self._hyp.add(self.key(case))
        return impl_out.startswith("ok|")

    def key(self, case):
        return (case["style"], case["form"], case["deco"], case["kind"], case["value"], case["le"])

    def nontrivial(self, case, impl_out):
        k = self.key(case)
        return k if k in getattr(self, "_hyp", ()) else None

    def show(self, case):
        b = case_build(case)
        return {"line": None if b is None else b["line"] + case["le"], "planted": case["value"], "kind": case["kind"]}


class TextTieStream(Stream):
    name = "textlines"
    rule = ("texts of 2-5 physical tag lines of one tag kind taken from the grid (different styles, decorations and values in one text): "
            "the driver evaluates the hypotheses of C02_tag_lines (Spec.WFLines: every line well formed in its place, END stopping at "
            "its own line end); where they hold find_spdx_tag on the whole text must return exactly the planted values in order; "
            "non-trivial = hypotheses hold")

    def cases(self, tier, rng):
        pool = [c for c in grid_cases(tier, rng, 1) if c["kind"] in "LN"]       # framed lines too (C02_tag_lines_general)
        n = 4000 if tier == "thorough" else 500
        for _ in range(n):
            kind = rng.choice("LN")
            cs = [c for c in (rng.choice(pool) for _ in range(12)) if c["kind"] == kind][: rng.randint(2, 5)]
            if len(cs) >= 2:
                yield {"kind": kind, "lines": [dict(c, eol="\n") for c in cs]}

    def parts(self, case):
        bs = [case_build(c) for c in case["lines"]]
        return [b for b in bs if b is not None]

    def impl(self, case):
        from reuse import extract
        bs = self.parts(case)
        text = "".join(b["line"] + "\n" for b in bs)
        pat = extract._LICENSE_IDENTIFIER_PATTERN if case["kind"] == "L" else extract._CONTRIBUTOR_PATTERN
        got = list(extract.find_spdx_tag(text, pat))
        return ("ok|" if got == [b["v"] for b in bs] else "bad|") + enc_list(got)

    def model_lines(self, case):
        bs = self.parts(case)
        # the per-text hypotheses of C02_tag_lines, and the line-local ones of C02_tag_lines_general (the text ends with a line
        # feed: an empty last line)
        new = "c02linesg\t%s\t%s\t%s\t%s\t%s\t%s\t%s" % (
            case["kind"], "".join("R" if b["framed"] else "T" for b in bs) + "F", enc_list([b["pre"] for b in bs] + [""]),
            enc_list([b["blanks"] for b in bs] + [""]), enc_list([b["v"] for b in bs] + [""]),
            enc_list([b["trail"] for b in bs] + [""]), enc_list([b["ws"] for b in bs] + [""]))
        if any(b["framed"] for b in bs):
            return [new]              # C02_tag_lines has no framed lines
        return ["c02lines\t%s\t%s\t%s\t%s\t%s" % (case["kind"], enc_list(b["pre"] for b in bs), enc_list(b["blanks"] for b in bs),
                                                    enc_list(b["v"] for b in bs), enc_list(b["trail"] for b in bs)), new]

    def model_out(self, case, outs):
        return "#".join(outs)

    def agree(self, case, impl_out, model_out):
        old, new = model_out.split("#") if "#" in model_out else ("0", model_out)
        hyp, text, values = new.split("|")
        if hyp == "1":
            bs = self.parts(case)
            if dec(text) != "".join(b["line"] + "\n" for b in bs) or dec_list(values) != [b["v"] for b in bs]:
                return False          # the theorem's text / promise is not the planted one
        if old != "1" and hyp != "1":
            return True
        self._hyp = getattr(self, "_hyp", set())
        self._hyp.add(self.key(case))
        return impl_out.startswith("ok|")

    def key(self, case):
        return tuple((c["style"], c["form"], c["deco"], c["value"]) for c in case["lines"])

    def nontrivial(self, case, impl_out):
        k = self.key(case)
        return k if k in getattr(self, "_hyp", ()) else None

    def show(self, case):
        return {"text": "".join(b["line"] + "\n" for b in self.parts(case)), "kind": case["kind"]}


# --------------------------------------------------------------------------
# theorem-hypothesis tie for whole texts of mixed lines (C02_tag_lines_general, C02_copyright_lines, C02_extract_exact, C02_file_exact)

FREE_LINES = ["", "", "#!/bin/sh", "int main() {", "x = \"unclosed", "y = 'a", "z = [1, 2]", "a = b[i]", "/*", " */", "-->", "<!--",
              "# just a comment", "\tindented_code();", "echo \"$x\" >", "]::", "\'\'\'", "# SPDX-License-Identifier", "SPDX-License-Identifier:MIT",
              "SPDX-FileContributor:", "# h\u00e9llo \u2014 w\u00f6rld", "// \u65e5\u672c\u8a9e", "{% comment %}", "=begin", "\"\"\"", "name = \"x\"",
              "items = ['a',", "<tag attr=\"v\"", "# Copyright", "(c)", "# see COPYING", "   ", "\t", "dnl", "REM", "*)", "#}", "l = [", "q = '"]


class InfoLinesStream(Stream):
    name = "infolines"
    rule = ("texts of 2-8 lines in random order: licence, contributor and copyright-notice lines taken from the grid (different styles, "
            "forms, decorations and values in one text) and information-free lines from a pool (code, prose, unclosed quotes and brackets, "
            "comment openers and closers, look-alikes such as `SPDX-License-Identifier:MIT`), with and without a final line feed; one text in "
            "eight carries a snippet marker and enough filler to exceed 4096 bytes.  The driver evaluates the line-by-line hypotheses of "
            "C02_extract_exact (Spec.InfoLine.ok on the generated END pattern: every condition about one line alone) and the size / snippet "
            "hypothesis of C02_file_exact / C02_file_exact_line_endings; where they hold extract_reuse_info(text) and reuse_info_of_file "
            "on the real file in LF, CRLF and CR form must return exactly the planted licence expressions, notices and contributors and nothing else (generator ground truth), and the "
            "theorem's text and promise must be the planted ones; non-trivial = hypotheses hold")

    def cases(self, tier, rng):
        pool = [c for c in grid_cases(tier, rng, 1) if c["kind"] in "LN" or (c["parts"]["p"] is not None and "frame" not in c["deco"])]
        n = 6000 if tier == "thorough" else 700
        for _ in range(n):
            items = []
            for _ in range(rng.randint(2, 8)):
                if rng.random() < 0.35:
                    items.append({"free": rng.choice(FREE_LINES)})
                else:
                    items.append({"grid": dict(rng.choice(pool), eol="\n")})
            if rng.random() < 0.125:
                k = rng.randint(0, len(items))
                items[k:k] = [{"free": "# " + SNIPPET}] + [{"free": "# filler line %04d of a long file ......" % i} for i in range(130)]
            if rng.random() < 0.6:
                items.append({"free": ""})          # the text ends with a line feed
            yield {"items": items}

    def parts(self, case):
        """(kind, build) per line; grid lines that cannot be built (frames in inline comments) are dropped"""
        out = []
        for it in case["items"]:
            if "free" in it:
                out.append(("O", {"line": it["free"]}, None))
            else:
                b = case_build(it["grid"])
                if b is not None:
                    out.append((self.kind_of(it["grid"], b), b, it["grid"]))
        return out

    @staticmethod
    def kind_of(g, b):
        """L / N / C, or M / P for a licence / contributor line inside an ASCII-art frame"""
        return {"L": "M", "N": "P"}[g["kind"]] if b["framed"] else g["kind"]

    def text(self, case):
        return "\n".join(b["line"] for _, b, _ in self.parts(case))

    def planted(self, case):
        lic, cpr, con = [], [], []
        for k, b, g in self.parts(case):
            if k in "LM":
                lic.append(b["v"])
            elif k == "C":
                cpr.append(g["value"])
            elif k in "NP":
                con.append(b["v"])
        return lic, cpr, con

    def impl(self, case):
        from reuse import extract
        text = self.text(case)
        try:
            info = extract.extract_reuse_info(text)
            t = canon_info(info)
        except Exception as e:
            t = "EXC:%s" % type(e).__name__
        return "##".join([t] + [impl_info_of_bytes(text.replace("\n", eol).encode("utf-8")) for eol in self.EOLS])

    EOLS = ("\n", "\r\n", "\r")          # C02_file_exact_line_endings: id, toCRLF, toCR

    def model_lines(self, case):
        ps = self.parts(case)
        kinds, pres, blanks, vs, trails, keys, yforms = "", [], [], [], [], [], []
        for k, b, g in ps:
            kinds += k
            if k == "O":
                pres.append(b["line"]); blanks.append(""); vs.append(""); trails.append(""); keys.append(""); yforms.append("")
            elif k in "LN":
                pres.append(b["pre"]); blanks.append(b["blanks"]); vs.append(b["v"]); trails.append(b["trail"]); keys.append(""); yforms.append("")
            elif k in "MP":
                pres.append(b["pre"]); blanks.append(b["blanks"]); vs.append(b["v"]); trails.append(b["trail"]); keys.append(enc(b["ws"])); yforms.append("")
            else:
                y = g["parts"]["y"]
                if y is None:
                    yf = "none"
                elif len(y) == 4:
                    yf = "single/" + enc(y)
                else:
                    mid = y[4:-4]
                    yf = "range/%s/%s/%s/%s" % (enc(y[:4]), "1" if mid.startswith(" ") else "0", "1" if mid.endswith(" ") else "0", enc(y[-4:]))
                pres.append(b["pre"]); blanks.append(""); vs.append(g["parts"]["h"]); trails.append(b["trail"])
                keys.append(g["parts"]["p"]); yforms.append(yf)
        if not ps:
            return []
        return ["c02info\t%s\t%s\t%s\t%s\t%s\t%s\t%s" % (kinds, enc_list(pres), enc_list(blanks), enc_list(vs), enc_list(trails),
                                                            ";".join(keys), ";".join(yforms))]

    @staticmethod
    def first_occurrences(l):
        out = []
        for x in l:
            if x not in out:
                out.append(x)
        return out

    def agree(self, case, impl_out, model_out):
        hyp, text, lic, cpr, con, fit = model_out.split("|")
        if hyp != "1":
            return True
        plic, pcpr, pcon = self.planted(case)
        if dec(text) != self.text(case):
            return False              # the theorem's text is not the planted one
        if (dec_list(lic), dec_list(cpr), dec_list(con)) != tuple(self.first_occurrences(x) for x in (plic, pcpr, pcon)):
            return False              # the theorem's promise is not the generator's ground truth
        exprs = {parse_expr(v) for v in plic}
        if None in exprs:
            return True               # hypothesis `hparse` of C02_file_exact fails (not generated)
        want = canon(exprs, set(pcpr), set(pcon))
        got = impl_out.split("##")
        self._hyp = getattr(self, "_hyp", set())
        self._hyp.add(self.key(case))
        if got[0] != want:
            return False
        for flag, got_file in zip(fit, got[1:]):
            if flag == "1":
                self._fit = getattr(self, "_fit", 0) + 1
                if got_file != (want if (plic or pcpr) else canon([], [], [])):
                    return False
        return True

    def key(self, case):
        return tuple(("O", it["free"]) if "free" in it else (it["grid"]["style"], it["grid"]["form"], it["grid"]["deco"], it["grid"]["value"])
                     for it in case["items"])

    def nontrivial(self, case, impl_out):
        k = self.key(case)
        return k if k in getattr(self, "_hyp", ()) else None

    def show(self, case):
        return {"text": self.text(case), "planted": self.planted(case)}


IGNORE_START = "REUSE-IgnoreStart"
IGNORE_END = "REUSE-IgnoreEnd"
MARKER_DECOS = [("# ", ""), ("// ", ""), ("<!-- ", " -->"), ("", ""), ("/* ", " */"), ("\t; ", "  "), (" * ", "")]


class BlockLinesStream(InfoLinesStream):
    name = "blocklines"
    rule = ("the texts of `infolines` with 1-2 ignore blocks inserted at line boundaries (marker lines in seven comment spellings; hidden "
            "part: 0-3 grid tag lines / notices / free lines, sometimes a second REUSE-IgnoreStart; sometimes a last block that is never "
            "closed).  The driver evaluates the hypotheses of C02_extract_exact_with_blocks / C02_file_exact_with_blocks (Spec.chunksOK, "
            "the visible parts glued together are the theorem's text of lines, Spec.InfoLine.ok for each of them incl. the seam lines); where "
            "they hold extract_reuse_info and reuse_info_of_file must return exactly what is planted in the visible lines — nothing of "
            "what the blocks hide; non-trivial = hypotheses hold")

    def cases(self, tier, rng):
        pool = [c for c in grid_cases(tier, rng, 1) if c["kind"] in "LN" or (c["parts"]["p"] is not None and "frame" not in c["deco"])]
        n = 3000 if tier == "thorough" else 350

        def item():
            if rng.random() < 0.35:
                return {"free": rng.choice(FREE_LINES)}
            return {"grid": dict(rng.choice(pool), eol="\n")}

        for _ in range(n):
            entries = [item() for _ in range(rng.randint(1, 6))]
            for _ in range(rng.randint(1, 2)):
                (mpre, mpost), (epre, epost) = rng.choice(MARKER_DECOS), rng.choice(MARKER_DECOS)
                hidden = [item() for _ in range(rng.randint(0, 3))]
                if rng.random() < 0.2:
                    hidden.insert(rng.randint(0, len(hidden)), {"free": "# " + IGNORE_START})
                entries.insert(rng.randint(0, len(entries)), {"block": {"mpre": mpre, "mpost": mpost, "epre": epre, "epost": epost, "hidden": hidden}})
            if rng.random() < 0.25:
                mpre, mpost = rng.choice(MARKER_DECOS)
                entries.append({"open": {"mpre": mpre, "mpost": mpost, "hidden": [item() for _ in range(rng.randint(0, 2))]}})
            elif rng.random() < 0.6:
                entries.append({"free": ""})
            yield {"entries": entries}

    @staticmethod
    def line_of(it):
        if "free" in it:
            return it["free"]
        b = case_build(it["grid"])
        return None if b is None else b["line"]

    def layout(self, case):
        """(visible parts as for `infolines`, a0, hidden chunks, visible chunks, open chunk or None)"""
        vis, chunks_v, chunks_h, opn = [], [], [], None
        cur, first = "", True
        for e in case["entries"]:
            sep = "" if first else "\n"
            if "block" in e or "open" in e:
                blk = e.get("block") or e["open"]
                hid = [l for l in (self.line_of(h) for h in blk["hidden"]) if l is not None]
                first = False
                chunks_v.append(cur + sep + blk["mpre"])
                if "block" in e:
                    chunks_h.append("\n".join([blk["mpost"]] + hid + [blk["epre"]]))
                    cur = blk["epost"]
                    vis.append(("O", {"line": blk["mpre"] + blk["epost"]}, None))
                else:
                    opn = "\n".join([blk["mpost"]] + hid)
                    vis.append(("O", {"line": blk["mpre"]}, None))
                    cur = None
                continue
            if "free" in e:
                part = ("O", {"line": e["free"]}, None)
            else:
                b = case_build(e["grid"])
                if b is None:
                    continue
                part = (self.kind_of(e["grid"], b), b, e["grid"])
            cur += sep + part[1]["line"]
            first = False
            vis.append(part)
        if cur is not None:
            chunks_v.append(cur)
        return vis, chunks_v[0], chunks_h, chunks_v[1:], opn

    def parts(self, case):
        # the seam line glues what stands before a start marker to what stands after the matching end marker: when the next entry is a
        # visible line, it continues on the same physical line only through the line feed, so the visible lines are exactly these
        return self.layout(case)[0]

    def text(self, case):
        vis, a0, hs, vs, opn = self.layout(case)
        t = a0
        for h, v in zip(hs, vs):
            t += IGNORE_START + h + IGNORE_END + v
        if opn is not None:
            t += IGNORE_START + opn
        return t

    def visible_text(self, case):
        return "\n".join(b["line"] for _, b, _ in self.parts(case))

    def model_lines(self, case):
        base = InfoLinesStream.model_lines(self, case)
        if not base:
            return []
        vis, a0, hs, vs, opn = self.layout(case)
        if len(hs) != len(vs):
            return []
        fields = base[0].split("\t")[1:]
        return ["c02blocks\t%s\t%s\t%s\t%s\t%s" % (enc(a0), enc_list(hs), enc_list(vs), "none" if opn is None else "some:" + enc(opn),
                                                    "\t".join(fields))]

    def key(self, case):
        return repr(case["entries"])

    def show(self, case):
        return {"text": self.text(case), "planted": self.planted(case)}


# --------------------------------------------------------------------------
# lint --json


class LintStream(Stream):
    name = "lint"
    rule = ("a sample of grid files through the real command line: one project per case, `reuse lint --json`, files[].copyrights / "
            "files[].spdx_expressions compared with the planted value; non-trivial = distinct case")

    def cases(self, tier, rng):
        allc = list(grid_cases(tier, rng, 1))
        rng.shuffle(allc)
        for case in allc[: (500 if tier == "thorough" else 120)]:
            if case["kind"] != "N":
                yield case

    def impl(self, case):
        import cli
        b = case_build(case)
        if b is None:
            return "skip"
        with cli.scratch("rv-c02l-") as d:
            cli.write_tree(d, {"src/file.txt": b["text"].encode("utf-8")})
            code, js, exc = cli.lint_json(d)
            if exc is not None or js is None:
                return "EXC:%r" % (exc,)
            for fobj in js.get("files", []):
                if fobj["path"].endswith("file.txt"):
                    lic = {e["value"] for e in fobj.get("spdx_expressions", [])}
                    cpr = {e["value"] for e in fobj.get("copyrights", [])}
                    return canon(lic, cpr, [])
            return canon([], [], [])

    def oracle(self, case, impl_out):
        if impl_out == "skip":
            return None
        b = case_build(case)
        if boundary(case, b):
            return None
        if impl_out.startswith("EXC"):
            return "lint-crash: " + impl_out
        want = expected_info(case["kind"], b["v"])
        if impl_out != want:
            return "planted-value-lint: line %r reported as %s, planted %s" % (b["line"], show_canon(impl_out), show_canon(want))
        return None

    def classify(self, case, failure):
        return classify_case(case)

    def show(self, case):
        return GridStream().show(case)


# --------------------------------------------------------------------------
# window


FILL_ASCII = "x = 1  # filler line\n"

# Offsets at which a reader that works through a file piece by piece could cut it: every power of two from 4 KiB to 1 MiB and
# sizes that are not powers of two (odd multiples of a page / of 64 KiB, decimal sizes).  The snippet marker may lie across
# any of them (and across their multiples); the property knows no such offsets: "the whole file when it contains a marker".
BOUNDS_POW = [1 << e for e in range(12, 21)]
BOUNDS_ODD = [10000, 12288, 24576, 40960, 100000, 196608, 327680, 1000000]
MODEL_MAX_BYTES = 140 * 1024        # larger files are judged by the oracle only (the driver would spend ~2 s per MiB)


def model_infofile(data: bytes):
    if len(data) > MODEL_MAX_BYTES:
        return []
    return ["infofile\t%s\t%s" % (enc_bytes(data), enc_list(bad_values(data)))]
WIDE = ["é", "€", "😀", "ß", "中"]


class WindowStream(Stream):
    name = "window"
    rule = ("files of 3-9 KiB: filler, then one tag line (licence or copyright, LF/CRLF) whose first byte lies at an offset from 3990 to "
            "4200 (every offset within 40 bytes of 4096 in the thorough tier), the filler ending in multi-byte characters so that the cut "
            "falls inside a character; the snippet marker absent, before the tag, after the tag, or itself straddling the cut; also a tag "
            "line early in the file followed by > 4 KiB; and files of up to 1 MiB (3 MiB thorough) whose marker lies far behind the tag, "
            "across one of 17 buffer-size-like offsets (every power of two from 4 KiB to 1 MiB, 10000, 12288, 24576, 40960, 100000, 196608, "
            "327680, 1000000; thorough: their 2nd and 3rd multiples and every one of the 16 straddling positions); oracle: a line wholly inside the first 4096 bytes is found, one starting at byte "
            ">= 4096 is found iff the marker occurs anywhere, a line cut by the boundary is not judged; non-trivial = distinct "
            "(offset class, marker position, found)")

    def cases(self, tier, rng):
        offs = list(range(4056, 4137)) if tier == "thorough" else list(range(4086, 4107))
        offs += [3990, 4000, 4040, 4150, 4200, 5000, 8191, 8192]
        n_rand = 400 if tier == "thorough" else 60
        for off in offs:
            for marker in ("none", "before", "after"):
                yield {"off": off, "marker": marker, "kind": "L" if off % 2 else "C", "wide": WIDE[off % len(WIDE)], "eol": "\n"}
        for _ in range(n_rand):
            yield {"off": rng.choice([rng.randint(3900, 4300), rng.randint(0, 9000)]), "marker": rng.choice(["none", "before", "after", "straddle", "none"]),
                   "kind": rng.choice("LC"), "wide": rng.choice(WIDE), "eol": rng.choice(["\n", "\r\n", "\r"])}
        # a tag early in the file, then a lot of text
        for marker in ("none", "after"):
            yield {"off": 0, "marker": marker, "kind": "L", "wide": "é", "eol": "\n"}
        # the marker far behind the tag, lying across a buffer-size-like offset (sb - sd .. sb - sd + 17): 4 KiB .. 1 MiB
        bounds = BOUNDS_POW + BOUNDS_ODD
        for sb in bounds:
            ks = (1, 2, 3) if tier == "thorough" else (1,)
            for k in ks:
                for sd in (range(0, 18) if tier == "thorough" and sb * k <= (1 << 18) else [rng.randint(1, 16)]):
                    yield {"off": rng.randint(4096, 4300), "marker": "straddle", "kind": rng.choice("LC"), "wide": rng.choice(WIDE),
                           "eol": rng.choice(["\n", "\n", "\r\n"]), "sb": sb * k, "sd": sd}

    def data(self, case):
        """bytes of the file, (start, end) byte offsets of the tag line, planted value"""
        eol = case["eol"]
        off = case["off"]
        if case["kind"] == "L":
            v = "GPL-3.0-or-later"
            line = "# " + LIC_TAG + " " + v + eol
        else:
            v = "SPDX-FileCopyrightText: 2020 Jané Doe"
            line = "# " + v + eol
        fill = FILL_ASCII.replace("\n", eol)
        head = b""
        marker_line = ("# %s\n# SPDX-SnippetEnd\n" % SNIPPET).replace("\n", eol).encode()
        if case["marker"] == "before" and off >= len(marker_line):
            head = marker_line
        # fill up to `off` bytes: whole filler lines, then a comment line padded with wide characters ending right before `off`
        body = head
        fb = fill.encode()
        while len(body) + len(fb) + 8 <= off:
            body += fb
        rest = off - len(body)
        if rest > 0:
            # "#" + wide characters / ascii padding + eol, exactly `rest` bytes
            e = eol.encode()
            w = case["wide"].encode()
            pad = b"#"
            room = rest - len(pad) - len(e)
            if room < 0:
                pad = b""
                room = rest - len(e)
            if room < 0:
                body += b"y" * rest
            else:
                k = room // len(w)
                body += pad + b"a" * (room - k * len(w)) + w * k + e
        start = len(body)
        body += line.encode("utf-8")
        end = len(body)
        tail = (fill * 3).encode()
        if case["marker"] == "after":
            tail += marker_line + fb
        body += tail
        if case["marker"] == "straddle":
            # the marker itself lies across byte 4096 (the snippet test reads the whole file, so it counts)
            m = ("# " + SNIPPET + eol).encode()
            # the marker word itself starts sd bytes before the offset sb (sd = 1..16: it lies across sb; 0 / 17: it touches sb)
            pos = case["sb"] - case["sd"] - 2 if "sb" in case else 4096 - 9
            if len(body) < pos + len(m) + 10:
                body += fb * ((pos + len(m) + 10 - len(body)) // len(fb) + 1)
            if not (start - len(m) < pos < end):
                body = body[:pos] + m + body[pos + len(m):]
        return body, start, end, v

    def impl(self, case):
        data, start, end, v = self.data(case)
        return impl_info_of_bytes(data)

    def model_lines(self, case):
        data, start, end, v = self.data(case)
        return model_infofile(data)

    def model_out(self, case, outs):
        return model_info_out(outs[0])

    def truth(self, case):
        data, start, end, v = self.data(case)
        marker = SNIPPET.encode() in data
        if marker or end <= 4096:
            return True, v
        if start >= 4096:
            return False, v
        return None, v

    def oracle(self, case, impl_out):
        if impl_out.startswith("EXC"):
            return "window-crash: " + impl_out
        found, v = self.truth(case)
        if found is None:
            return None
        parts = dict(p.split("=", 1) for p in impl_out.split("|"))
        got = (parse_expr(v) in dec_list(parts["L"])) if case["kind"] == "L" else (v in dec_list(parts["C"]))
        if got != found:
            data, start, end, _ = self.data(case)
            return "window: tag line at bytes %d..%d, snippet marker %s: %s but should %s" % (
                start, end, "present" if SNIPPET.encode() in data else "absent", "found" if got else "not found",
                "be found" if found else "not be found")
        return None

    def nontrivial(self, case, impl_out):
        data, start, end, v = self.data(case)
        cls = "inside" if end <= 4096 else ("after" if start >= 4096 else "cut")
        return (cls, case["marker"], impl_out != canon([], [], [])) + ((case["sb"],) if "sb" in case else ())

    def show(self, case):
        data, start, end, v = self.data(case)
        return {"case": case, "size": len(data), "tag_line_bytes": [start, end], "marker_at": data.find(SNIPPET.encode())}


# --------------------------------------------------------------------------
# files with a snippet marker: read as a whole, whatever lies on a 4096-byte boundary


class SnippetFileStream(Stream):
    name = "snippetfile"
    rule = ("(a) the snippet marker placed so that it straddles a multiple of 4096 bytes (marker starting 1..16 bytes before 4096*k, k = 1, 2, "
            "3), the only tags lying beyond byte 4096; (a') the same for every buffer-size-like offset B from 4 KiB to 1 MiB (the nine powers of "
            "two; 10000, 12288, 24576, 40960, 100000, 196608, 327680, 1000000; multiples 2B, 3B): marker starting 1..16 bytes before the offset "
            "(lying across it) and, as controls, ending or starting exactly at it, or lying wholly behind 70 KB / 300 KB / 1 MiB (thorough: up to "
            "3 MiB); marker line in six comment spellings, LF / CRLF; tags right after the marker, far behind it, between byte 4096 and the "
            "marker, with or without a notice in the head; (a'') a tag line itself lying across such an offset, the marker at the start, "
            "before the tag or at the end of the file; files above 140 KiB are judged by the oracle only; (b) files of 8-20 KiB with a snippet marker (at the start, in the middle or at the end): "
            "tag lines, REUSE-IgnoreStart / REUSE-IgnoreEnd markers and hidden tags placed so that they straddle or directly follow the 4096-byte "
            "boundaries (a tag line cut by a boundary, an ignore block spanning a boundary with a hidden tag right after it, the ignore marker "
            "itself cut by a boundary); oracle = generator ground truth: exactly the tags planted outside ignore blocks are reported; "
            "non-trivial = distinct (scenario list, marker position)")

    IGN_S = "REUSE-IgnoreStart"
    IGN_E = "REUSE-IgnoreEnd"

    LEADS = ["# ", "// ", "", "<!-- ", " * ", "\t# "]

    def cases(self, tier, rng):
        for k in (1, 2, 3):
            for d in range(1, 17):
                yield {"plan": "marker-straddle", "k": k, "d": d}
        # (a') the same across every buffer-size-like offset up to 1 MiB (thorough: their multiples up to 3 MiB, every position)
        for B in BOUNDS_POW + BOUNDS_ODD:
            if tier == "thorough":
                combos = [(k, d) for k in (1, 2, 3) for d in range(0, 18)] if B <= (1 << 16) else \
                         [(k, d) for k in (1, 2, 3) for d in sorted({0, 1, 8, 16, 17, rng.randint(2, 15), rng.randint(2, 15)})]
            else:
                combos = [(1, 1), (1, 16), (1, rng.randint(2, 15)), (1, rng.choice([0, 17]))]
                if B <= (1 << 16):
                    combos.append((rng.choice([2, 3]), rng.randint(1, 16)))
            for k, d in combos:
                yield {"plan": "straddle", "B": B, "k": k, "d": d, "lead": rng.choice(self.LEADS), "head": rng.random() < 0.3,
                       "tags": rng.choice(["after", "after", "far", "before", "both"]), "gap": rng.randint(2, 3000),
                       "eol": rng.choice(["\n", "\n", "\n", "\r\n"])}
        # the marker wholly behind a large offset (a reader that stops looking after so many bytes)
        for off in ([70000, 300000, (1 << 20) + 5000] if tier == "quick" else [5000, 70000, 140000, 300000, 600000, (1 << 20) + 5000, (1 << 21) + 77, 3 << 20]):
            yield {"plan": "straddle", "B": off, "k": 1, "d": -rng.randint(3, 60), "lead": rng.choice(self.LEADS), "head": rng.random() < 0.5,
                   "tags": rng.choice(["after", "far", "before", "both"]), "gap": rng.randint(2, 3000), "eol": "\n"}
        # (a'') a TAG line lying across such an offset in a file whose marker stands elsewhere (a reader that scans the whole file piece by piece)
        for B in BOUNDS_POW + BOUNDS_ODD:
            for k in ((1, 2, 3) if tier == "thorough" else (1,)):
                for _ in range(4 if tier == "thorough" else 1):
                    yield {"plan": "tag-straddle", "B": B, "k": k, "r": rng.randint(1, 40), "kind": rng.choice("LC"),
                           "marker": rng.choice(["start", "end", "before"]), "gap": rng.randint(2, 3000)}
        n = 400 if tier == "thorough" else 60
        for i in range(n):
            nb = rng.randint(2, 4)
            yield {"plan": "whole", "marker": rng.choice(["start", "middle", "end"]),
                   "scen": [rng.choice(["tag", "ignore-span", "ignstart-cut", "ignend-cut", "plain", "tag"]) for _ in range(nb)],
                   "r": [rng.randint(1, 40) for _ in range(nb)], "seed": rng.randrange(10 ** 6)}

    # -- builder ------------------------------------------------------------
    class B:
        def __init__(self):
            self.buf = bytearray()
            self.hidden = False
            self.lic, self.cpr = set(), set()
            self.n = 0

        def filler(self, n):
            """exactly n bytes of filler lines (n == 0 or n >= 2)"""
            assert n == 0 or n >= 2, n
            while n > 0:
                take = 64 if n >= 66 or n == 64 else n
                self.buf += b"#" + b"x" * (take - 2) + b"\n"
                n -= take

        def pad_to(self, off):
            cur = len(self.buf)
            if off - cur == 1:
                off += 1
            if off > cur:
                self.filler(off - cur)

        def pad_exact(self, off):
            gap = off - len(self.buf)
            assert gap >= 0, (len(self.buf), off)
            if gap == 1:
                self.buf += b"\n"
            else:
                self.filler(gap)

        def tag(self, kind):
            self.n += 1
            if kind == "L":
                v = ["MIT", "ISC", "0BSD", "Zlib", "Apache-2.0", "GPL-3.0-or-later", "MPL-2.0", "CC0-1.0", "BSD-2-Clause", "curl", "X11", "Unlicense"][self.n % 12]
                v = v if self.n < 12 else "%s OR LicenseRef-n%d" % (v, self.n)
                self.buf += ("# %s %s\n" % (LIC_TAG, v)).encode()
                if not self.hidden:
                    self.lic.add(parse_expr(v))
            else:
                v = "SPDX-FileCopyrightText: 20%02d Holder Nr %d" % (self.n % 30, self.n)
                self.buf += ("# %s\n" % v).encode()
                if not self.hidden:
                    self.cpr.add(v)

        def line(self, text):
            self.buf += (text + "\n").encode()

    def build(self, case):
        import random
        b = self.B()
        if case["plan"] == "marker-straddle":
            start = 4096 * case["k"] - case["d"]        # offset of the marker text
            b.pad_to(start - 2)
            assert len(b.buf) == start - 2, (len(b.buf), start)
            b.line("# " + SNIPPET)
            b.tag("L")
            b.tag("C")
            b.filler(200)
            b.line("# SPDX-SnippetEnd")
            return bytes(b.buf), b.lic, b.cpr
        if case["plan"] == "straddle":
            # the marker word starts d bytes before the offset k*B (d = 1..16: across it; 0 / 17: touching it; d < 0: behind it); all
            # tags beyond the first 4 KiB except an optional one in the head; no ignore blocks: every planted tag is to be reported
            at = case["B"] * case["k"] - case["d"]
            lead = case["lead"].encode()
            if case["head"]:
                b.tag("C")
            line_start = at - len(lead)
            beyond = False
            if case["tags"] in ("before", "both") and line_start > 4096 + 400:
                b.pad_to(4096 + 2 + case["gap"] % max(2, min(3000, line_start - 4096 - 300)))
                b.tag("L")
                b.tag("C")
                beyond = True
            b.pad_exact(line_start)
            b.buf += lead + SNIPPET.encode() + (b" -->" if lead.startswith(b"<!--") else b"") + b"\n"
            if case["tags"] in ("after", "both") or (case["tags"] == "before" and not beyond):
                b.pad_to(max(len(b.buf), 4096 + 2))
                b.tag("C")
                b.tag("L")
            b.filler(case["gap"])
            if case["tags"] == "far":
                b.filler(5000)
                b.tag("L")
                b.tag("C")
            b.line("# SPDX-SnippetEnd")
            data = bytes(b.buf)
            if case["eol"] != "\n":
                # CRLF: keep the marker's offset (the bytes before it are left alone), later line ends become CRLF
                data = data[:at] + data[at:].replace(b"\n", case["eol"].encode())
            assert data.find(SNIPPET.encode()) == at, (data.find(SNIPPET.encode()), at)
            return data, b.lic, b.cpr
        if case["plan"] == "tag-straddle":
            at = case["B"] * case["k"] - case["r"]          # the tag line starts r bytes before the offset and ends behind it
            if case["marker"] == "start":
                b.line("# " + SNIPPET)
            b.pad_to(4096 + 2)
            b.tag("C")
            if case["marker"] == "before" and at > 4096 + 200:
                b.line("# " + SNIPPET)
            b.pad_exact(at) if at >= len(b.buf) else None
            b.tag(case["kind"])
            b.tag("L")
            b.filler(case["gap"])
            if SNIPPET.encode() not in b.buf:
                b.line("# " + SNIPPET)
            b.line("# SPDX-SnippetEnd")
            return bytes(b.buf), b.lic, b.cpr
        rng = random.Random(case["seed"])
        if case["marker"] == "start":
            b.line("# " + SNIPPET)
        for i, (sc, r) in enumerate(zip(case["scen"], case["r"])):
            bound = 4096 * (i + 1)
            if case["marker"] == "middle" and i == 1:
                b.line("# " + SNIPPET)
            kind = "L" if (i + r) % 2 else "C"
            if sc == "tag":
                b.pad_to(bound - 200)
                b.tag("C" if kind == "L" else "L")
                b.pad_to(bound - r)
                b.tag(kind)                         # cut by the boundary
                b.tag("L")
            elif sc == "ignore-span":
                b.pad_to(bound - 300)
                b.tag(kind)
                b.line("# " + self.IGN_S)
                b.hidden = True
                b.tag("L")
                b.pad_to(bound + (r % 3))           # the next (hidden) tag starts right at / after the boundary
                b.tag("L")
                b.tag("C")
                b.line("# " + self.IGN_E)
                b.hidden = False
                b.tag("C")
            elif sc == "ignstart-cut":
                b.pad_to(bound - 2 - (r % len(self.IGN_S)) - 1)
                b.line("# " + self.IGN_S)          # the marker itself is cut by the boundary
                b.hidden = True
                b.tag(kind)
                b.line("# " + self.IGN_E)
                b.hidden = False
                b.tag(kind)
            elif sc == "ignend-cut":
                b.pad_to(bound - 400)
                b.line("# " + self.IGN_S)
                b.hidden = True
                b.tag(kind)
                b.pad_to(bound - 2 - (r % len(self.IGN_E)) - 1)
                b.line("# " + self.IGN_E)
                b.hidden = False
                b.tag(kind)
            else:
                b.pad_to(bound + r)
                b.tag(kind)
        b.filler(rng.randint(2, 3000))
        if case["marker"] == "end" or (case["marker"] == "middle" and len(case["scen"]) < 2):
            b.line("# " + SNIPPET)
        b.tag("C")
        return bytes(b.buf), b.lic, b.cpr

    def impl(self, case):
        data, lic, cpr = self.build(case)
        return impl_info_of_bytes(data)

    def model_lines(self, case):
        data, lic, cpr = self.build(case)
        return model_infofile(data)

    def model_out(self, case, outs):
        return model_info_out(outs[0])

    def oracle(self, case, impl_out):
        if impl_out.startswith("EXC"):
            return "snippetfile-crash: " + impl_out
        data, lic, cpr = self.build(case)
        want = canon(lic, cpr, [])
        if impl_out != want:
            return "snippet-file: file of %d bytes with a snippet marker at byte %d (%s): reported %s, planted outside ignore blocks %s" % (
                len(data), data.find(SNIPPET.encode()), case["plan"] if case["plan"] != "whole" else ",".join(case["scen"]),
                show_canon(impl_out), show_canon(want))
        return None

    def nontrivial(self, case, impl_out):
        if case["plan"] == "marker-straddle":
            return ("marker-straddle", case["k"], case["d"])
        if case["plan"] == "straddle":
            return ("straddle", case["B"], case["k"], case["d"], case["tags"])
        if case["plan"] == "tag-straddle":
            return ("tag-straddle", case["B"], case["k"], case["marker"])
        return (tuple(case["scen"]), case["marker"])

    def show(self, case):
        data, lic, cpr = self.build(case)
        return {"case": case, "size": len(data), "marker_at": data.find(SNIPPET.encode())}


# --------------------------------------------------------------------------
# several copyright notations on one line: which of them is the notice


# rank of a notation: the SPDX tag outranks the plain word, the plain word outranks the sign
RANK = {"spdx": 3, "word": 2, "sign": 1, "neutral": 0}

SPDX_TARGETS = ["SPDX-FileCopyrightText:", "SPDX-SnippetCopyrightText:", "SPDX-FileCopyrightText: (C)", "SPDX-FileCopyrightText: (c)",
                "SPDX-SnippetCopyrightText: (C)", "SPDX-FileCopyrightText: ©", "SPDX-SnippetCopyrightText: ©", "SPDX-FileCopyrightText: Copyright",
                "SPDX-FileCopyrightText: Copyright (C)", "SPDX-FileCopyrightText: Copyright ©", "SPDX-SnippetCopyrightText: Copyright (c)"]
WORD_TARGETS = ["Copyright", "Copyright (C)", "Copyright (c)", "Copyright ©"]
SIGN_TARGETS = ["©"]

# text standing to the LEFT of the notice on the same line (a table cell, a few words of prose, a label); (rank, text, set off)
# `set off` = the decoy ends in a separator or a word, so that it cannot be read as the beginning of the notice itself
DECOYS = [
    ("word", "Copyright notice:  ", True), ("word", "Copyright and licence -- ", True), ("word", "Copyright holder | ", True),
    ("word", "Copyright (see AUTHORS): ", True), ("word", "Copyright\tnotice\t", True), ("word", "Copyright (c) notice: ", True),
    ("word", "Copyright © holder: ", True), ("word", "Copyright of this snippet: ", True), ("word", "| Copyright | ", True),
    ("word", "© Copyright notice: ", True), ("word", "Copyright © notice, see: ", True), ("word", "Copyright 2020 | ", True),
    ("sign", "© see ", True), ("sign", "© | ", True), ("sign", "© notice: ", True), ("sign", "©  -- ", True), ("sign", "(c) © : ", True),
    ("sign", "| © | ", True), ("sign", "© 2020: ", True), ("sign", "©\t", False), ("sign", "© ", False),
    ("neutral", "(c) see: ", True), ("neutral", "(C) ", True), ("neutral", "Copyright: ", True), ("neutral", "Copyrights; ", True),
    ("neutral", "Copyrighted material, ", True), ("neutral", "Copr. ", True), ("neutral", "notice: ", True), ("neutral", "©: ", True),
    ("neutral", "©2020 ", True), ("neutral", "", True),
]
# holders that themselves mention a lower-ranking notation (to the RIGHT of the notice: part of the value); (highest rank inside, text)
RIGHT_HOLDERS = [("word", "Jane Doe, Copyright holder"), ("word", "Jane Doe (Copyright 2019 Old Corp)"), ("word", "the Copyright Clearance Center"),
                 ("sign", "ACME © dept"), ("sign", "Jane Doe (© 2019 Old Corp)"), ("sign", "Jane Doe ©")]


def notation_targets():
    return [("spdx", t) for t in SPDX_TARGETS] + [("word", t) for t in WORD_TARGETS] + [("sign", t) for t in SIGN_TARGETS]


class NotationStream(Stream):
    name = "notations"
    rule = ("one physical line holding TWO copyright notations: a decoy to the left (31 texts: the word `Copyright ` / the sign `© ` / `(c)` "
            "as a table cell, a label or a few words of prose - `# Copyright notice:  SPDX-FileCopyrightText: 2021 Jane Doe`, `| © | Copyright "
            "2018 Bob`, `* (c) see: SPDX-...` -, or text that only looks like one: `Copyright:`, `©2020`) and the notice proper (16 prefixes: "
            "SPDX-FileCopyrightText / SPDX-SnippetCopyrightText with and without (C) / © / Copyright, the word with and without (C) / ©, the "
            "sign), 5 year forms, holders incl. holders that mention a lower-ranking notation to the RIGHT of the notice; every pair with "
            "rank(decoy) < rank(notice) (SPDX tag > word > sign) in every (style, form) of the live table (sampled in the quick tier), "
            "indentation, trailing blanks, LF / CRLF / CR, optionally a labelled licence line beside it; read with reuse_info_of_file, "
            "extract_reuse_info and (sample) `reuse lint --json`. Reading demanded by the property text (`recognised with exactly the value "
            "its author wrote ... the surrounding decoration never becomes part of the value`): the notice is the highest-ranking notation "
            "of the line - an SPDX tag is the notice whatever words stand in front of it, the word `Copyright` is the notice when only a "
            "sign stands in front of it - and its value runs from that notation to the end of the line less terminators; text to its "
            "left is decoration. A decoy of the same or a higher rank than the notice is not generated (two notices on one line: not "
            "decided by the property). non-trivial = distinct (decoy, prefix, form)")

    def cases(self, tier, rng):
        forms = style_forms()
        targets = notation_targets()
        exprs = expressions(rng, 12)
        per = 6 if tier == "thorough" else 1

        def mk(sname, form, f, decoy, target, holder=None, lint=False):
            return {"style": sname, "form": form, "f": f, "decoy": decoy, "rank": target[0], "prefix": target[1], "y": rng.choice(YEARS),
                    "h": holder or rng.choice(HOLDERS), "lead": rng.choice(["", "", "  ", "\t"]), "trail": rng.choice(["", "", " ", "\t"]),
                    "eol": rng.choice(["\n", "\n", "\n", "\r\n", "\r"]), "lic": rng.choice([None, None] + exprs),
                    "liclabel": rng.choice(["", "Licence:           ", "License | "]), "lint": lint}
        nlint = 0
        for di, (drank, dtext, setoff) in enumerate(DECOYS):
            for target in targets:
                if RANK[drank] >= RANK[target[0]]:
                    continue
                if not setoff and target[0] != "spdx":
                    continue            # `© Copyright 2018 Bob`: the sign may be meant as part of the notice - not decided
                for _ in range(per):
                    sname, form, f = rng.choice(forms)
                    lint = drank != "neutral" and nlint < (150 if tier == "thorough" else 24) and rng.random() < 0.08
                    nlint += lint
                    yield mk(sname, form, f, di, target, lint=lint)
        # holders mentioning a lower-ranking notation, with and without a decoy
        for hrank, h in RIGHT_HOLDERS:
            for target in targets:
                if RANK[hrank] >= RANK[target[0]]:
                    continue
                for _ in range(per):
                    sname, form, f = rng.choice(forms)
                    ds = [i for i, (r, _, so) in enumerate(DECOYS) if RANK[r] < RANK[target[0]] and (so or target[0] == "spdx")]
                    yield mk(sname, form, f, rng.choice(ds), target, holder=h)
        if tier == "thorough":
            # every (style, form) with every decoy rank x notice rank pair
            for sname, form, f in forms:
                for target in targets:
                    ds = [i for i, (r, _, so) in enumerate(DECOYS) if RANK[r] < RANK[target[0]] and (so or target[0] == "spdx")]
                    for di in rng.sample(ds, min(3, len(ds))):
                        yield mk(sname, form, f, di, target)

    def build(self, case):
        f, form, eol = case["f"], case["form"], case["eol"]
        before, after = [], []
        if form == "single":
            base, close = case["lead"] + f["single"] + f["ias"], ""
        elif form == "inline":
            base, close = case["lead"] + f["start"] + " ", " " + f["end"]
        elif form == "block":
            before, after = [f["start"]], [f["ibe"] + f["end"]]
            base, close = case["lead"] + f["ibm"] + f["middle"] + f["iam"], ""
        else:
            base, close = case["lead"], ""
        decoy = DECOYS[case["decoy"]][1]
        v = "%s %s%s" % (case["prefix"], (case["y"] + " ") if case["y"] else "", case["h"])
        line = base + decoy + v + case["trail"] + close
        lines = [line]
        if case["lic"]:
            lines.append(base + case["liclabel"] + LIC_TAG + " " + case["lic"] + close)
        text = eol.join(before + lines + after) + eol
        return {"text": text, "line": line, "v": v, "decoy": decoy}

    def impl(self, case):
        b = self.build(case)
        data = b["text"].encode("utf-8")
        out = impl_info_of_bytes(data)
        if case["eol"] == "\n":
            from reuse import extract
            info = extract.extract_reuse_info(b["text"])
            t = canon_info(info)
            if t != out:
                return "TEXT-FILE-DIFFER:%s:%s" % (t, out)
        if case.get("lint"):
            import cli
            with cli.scratch("rv-c02n-") as d:
                cli.write_tree(d, {"src/file.txt": data})
                code, js, exc = cli.lint_json(d)
                if exc is not None or js is None:
                    return "EXC:lint:%r" % (exc,)
                got = canon([], [], [])
                for fobj in js.get("files", []):
                    if fobj["path"].endswith("file.txt"):
                        got = canon({e["value"] for e in fobj.get("spdx_expressions", [])}, {e["value"] for e in fobj.get("copyrights", [])}, [])
                if got != out:
                    return "LINT-FILE-DIFFER:%s:%s" % (got, out)
        return out

    def model_lines(self, case):
        return model_infofile(self.build(case)["text"].encode("utf-8"))

    def model_out(self, case, outs):
        return model_info_out(outs[0])

    def undecided(self, case, b):
        v = b["v"]
        f = case["f"]
        if case["form"] in ("inline", "block") and f["end"] and v.rstrip(" \t").endswith(f["end"]):
            return True
        return False

    def oracle(self, case, impl_out):
        b = self.build(case)
        if self.undecided(case, b):
            return None
        if impl_out.startswith(("EXC", "TEXT-FILE-DIFFER", "LINT-FILE-DIFFER")):
            return "notations-crash: " + impl_out[:300]
        want = canon({parse_expr(case["lic"])} if case["lic"] else [], [b["v"]], [])
        if impl_out != want:
            return ("notation-priority: line %r read as %s; the author's notice is %r (the highest-ranking notation of the line - SPDX tag, "
                    "then the word, then the sign - is the notice; %r to its left is decoration)" % (
                        b["line"], show_canon(impl_out), b["v"], b["decoy"]))
        return None

    def classify(self, case, failure):
        if has_end_suffix(self.build(case)["v"]):
            return "c02-foreign-terminator-tail"
        return None

    def nontrivial(self, case, impl_out):
        return (case["decoy"], case["prefix"], case["form"])

    def show(self, case):
        b = self.build(case)
        return {"style": case["style"], "form": case["form"], "line": b["line"], "planted": b["v"], "text": b["text"]}


# --------------------------------------------------------------------------
# unparseable expressions

BAD_EXPRS = ["MIT AND", "(MIT", "MIT OR OR Apache-2.0", "GPL-2.0-only WITH", "MIT,", "MIT/X11", "Apache 2.0 (see LICENSE)", "AND", "MIT)"]


class ParseErrorStream(Stream):
    name = "parseerror"
    rule = ("files of 2-6 tag lines (licences, copyright notices, contributors, in several comment styles) in which 0, 1 or 2 licence "
            "expressions are unparseable, at every position; oracle: any unparseable expression => the file contributes nothing at all; none "
            "=> every planted licence and notice is reported; non-trivial = distinct (number of bad expressions, position, size)")

    def cases(self, tier, rng):
        n = 1500 if tier == "thorough" else 250
        for bad in BAD_EXPRS:
            for pos in range(3):
                yield {"items": self.items(rng, 3, [pos], bad), "eol": "\n"}
        for _ in range(n):
            k = rng.randint(2, 6)
            nbad = rng.choice([0, 0, 1, 1, 2])
            poss = rng.sample(range(k), min(nbad, k))
            yield {"items": self.items(rng, k, poss, None), "eol": rng.choice(["\n", "\r\n"])}

    def items(self, rng, k, bad_positions, bad):
        exprs = expressions(rng, 12)
        items = []
        for i in range(k):
            m = rng.choice(["# ", "// ", "/* ", " * ", "<!-- ", "; ", ""])
            close = {"/* ": " */", "<!-- ": " -->"}.get(m, "")
            if i in bad_positions:
                items.append(["B", m, bad or rng.choice(BAD_EXPRS), close])
            else:
                r = rng.random()
                if r < 0.45:
                    items.append(["L", m, rng.choice(exprs), close])
                elif r < 0.85:
                    items.append(["C", m, "SPDX-FileCopyrightText: %s %s" % (rng.choice(["2020", "2001-2004"]), rng.choice(HOLDERS)), close])
                else:
                    items.append(["N", m, rng.choice(HOLDERS), close])
        return items

    def data(self, case):
        lines = []
        for kind, m, v, close in case["items"]:
            if kind in "LB":
                lines.append(m + LIC_TAG + " " + v + close)
            elif kind == "C":
                lines.append(m + v + close)
            else:
                lines.append(m + CON_TAG + " " + v + close)
        return (case["eol"].join(lines) + case["eol"]).encode("utf-8")

    def impl(self, case):
        return impl_info_of_bytes(self.data(case))

    def model_lines(self, case):
        data = self.data(case)
        return ["infofile\t%s\t%s" % (enc_bytes(data), enc_list(bad_values(data)))]

    def model_out(self, case, outs):
        return model_info_out(outs[0])

    def oracle(self, case, impl_out):
        if impl_out.startswith("EXC"):
            return "parseerror-crash: " + impl_out
        kinds = [i[0] for i in case["items"]]
        if "B" in kinds:
            if impl_out != canon([], [], []):
                return "parse-error-not-dropped: file with the unparseable expression %r still contributes %s" % (
                    [i[2] for i in case["items"] if i[0] == "B"], show_canon(impl_out))
            return None
        lic = {parse_expr(i[2]) for i in case["items"] if i[0] == "L"}
        cpr = {i[2] for i in case["items"] if i[0] == "C"}
        con = {i[2] for i in case["items"] if i[0] == "N"}
        want = canon(lic, cpr, con) if (lic or cpr) else canon([], [], [])
        if impl_out != want:
            return "parseable-file-lost: reported %s, planted %s" % (show_canon(impl_out), show_canon(want))
        return None

    def nontrivial(self, case, impl_out):
        kinds = "".join(i[0] for i in case["items"])
        return (kinds, impl_out != canon([], [], []))

    def show(self, case):
        return {"text": self.data(case).decode("utf-8")}


# --------------------------------------------------------------------------
# decoder


class DecodeStream(Stream):
    name = "decode"
    rule = ("decoded_text_from_binary on random byte strings (valid UTF-8 of all four lengths, truncated and overlong sequences, surrogate "
            "encodings, stray continuation bytes, CR / LF / CRLF mixtures) against the model's decoder; oracle on valid UTF-8: the text comes "
            "back with CRLF and CR folded to LF; non-trivial = distinct decoded text")

    PIECES = [b"a", b"\n", b"\r", b"\r\n", "é".encode(), "€".encode(), "😀".encode(), b"\xc3", b"\xe2\x82", b"\xf0\x9f\x98", b"\xc0\xaf",
              b"\xed\xa0\x80", b"\xf4\x90\x80\x80", b"\x80", b"\xbf", b"\xff", b"\xfe", b"\xe0\x80", b"\xe0\xa0", b"\xf0\x80", b"\xf0\x90",
              b"\xf5", b"\xef\xbf\xbd", b"\xef\xbb\xbf", b" ", b"\xed\x9f\xbf", b"\xee\x80\x80", b"\xf4\x8f\xbf\xbf", b"\xdf\xbf", b"\xc2\x80"]

    def cases(self, tier, rng):
        for p in self.PIECES:
            yield {"b": list(p), "valid": None}
        for a in self.PIECES:
            for b in self.PIECES:
                yield {"b": list(a + b), "valid": None}
        for _ in range(20000 if tier == "thorough" else 2500):
            if rng.random() < 0.3:
                t = "".join(rng.choice(["a", "é", "€", "😀", "\n", "\r", "\r\n", " ", "中", "ࠀ", "￿", "\U00010000", "\U0010ffff", "\x7f", "\x80", "߿"])
                            for _ in range(rng.randint(0, 8)))
                yield {"b": list(t.encode("utf-8")), "valid": t}
            elif rng.random() < 0.5:
                yield {"b": [rng.randrange(256) for _ in range(rng.randint(0, 7))], "valid": None}
            else:
                yield {"b": list(b"".join(rng.choice(self.PIECES) for _ in range(rng.randint(1, 6)))), "valid": None}

    def impl(self, case):
        from io import BytesIO
        from reuse.extract import decoded_text_from_binary
        return enc(decoded_text_from_binary(BytesIO(bytes(case["b"]))))

    def model_lines(self, case):
        return ["decode\t" + enc_bytes(bytes(case["b"]))]

    def oracle(self, case, impl_out):
        t = case.get("valid")
        if t is None:
            return None
        want = t.replace("\r\n", "\n").replace("\r", "\n")
        if dec(impl_out) != want:
            return "decode: %r decoded as %r" % (t, dec(impl_out))
        return None


# --------------------------------------------------------------------------
# exhaustive small alphabet


class SmallEnumStream(Stream):
    name = "smallenum"
    exhaustive = True
    rule = ("every line `PRE TAG SEP V TRAIL` with PRE from 10 prefixes, SEP from 3, V every string of <=3 tokens over {a, #, *, /, -, >, }, "
            "\", blank} that is stripped, TRAIL from 8 (exhaustive); find_spdx_tag against the model; oracle: V comes back exactly unless it is "
            "ambiguous in its own line (ends like a terminator or like the mirrored prefix); non-trivial = distinct result")

    PRES = ["", "# ", "// ", " * ", "/* ", "<!-- ", "c ", "|* ", "\t", "\t#\t"]
    SEPS = [" ", "\t", "  "]
    TOK = ["a", "#", "*", "/", "-", ">", "}", "\"", " "]
    TRAILS = ["", " ", " */", "*/", "-->", " */ -->", "\">", " #"]

    def cases(self, tier, rng):
        vals = set()
        for n in range(1, 4):
            for t in itertools.product(self.TOK, repeat=n):
                v = "".join(t)
                if v == v.strip():
                    vals.add(v)
        vals = sorted(vals)
        for pre in self.PRES:
            for sep in self.SEPS if tier == "thorough" else self.SEPS[:1]:
                for v in vals:
                    for tr in self.TRAILS:
                        yield {"pre": pre, "sep": sep, "v": v, "trail": tr}

    def impl(self, case):
        from reuse import extract
        line = case["pre"] + LIC_TAG + case["sep"] + case["v"] + case["trail"]
        return enc_list(extract.find_spdx_tag(line, extract._LICENSE_IDENTIFIER_PATTERN))

    def model_lines(self, case):
        line = case["pre"] + LIC_TAG + case["sep"] + case["v"] + case["trail"]
        return ["findtag\tL\t" + enc(line)]

    def oracle(self, case, impl_out):
        v, pre, tr = case["v"], case["pre"], case["trail"]
        # ambiguous in its own line: some non-empty tail of v + trail reads as terminators, or v ends like the frame
        pat = re.compile(r"(?:%s)\Z" % end_regex())
        if any(pat.match(v + tr, k) for k in range(len(v))):
            return None
        m = pre.strip()[::-1]
        for vt in (v, (v + tr).rstrip()):
            if m and vt.endswith(m) and (len(vt) == len(m) or vt[: -len(m)][-1].isspace()):
                return None
        if not pat.match(tr, 0):
            return None          # the trail is not made of terminators: it belongs to the value
        if dec_list(impl_out) != [v]:
            return "small-line: %r read as %r, planted %r" % (pre + LIC_TAG + case["sep"] + v + tr, dec_list(impl_out), v)
        return None

    def show(self, case):
        return {"line": case["pre"] + LIC_TAG + case["sep"] + case["v"] + case["trail"]}


# --------------------------------------------------------------------------


def table_roundtrip():
    """the END pattern the model uses must cover the multi-line terminator of every style of the live table (driver side) and
    the live pattern must accept each of them (implementation side)"""
    import core
    out = core.run_driver(["endcovers"])[0]
    if out != "1":
        return "Spec.endCoversStyles Generated.endRe Generated.styles is false: some style's terminator is not an END alternative"
    pat = re.compile(r"(?:%s)\Z" % end_regex())
    for t in all_terminators():
        if not pat.match(t):
            return "the live END pattern does not accept the terminator %r" % t
    return ""


def search(seed):
    """deeper search after a broken obligation / disagreement: the grid and the window at thorough size"""
    import random
    for S in (GridStream(), NotationStream(), WindowStream(), SnippetFileStream(), ParseErrorStream(), SmallEnumStream()):
        rng = random.Random("search:%s:%d" % (S.name, seed))
        known = {f["key"] for f in __import__("core").load_known().get("findings", []) if f.get("property") == "C02"}
        for case in S.cases("thorough", rng):
            try:
                io = S.impl(case)
            except Exception as e:
                io = "EXC:%s:%s" % (type(e).__name__, str(e)[:120])
            why = S.oracle(case, io)
            if why is not None and S.classify(case, why) not in known:
                return S.name, case, io, why
    return None


import c02t2      # noqa: E402  (needs the definitions above)

PROPERTY = Property(
    pid="C02",
    streams=[CorpusStream(), textcorr.FindTagStream(), textcorr.CSearchStream(), textcorr.ExtractStream(), SmallEnumStream(), GridStream(), TheoremStream(), TextTieStream(), InfoLinesStream(), BlockLinesStream(),
             LintStream(), WindowStream(), SnippetFileStream(), NotationStream(), ParseErrorStream(), DecodeStream()] + c02t2.STREAMS,
    assumptions=[
        "CPython's re engine on the tag patterns (`^(.*?)TAG[ \\t]+(.*?)END$`, MULTILINE, findall) and on the three copyright patterns is "
        "mirrored by Model.findSpdxTagWith / Model.searchLineWith over the END pattern generated from the source, and compared on every run",
        "license-expression decides which expressions parse (an oracle parameter of the model); UTF-8 decoding with errors='replace' is "
        "modelled (Model.decodeUtf8) and compared with CPython on every run",
        "values at the documented boundary are compared with the model but not judged: not stripped / empty / containing a line break; ending "
        "with the multi-line terminator of their own comment; ending with the mirror image of their own line prefix set off by white space; a "
        "tag line cut by the 4096-byte boundary",
    ],
    search=search,
    table_roundtrip=table_roundtrip,
)
