"""C09, two more regions of the input space (both judged without the tool's reader).

`dashyears` — headers *written by hand*: a person (or a word processor) writes a range of years as `2015–2019`, `2015—2019`,
              `2015 – 2019`, `2015‒2019`, `2015−2019`, `2015‑2019`, `2015 to 2019`, `2015/2019`, `2015..2019`, `2015, 2017, 2019`,
              `2015-19` … — the tool itself only ever writes `2015 - 2019`.  Such a header meets `reuse annotate --merge-copyrights`
              (and, as a control, a run without it) with a request for the same holder and another year, another holder, a licence
              only.  C09's other histories start from headers the tool wrote or from a fixed set of hyphen-only notices.
`mergemany` — `--merge-copyrights` over *several files in one invocation* (2-5 files: some without a header, some with one that
              names the requested holder with another year, another holder, or both; random names, so the tool's set of paths is
              walked in every order; named one by one or through --recursive).  C09's histories name one file per invocation.

Oracle (property text; the notices are prefix + years + holder *by construction*, nothing is parsed with the tool's patterns): after
a successful run every holder named in the file before, and the requested one, is still named; every four-digit year stated for a
holder before the run — and the requested year — lies within the span of the years on a line naming that holder afterwards, *or*
the line that stated it is still there character for character; licence tags and contributors are still there, the requested ones
have been added.  A run that reports failure leaves the file as it was.  Oracle only (the model runs alongside in stream history).
"""
import json
import os
import re

from core import Stream
import cli

PREFIXES = ["SPDX-FileCopyrightText:", "SPDX-FileCopyrightText: (C)", "SPDX-FileCopyrightText: ©", "SPDX-FileCopyrightText: Copyright",
            "Copyright", "Copyright (C)", "Copyright ©", "©"]
#: --copyright-prefix value -> the text it stands for (documentation of the option)
OPTION_PREFIX = {"spdx": "SPDX-FileCopyrightText:", "spdx-c": "SPDX-FileCopyrightText: (C)", "spdx-symbol": "SPDX-FileCopyrightText: ©", "string": "Copyright",
                 "string-c": "Copyright (C)", "string-symbol": "Copyright ©", "symbol": "©"}
#: (a, b) -> the range a..b as people write it; "hyphen" forms are the ones the tool documents
RANGES = {
    "hyphen": "%d-%d", "hyphen-spaced": "%d - %d", "hyphen-left": "%d -%d", "hyphen-right": "%d- %d",
    "en": "%d–%d", "en-spaced": "%d – %d", "em": "%d—%d", "em-spaced": "%d — %d", "figure": "%d‒%d", "minus": "%d−%d",
    "nb-hyphen": "%d‑%d", "u-hyphen": "%d‐%d", "bar": "%d―%d", "to": "%d to %d", "slash": "%d/%d", "dots": "%d..%d", "tilde": "%d~%d",
    "comma": "%d, %d", "comma-tight": "%d,%d", "en-comma": "%d–%d,", "and": "%d and %d", "plus": "%d+%d", "en-left": "%d –%d", "en-right": "%d– %d",
}
SINGLE = {"year": "%d", "year-comma": "%d,"}
HOLDERS = ["Jane Doe <jane@example.com>", "Example, Inc.", "José Álvarez", "张三", "R&D Ltd.", "The FOO Developers"]
#: kind -> (extension, header builder, body)
KINDS = {
    "py": (".py", lambda ls: "".join("# %s\n" % l if l else "#\n" for l in ls), "x = 1\n"),
    "c": (".c", lambda ls: "/*\n" + "".join(" * %s\n" % l if l else " *\n" for l in ls) + " */\n", "int x;\n"),
    "html": (".html", lambda ls: "<!--\n" + "".join(l + "\n" for l in ls) + "-->\n", "<p>x</p>\n"),
    "tex": (".tex", lambda ls: "".join("%% %s\n" % l if l else "%\n" for l in ls), "\\section{x}\n"),
    "hs": (".hs", lambda ls: "".join("-- %s\n" % l if l else "--\n" for l in ls), "main = pure ()\n"),
    "txt": (".txt", lambda ls: "".join(l + "\n" for l in ls), "plain\n"),      # header lives in FILE.license, uncommented
}


def years_in(s):
    return [int(x) for x in re.findall(r"(?<!\d)\d{4}(?!\d)", s or "")]


def notice(n):
    p, y, h = n
    return "%s %s%s" % (p, (y + " ") if y else "", h)


def header_lines(f):
    ls = [notice(n) for n in f["notices"]]
    if f.get("con"):
        ls += ["SPDX-FileContributor: " + c for c in f["con"]]
    if f.get("lic"):
        ls += [""] + ["SPDX-License-Identifier: " + l for l in f["lic"]]
    return ls


def has_header(f):
    return bool(f["notices"] or f.get("lic") or f.get("con"))


def tree_of(case):
    files = {}
    for f in case["files"]:
        ext, hdr, body = KINDS[f["kind"]]
        if f["kind"] == "txt":
            files[f["name"]] = body
            if has_header(f):
                files[f["name"] + ".license"] = hdr(header_lines(f))
        else:
            files[f["name"]] = (hdr(header_lines(f)) + "\n" if has_header(f) else "") + (body if f.get("code", True) else "")
    files["bystander.md.license"] = "SPDX-FileCopyrightText: 2001 Bystander\n"
    return files


def target_of(f):
    return f["name"] + ".license" if f["kind"] == "txt" else f["name"]


def argv_of(case):
    r = case["req"]
    a = ["annotate"]
    if r.get("holder"):
        a += ["--copyright", r["holder"]]
        a += ["--year", str(r["year"])] if r.get("year") else ["--exclude-year"]
        if r.get("prefix"):
            a += ["--copyright-prefix", r["prefix"]]
    for l in r.get("lic", []):
        a += ["--license", l]
    for c in r.get("con", []):
        a += ["--contributor", c]
    if case.get("merge"):
        a.append("--merge-copyrights")
    if any(f["kind"] == "txt" for f in case["files"]):
        a.append("--force-dot-license" if all(f["kind"] == "txt" for f in case["files"]) else "--fallback-dot-license")
    if case.get("recursive"):
        return a + ["--recursive", "src"]
    return a + [f["name"] for f in case["files"]]


def judge_file(case, f, before, after, rc_ok):
    """before / after: text of the file the header lives in (None = absent)"""
    t = target_of(f)
    r = case["req"]
    if not rc_ok:
        return None if before == after else "failed-changed: annotate reported a failure, yet %s changed: %r -> %r" % (t, (before or "")[:200], (after or "")[:200])
    if after is None:
        return "missing: %s does not exist after a successful run" % t
    lines = re.split(r"\r\n|\r|\n", after)
    stated = [(n[2], n[1], notice(n)) for n in f["notices"]]
    if r.get("holder"):
        stated.append((r["holder"], str(r["year"]) if r.get("year") else None, None))
    for h, y, line in stated:
        named = [l for l in lines if h in l]
        if not named:
            return "holder-lost: %r (%s) is named nowhere in %s after a successful `%s`: %r" % (
                h, "stated in the file before the run" if line else "requested", t, " ".join(argv_of(case)[:12]), after[:400])
        if line is not None and any(line in l for l in lines):
            continue        # the notice is still there character for character
        for yr in years_in(y):
            if not any(ys and min(ys) <= yr <= max(ys) for ys in (years_in(l.replace(h, "")) for l in named)):
                return "year-lost: year %d %s for %r is outside every line naming the holder in %s after a successful run%s: %r" % (
                    yr, ("stated before the run in %r" % line) if line else "requested", h, t, " with --merge-copyrights" if case.get("merge") else "", named)
    for l in f.get("lic", []) + r.get("lic", []):
        if not any(x.rstrip(" */->").endswith("SPDX-License-Identifier: " + l) for x in lines):
            return "licence-lost: %r is not declared in %s after the run: %r" % (l, t, after[:400])
    for c in f.get("con", []) + r.get("con", []):
        if not any("SPDX-FileContributor: " + c in x for x in lines):
            return "contributor-lost: %r is not in %s after the run: %r" % (c, t, after[:400])
    return None


class _Runs(Stream):
    def __init__(self):
        self.side = {}

    def impl(self, case):
        with cli.scratch("rv-c09m-") as root:
            cli.write_tree(root, tree_of(case))
            s0 = cli.snapshot(root)
            code, out, exc = cli.run_cli(argv_of(case), root)
            s1 = cli.snapshot(root)
        self.side[json.dumps(case, sort_keys=True)] = (s0, s1, out)
        if exc is not None:
            return "EXC:%s:%s" % (type(exc).__name__, str(exc)[:100])
        return "%d|%s" % (code, " ".join(sorted(k for k in set(s0) | set(s1) if s0.get(k) != s1.get(k))))

    def oracle(self, case, impl_out):
        if impl_out.startswith("EXC"):
            return "traceback: " + impl_out
        s0, s1, out = self.side[json.dumps(case, sort_keys=True)]
        code = int(impl_out.split("|")[0])
        if code == 2:
            return "unexpected-usage-error: exit status 2 for a well-formed invocation: %r" % out[-300:]
        text = lambda s, p: s[p][1].decode("utf-8", "replace") if p in s and s[p][0] == "file" else None      # noqa: E731
        for f in case["files"]:
            t = target_of(f)
            said = [l[len("Successfully changed header of "):] for l in out.splitlines() if l.startswith("Successfully changed header of ")]
            ok = any(x in (t, f["name"]) or x.endswith("/" + t) or x.endswith("/" + f["name"]) for x in said)      # (--recursive prints absolute paths)
            if code == 0 and not ok:
                return "not-reported: exit status 0 but no success line for %s: %r" % (t, out[-300:])
            why = judge_file(case, f, text(s0, t), text(s1, t), ok)
            if why:
                return why
            if t != f["name"] and s0.get(f["name"]) != s1.get(f["name"]):
                return "wrong-file-written: %s has a .license companion, yet the file itself changed" % f["name"]
        if s0.get("bystander.md.license") != s1.get("bystander.md.license"):
            return "stray-change: bystander.md.license changed"
        return None

    def show(self, case):
        return {"argv": argv_of(case), "files": tree_of(case)}


def rand_name(rng, kind, taken, d=None):
    while True:
        stem = "".join(rng.choice("abcdefghijklmnopqrstuvwxyz") for _ in range(rng.randint(2, 7)))
        n = (d if d is not None else rng.choice(["", "", "src/", "src/deep/"])) + stem + KINDS[kind][0]
        if n not in taken:
            taken.add(n)
            return n


def request(rng, holder, year):
    r = {"holder": holder, "year": year, "lic": ["MIT"] if rng.random() < 0.7 else []}
    if rng.random() < 0.3:
        r["prefix"] = rng.choice(["spdx", "spdx-c", "string", "string-c", "symbol", "spdx-symbol", "string-symbol"])
    if rng.random() < 0.15:
        r["con"] = ["Carol Probe"]
    return r


class DashYearsStream(_Runs):
    name = "dashyears"
    rule = ("real `reuse annotate` (in-process CLI) on a file whose header was written by hand: 1-3 notices (8 prefixes, 6 holders) of which "
            "one states a range of years in one of 24 spellings (hyphen with / without blanks, en dash, em dash, figure dash, minus sign, "
            "non-breaking hyphen, U+2010, horizontal bar, `to`, slash, dots, tilde, comma list, `and`, `+`, trailing comma) or a single year, "
            "in a py / c / html / tex / hs file or an uncommented FILE.license; the request names the same holder with a later / earlier "
            "/ enclosed year, another holder, or only a licence; with --merge-copyrights (3 of 4) and without; oracle (reader-independent, "
            "oracle-only): after a successful run every holder is still named, every four-digit year stated before and the requested one "
            "lies within the span of a line naming the holder or the stating line is still there verbatim, licences and contributors "
            "kept and added; a failing run changes nothing; non-trivial = distinct (spelling, prefix, relation of the request, merge, kind)")

    def cases(self, tier, rng):
        thorough = tier == "thorough"
        forms = list(RANGES.items()) + list(SINGLE.items())
        for fname, form in forms:
            for rel in ["same-later", "same-earlier", "same-inside", "other", "licence-only"]:
                for _ in range(4 if thorough else 1):
                    a = rng.randint(1990, 2015)
                    b = a + rng.randint(2, 8)
                    h = rng.choice(HOLDERS)
                    y = form % (a, b) if fname in RANGES else form % a
                    notices = [[rng.choice(PREFIXES), y, h]]
                    for _i in range(rng.choice([0, 0, 1, 2])):
                        hh = h if rng.random() < 0.5 else rng.choice(HOLDERS)
                        n = [rng.choice(PREFIXES), rng.choice(["%d" % rng.randint(1985, 2024), "%d-%d" % (a - 3, a - 1), "%d - %d" % (b + 1, b + 2), None]), hh]
                        if notice(n) not in [notice(m) for m in notices]:
                            notices.append(n)
                    rng.shuffle(notices)
                    kind = rng.choice(list(KINDS))
                    f = {"kind": kind, "notices": notices, "lic": rng.choice([[], ["ISC"], ["ISC", "0BSD"]]), "con": rng.choice([[], [], ["Alice"]]),
                         "name": rand_name(rng, kind, set())}
                    if rel == "licence-only":
                        req = {"lic": ["MIT"]}
                    else:
                        yr = {"same-later": b + rng.randint(1, 6), "same-earlier": a - rng.randint(1, 6), "same-inside": a + 1}.get(rel, 2022)
                        req = request(rng, h if rel.startswith("same") else rng.choice([x for x in HOLDERS if x != h]), yr)
                        if rng.random() < 0.1:
                            req["year"] = None
                    yield {"files": [f], "req": req, "merge": rng.random() < 0.75, "form": fname, "rel": rel, "pfx": [n[0] for n in notices if n[1] == y][0]}

    def nontrivial(self, case, impl_out):
        if not impl_out.startswith("0|"):
            return None
        f = case["files"][0]
        return (case["form"], case["pfx"], case["rel"], case["merge"], f["kind"])


class MergeManyStream(_Runs):
    name = "mergemany"
    rule = ("real `reuse annotate --merge-copyrights` (in-process CLI; 1 in 6 without the option) over 2-5 files in ONE invocation: each file "
            "has no header (with or without code), or a header naming the requested holder with another year, another holder, both, "
            "only a licence, or exactly the requested notice; py / c / html / tex / hs files and .txt files whose header lives in FILE.license, mixed; random file names "
            "(the tool walks a set of paths: every order occurs), named one by one or through --recursive; oracle per file as in "
            "`dashyears` (reader-independent): what the file declared before plus the request; non-trivial = distinct (pattern of files "
            "with / without header in name order, kinds, merge, recursive)")

    def cases(self, tier, rng):
        for _ in range(900 if tier == "thorough" else 60):
            n = rng.randint(2, 5)
            h = rng.choice(HOLDERS)
            year = rng.randint(2015, 2024)
            recursive = rng.random() < 0.2
            taken, files = set(), []
            for _i in range(n):
                kind = rng.choice(list(KINDS))
                shape = rng.choice(["none", "none", "none-empty", "same", "other", "both", "licence", "exact"])
                f = {"kind": kind, "notices": [], "lic": [], "con": [], "shape": shape}
                if shape == "none-empty" and kind != "txt" and not recursive:      # (the --recursive walk leaves out empty files)
                    f["code"] = False
                if shape in ("same", "both"):
                    a = rng.randint(1995, 2012)
                    f["notices"].append([rng.choice(PREFIXES), rng.choice(["%d" % a, "%d-%d" % (a, a + 2), "%d - %d" % (a, a + 3)]), h])
                if shape == "exact":      # the file already holds the requested notice character for character (filled in below)
                    f["notices"].append(None)
                if shape in ("other", "both"):
                    f["notices"].append([rng.choice(PREFIXES), rng.choice(["2003", "2001-2004", None]), rng.choice([x for x in HOLDERS if x != h])])
                if shape in ("licence", "same") or (shape != "none" and shape != "none-empty" and rng.random() < 0.5):
                    f["lic"] = [rng.choice(["ISC", "0BSD"])]
                f["name"] = rand_name(rng, kind, taken, "src/" + rng.choice(["", "a/", "b/c/"]) if recursive else None)
                files.append(f)
            if recursive and any(f["kind"] == "txt" for f in files) and not all(f["kind"] == "txt" for f in files):
                recursive = False      # (--recursive would also pick up the .license files of the others: keep the walk to the named files)
            if recursive and any(f["kind"] == "txt" for f in files):
                recursive = False
            req = request(rng, h, year)
            for f in files:
                f["notices"] = [[OPTION_PREFIX[req.get("prefix") or "spdx"], str(year), h] if n is None else n for n in f["notices"]]
            yield {"files": files, "req": req, "merge": rng.random() < 5 / 6, "recursive": recursive}

    def nontrivial(self, case, impl_out):
        if not impl_out.startswith("0|"):
            return None
        fs = sorted(case["files"], key=lambda f: f["name"])
        return ("".join("h" if has_header(f) else "-" for f in fs), tuple(f["kind"] for f in fs), case["merge"], case.get("recursive", False))


STREAMS = [DashYearsStream(), MergeManyStream()]
