"""C11 — a failed annotation leaves the tree as it was and shows in the exit status."""
import itertools
import json
import os
import stat

from core import Property, Stream, enc, enc_list
import cli
import annot_e2e

# ---------------------------------------------------------------------------
# generator ground truth: the file kinds used, written down from the documentation
# (ext, can single-line, can multi-line, multi-line terminator, uncommentable, binary content)
KINDS = {
    "cpp": (".cpp", 1, 1, "*/", 0, 0),
    "c": (".c", 0, 1, "*/", 0, 0),
    "py": (".py", 1, 0, "", 0, 0),
    "html": (".html", 0, 1, "-->", 0, 0),
    "ml": (".ml", 0, 1, "*)", 0, 0),
    "jl": (".jl", 1, 1, "=#", 0, 0),
    "foo": (".foo", None, None, "", 0, 0),      # unrecognised extension
    "zzz": (".zzz", None, None, "", 0, 1),      # unrecognised extension, binary content
    "png": (".png", 0, 0, "", 1, 1),            # uncommentable, binary content
    "csv": (".csv", 0, 0, "", 1, 0),            # uncommentable, text content
    "lat": (".rb", 1, 0, "", 0, 0),             # recognised, but the content is not UTF-8: cannot be read as text
}
LATIN1 = b"s = 'caf\xe9 na\xefve'\nputs s\n"
FORCED = {"c": (0, 1, "*/"), "cpp": (1, 1, "*/"), "python": (1, 0, ""), "html": (0, 1, "-->"), "julia": (1, 1, "=#")}
MULTI_KINDS = ["cpp", "c", "html", "ml", "jl"]
BINARY = b"\x89PNG\r\n\x1a\n\x00\x00\x00\rIHDR\x00\x01\x02\x03\xff\xfe\x00\x00"
BAD_TEMPLATE = "{# keeps neither the copyright lines nor the licences #}\nNothing to see here\n"
GOOD_TEMPLATE = ("{% for copyright_line in copyright_lines %}\n{{ copyright_line }}\n{% endfor %}\n\n"
                 "{% for expression in spdx_expressions %}\nSPDX-License-Identifier: {{ expression }}\n{% endfor %}\n")
OWN_INFO = {
    "cpp": "// SPDX-FileCopyrightText: 2019 Own\n//\n// SPDX-License-Identifier: ISC\n\nint x;\n",
    "c": "/*\n * SPDX-FileCopyrightText: 2019 Own\n *\n * SPDX-License-Identifier: ISC\n */\n\nint x;\n",
    "py": "# SPDX-FileCopyrightText: 2019 Own\n#\n# SPDX-License-Identifier: ISC\n\nx = 1\n",
    "html": "<!--\nSPDX-FileCopyrightText: 2019 Own\n\nSPDX-License-Identifier: ISC\n-->\n\n<p>x</p>\n",
    "ml": "(*\n * SPDX-FileCopyrightText: 2019 Own\n *\n * SPDX-License-Identifier: ISC\n *)\n\nlet x = 1\n",
    "jl": "# SPDX-FileCopyrightText: 2019 Own\n#\n# SPDX-License-Identifier: ISC\n\nx = 1\n",
}
PLAIN = {"cpp": "int x;\n", "c": "int x;\n", "py": "x = 1\n", "html": "<p>x</p>\n", "ml": "let x = 1\n", "jl": "x = 1\n",
         "foo": "some text\n", "csv": "a,b\n1,2\n"}
SIB_INFO = "SPDX-FileCopyrightText: 2018 Sib\n\nSPDX-License-Identifier: ISC\n"
DIRS = ["", "src/", "src/deep/"]


def fname(i, f):
    return "%sf%d%s" % (f.get("dir", ""), i, KINDS[f["kind"]][0])


def tree_of(case):
    files = {}
    for i, f in enumerate(case["files"]):
        n = fname(i, f)
        k = f["kind"]
        if KINDS[k][5]:
            files[n] = BINARY
        elif k == "lat":
            files[n] = LATIN1
        else:
            files[n] = OWN_INFO[k] if f.get("own") == "i" and k in OWN_INFO else PLAIN[k]
        if f.get("sib", "-") == "e":
            files[n + ".license"] = ""
        elif f.get("sib") == "i":
            files[n + ".license"] = SIB_INFO
    files["bystander.py"] = "y = 2\n"
    files["src/other.txt"] = "bystander\n"
    if case.get("template") in ("bad", "good"):
        files[".reuse/templates/%s.jinja2" % case["template"]] = BAD_TEMPLATE if case["template"] == "bad" else GOOD_TEMPLATE
    return files


def holder_of(case):
    return "Jane " + " ".join(case.get("terms", [])) + " Doe"


def argv_of(case):
    a = ["annotate"]
    if not case.get("noinfo"):
        a += ["--copyright", holder_of(case), "--license", "MIT"]
    if case.get("multi"):
        a.append("--multi-line")
    if case.get("single"):
        a.append("--single-line")
    if case.get("style"):
        a += ["--style", case["style"]]
    for d in case.get("dot", []):
        a.append({"force": "--force-dot-license", "fallback": "--fallback-dot-license", "skip": "--skip-unrecognised"}[d])
    if case.get("template"):
        a += ["--template", case["template"]]
    if case.get("skip_existing"):
        a.append("--skip-existing")
    if case.get("years"):
        a += ["--year", "2020"]
    if case.get("exclude_year"):
        a.append("--exclude-year")
    if case.get("recursive"):
        a.append("--recursive")
    return a + list(case["named"])


# ---------------------------------------------------------------------------
# what the documentation says should happen (the oracle's and the model's ground truth)

def style_of_path(case, path):
    """(single, multi, end, unc) of a path by its name, or None"""
    if path.endswith(".license"):
        return (0, 0, "", 0)
    for k, (ext, s, m, end, unc, _b) in KINDS.items():
        if path.endswith(ext):
            return None if s is None else (s, m, end, unc)
    return None


def eff_style(case, path):
    if case.get("style"):
        s, m, end = FORCED[case["style"]]
        return (s, m, end, 0)
    return style_of_path(case, path)


def header_fails(case, written):
    """Does header creation fail when *written* receives the header? -> None | 'M' | 'C'"""
    if written.endswith(KINDS["lat"][0]):
        return "C"  # the file that would be rewritten is not UTF-8 text
    if case.get("template") == "bad":
        return "M"
    st = eff_style(case, written)
    if st is None:
        return None  # falls back to a single-line style, or is redirected to a .license file
    s, m, end, _ = st
    uses_multi = bool(m) and (case.get("multi") or not s)
    if uses_multi and end and end in holder_of(case):
        return "C"
    return None


def covered_below(case, d):
    out = []
    for n, c in sorted(tree_of(case).items()):
        if d in (".", "") or n.startswith(d.rstrip("/") + "/"):
            if n.endswith(".license") or n.startswith(".reuse/") or len(c) == 0:
                continue
            out.append(n)
    return out


def plan(case):
    """-> 'usage' | list of (named file, written path, status) with status ok / fail / skip"""
    files = tree_of(case)
    dot = case.get("dot", [])
    if case.get("noinfo") or len(dot) > 1 or (case.get("multi") and case.get("single")) or \
            (case.get("years") and case.get("exclude_year")) or (case.get("style") and "skip" in dot):
        return "usage"
    dirs = {"."}
    for n in files:
        d = os.path.dirname(n)
        while d:
            dirs.add(d)
            d = os.path.dirname(d)
    work = []
    for n in case["named"]:
        if n in files:
            work.append(n)
        elif n in dirs:
            if case.get("recursive"):
                work.extend(covered_below(case, n))
        else:
            return "usage"  # no such path
    seen = []
    for n in work:
        if n not in seen:
            seen.append(n)
    paths = [(n, n + ".license" if n + ".license" in files else n) for n in seen]
    if not case.get("style") and not dot and any(style_of_path(case, p) is None for _, p in paths):
        return "usage"
    for _, p in paths:
        st = eff_style(case, p)
        if st is not None:
            if (case.get("single") and not st[0]) or (case.get("multi") and not st[1]):
                return "usage"
    if case.get("template") == "missing":
        return "usage"
    out = []
    for n, p in paths:
        body = files[p]
        st0 = style_of_path(case, p)
        t = p
        if (isinstance(body, bytes) and body != LATIN1) or (st0 is not None and st0[3]) or "force" in dot:
            t = p if p.endswith(".license") else p + ".license"
        if eff_style(case, t) is None:
            if "skip" in dot:
                out.append((n, t, "skip"))
                continue
            if "fallback" in dot:
                t = t + ".license"
        content = files.get(t, "")
        if case.get("skip_existing") and isinstance(content, str) and "SPDX-" in content:
            out.append((n, t, "skip"))
            continue
        out.append((n, t, "fail" if header_fails(case, t) else "ok"))
    return out


# ---------------------------------------------------------------------------

def meta_snapshot(root):
    snap = {}
    for dp, dn, fn in os.walk(root):
        for name in dn + fn:
            p = os.path.join(dp, name)
            rel = os.path.relpath(p, root)
            st = os.lstat(p)
            if stat.S_ISLNK(st.st_mode):
                snap[rel] = ("link", os.readlink(p), 0, 0)
            elif stat.S_ISDIR(st.st_mode):
                snap[rel] = ("dir", "", stat.S_IMODE(st.st_mode), 0)
            else:
                with open(p, "rb") as fp:
                    snap[rel] = ("file", fp.read(), stat.S_IMODE(st.st_mode), st.st_mtime_ns)
    return snap


def changes(s0, s1):
    out = []
    for k in sorted(set(s0) | set(s1)):
        a, b = s0.get(k), s1.get(k)
        if a is None:
            out.append("+" + k)
        elif b is None:
            out.append("-" + k)
        elif a[:2] != b[:2]:
            out.append("~" + k)
    return out


class AnnotateStream(Stream):
    name = "annotate"
    rule = ("real `reuse annotate` invocations (in-process CLI) over 1-6 files of ten kinds (single-/multi-line styles, "
            "unrecognised, uncommentable, binary; with/without own header; .license sibling absent/empty/with info) in which a "
            "chosen subset fails: holder containing the style's multi-line terminator, template dropping the information, forced "
            "--style, each of --force-dot-license/--fallback-dot-license/--skip-unrecognised, --skip-existing, --recursive; plus every "
            "usage error (mutex pairs, no --copyright/--license, missing path, unrecognised extension without option, unsupported "
            "--single-line/--multi-line, missing template) at every position; the whole tree (type, bytes, mode, mtime) is "
            "snapshotted before/after. impl = exit status + set of created/removed/changed paths; model = the Lean state machine fed "
            "with the generator's table (styles, binary, which written paths fail); oracle = the clauses of the property text. "
            "non-trivial = distinct (reason, .license option, pattern of failing positions)")

    def __init__(self):
        self.side = {}

    # -- generation ---------------------------------------------------------
    def _files(self, rng, kinds_fail, kinds_pass, mask, allow_sib=True):
        files = []
        for bit in mask:
            k = rng.choice(kinds_fail if bit else kinds_pass)
            f = {"kind": k, "dir": rng.choice(DIRS)}
            files.append(f)
        return files

    def _terminator_case(self, rng, n, mask, dot):
        multi = rng.random() < 0.5
        end = rng.choice(["*/", "-->", "*)"] + (["=#"] if multi else []))
        terms = [end]
        pool = MULTI_KINDS if multi else MULTI_KINDS + ["py"]
        failing = [k for k in pool if KINDS[k][3] == end and (multi or not KINDS[k][1])]
        passing = [k for k in pool if k not in failing]
        if dot in ("fallback", "skip") and not multi:
            passing = passing + ["foo", "foo"]
        if not multi:
            passing = passing + ["csv", "png"]
            if dot:
                passing = passing + ["zzz"]
        if dot == "force":
            mask = [0] * n
        files = self._files(rng, failing or passing, passing, mask)
        for f in files:
            if rng.random() < 0.15 and f["kind"] in OWN_INFO:
                f["own"] = "i"
        return {"files": files, "multi": multi, "terms": terms, "dot": [dot] if dot else []}

    def _template_case(self, rng, n, mask, dot):
        files = []
        skip_existing = False
        for bit in mask:
            if bit:
                pool = ["cpp", "c", "py", "html", "ml", "jl", "csv", "png"] + (["foo", "zzz"] if dot in ("fallback", "force") else []) \
                    + (["zzz"] if dot == "skip" else [])
                f = {"kind": rng.choice(pool), "dir": rng.choice(DIRS)}
                if rng.random() < 0.25:
                    f["sib"] = "e"
            else:
                if dot == "skip" and rng.random() < 0.5:
                    f = {"kind": "foo", "dir": rng.choice(DIRS)}
                else:
                    skip_existing = True
                    f = {"kind": rng.choice(["cpp", "c", "py", "html"]), "dir": rng.choice(DIRS)}
                    if rng.random() < 0.5 and dot != "force":
                        f["own"] = "i"
                    else:
                        f["sib"] = "i"
            files.append(f)
        return {"files": files, "template": "bad", "dot": [dot] if dot else [], "skip_existing": skip_existing}

    def _style_case(self, rng, n, mask, dot):
        style, multi, end = rng.choice([("c", False, "*/"), ("cpp", True, "*/"), ("html", False, "-->"), ("julia", True, "=#")])
        files = []
        skip_existing = False
        for bit in mask:
            if bit:
                f = {"kind": rng.choice(["cpp", "c", "html", "ml", "jl", "foo"] + ([] if multi else ["py", "csv", "png", "zzz"])),
                     "dir": rng.choice(DIRS)}
            else:
                skip_existing = True
                f = {"kind": rng.choice(["cpp", "c", "html"]), "dir": rng.choice(DIRS)}
                if dot == "force":
                    f["sib"] = "i"
                else:
                    f["own"] = "i"
            files.append(f)
        return {"files": files, "style": style, "multi": multi, "terms": [end], "dot": [dot] if dot else [], "skip_existing": skip_existing}

    def _finish(self, rng, case, reason, mask):
        n = len(case["files"])
        order = list(range(n))
        rng.shuffle(order)
        case["named"] = [fname(i, case["files"][i]) for i in order]
        case["reason"] = reason
        case["mask"] = "".join(str(b) for b in mask)
        return case

    def cases(self, tier, rng):
        thorough = tier == "thorough"
        dots = [None, "force", "fallback", "skip"]
        # 1. a chosen subset fails, for each reason and each .license option
        for reason, maker, dl in (("terminator", self._terminator_case, dots), ("template", self._template_case, dots),
                                  ("style", self._style_case, [None, "force", "fallback"])):
            for dot in dl:
                for n in range(1, 7):
                    masks = list(itertools.product([0, 1], repeat=n))
                    if n > (4 if thorough else 2):
                        masks = rng.sample(masks, 16 if thorough else 3)
                    for mask in masks:
                        for _ in range(2 if thorough else 1):
                            yield self._finish(rng, maker(rng, n, list(mask), dot), reason, mask)
        # 2. unrecognised extension with each option (and without: usage error), at every position
        for dot in dots:
            for n in range(1, 5):
                for pos in range(n):
                    for tmpl in (None, "bad", "good"):
                        files = [{"kind": rng.choice(["py", "cpp", "html"]), "dir": rng.choice(DIRS)} for _ in range(n)]
                        files[pos] = {"kind": rng.choice(["foo", "zzz"]) if dot else "foo", "dir": rng.choice(DIRS)}
                        case = {"files": files, "dot": [dot] if dot else [], "template": tmpl}
                        yield self._finish(rng, case, "unrecognised", [int(i == pos) for i in range(n)])
        # 2a. a file that is not UTF-8 text fails wherever it stands, the others are processed
        for dot in dots:
            for n in range(1, 5):
                for pos in range(n):
                    files = [{"kind": rng.choice(["py", "cpp", "html", "csv"]), "dir": rng.choice(DIRS)} for _ in range(n)]
                    files[pos] = {"kind": "lat", "dir": rng.choice(DIRS)}
                    if rng.random() < 0.3:
                        files[pos]["sib"] = rng.choice(["e", "i"])
                    case = {"files": files, "dot": [dot] if dot else [], "skip_existing": rng.random() < 0.3}
                    yield self._finish(rng, case, "not-utf8", [int(i == pos) for i in range(n)])
        # 2b. outside the theorems' hypothesis `Separate`: FILE and its existing FILE.license both named
        for tmpl in (None, "bad"):
            for dot in (None, "force"):
                for kind in ("py", "c", "csv"):
                    files = [{"kind": kind, "dir": "", "sib": "e"}, {"kind": "py", "dir": "src/"}]
                    case = self._finish(rng, {"files": files, "dot": [dot] if dot else [], "template": tmpl}, "not-separate", [0, 0])
                    case["named"] = [fname(0, files[0]), fname(0, files[0]) + ".license", fname(1, files[1])]
                    rng.shuffle(case["named"])
                    yield case
        # 3. usage errors at every position
        usage = ["mutex-line", "mutex-year", "mutex-force-fallback", "mutex-force-skip", "mutex-fallback-skip", "mutex-style-skip",
                 "noinfo", "nopath", "single-unsupported", "multi-unsupported", "template-missing", "sibling-line-mode"]
        for u in usage:
            for n in range(1, 5 if thorough else 4):
                for pos in range(n):
                    files = [{"kind": rng.choice(["cpp", "jl"]), "dir": rng.choice(DIRS)} for _ in range(n)]
                    case = {"files": files, "dot": []}
                    if rng.random() < 0.5:
                        case["terms"] = ["*/"]
                    if u == "mutex-line":
                        case.update(multi=True, single=True)
                    elif u == "mutex-year":
                        case.update(years=True, exclude_year=True)
                    elif u.startswith("mutex-") and u != "mutex-style-skip":
                        case["dot"] = u.split("-")[1:]
                    elif u == "mutex-style-skip":
                        case.update(style="python", dot=["skip"])
                    elif u == "noinfo":
                        case["noinfo"] = True
                    elif u == "single-unsupported":
                        case["single"] = True
                        files[pos] = {"kind": rng.choice(["c", "html", "csv"]), "dir": ""}
                    elif u == "multi-unsupported":
                        case["multi"] = True
                        files[pos] = {"kind": rng.choice(["py", "png"]), "dir": ""}
                    elif u == "template-missing":
                        case["template"] = "missing"
                    elif u == "sibling-line-mode":
                        case["multi"] = True
                        files[pos]["sib"] = "e"
                    self._finish(rng, case, "usage:" + u, [int(i == pos) for i in range(n)])
                    if u == "nopath":
                        case["named"].insert(pos, "src/nosuch.py")
                    yield case
        # 4. --recursive over directories
        for _ in range(60 if thorough else 12):
            n = rng.randint(2, 6)
            mask = [rng.randint(0, 1) for _ in range(n)]
            dot = rng.choice(dots)
            case = rng.choice([self._terminator_case, self._template_case])(rng, n, mask, dot)
            self._finish(rng, case, "recursive", mask)
            if case.get("multi") or (not dot and not case.get("style")):
                # bystander.py / other.txt would turn the run into a usage error: that is exercised too, but rarely
                if rng.random() < 0.7:
                    continue
            case["recursive"] = True
            case["named"] = rng.choice([["."], ["src"], ["src/deep"] + [x for x in case["named"] if not x.startswith("src/deep/")]])
            yield case
        # 5. random mixtures
        for _ in range(2500 if thorough else 150):
            n = rng.randint(1, 6)
            files = []
            for _i in range(n):
                f = {"kind": rng.choice(list(KINDS)), "dir": rng.choice(DIRS)}
                r = rng.random()
                if r < 0.15:
                    f["sib"] = "e"
                elif r < 0.3:
                    f["sib"] = "i"
                if rng.random() < 0.2:
                    f["own"] = "i"
                files.append(f)
            case = {"files": files, "dot": rng.choice([[], [], ["force"], ["fallback"], ["skip"]]),
                    "multi": rng.random() < 0.25, "single": rng.random() < 0.1,
                    "terms": rng.sample(["*/", "-->", "*)", "=#"], rng.randint(0, 2)),
                    "template": rng.choice([None, None, None, "bad", "good"]),
                    "skip_existing": rng.random() < 0.3,
                    "style": rng.choice([None] * 5 + list(FORCED))}
            yield self._finish(rng, case, "random", [0] * n)

    # -- implementation -----------------------------------------------------
    def impl(self, case):
        files = tree_of(case)
        with cli.scratch("rv-c11-") as root:
            cli.write_tree(root, files)
            for dp, dn, fn in os.walk(root):
                for f in fn + dn:
                    os.utime(os.path.join(dp, f), ns=(10**18, 10**18), follow_symlinks=False)
            s0 = meta_snapshot(root)
            code, out, exc = cli.run_cli(argv_of(case), root)
            s1 = meta_snapshot(root)
        self.side[json.dumps(case, sort_keys=True)] = (s0, s1)
        if exc is not None:
            return "EXC:%s:%s" % (type(exc).__name__, str(exc)[:100])
        return "%d|%s" % (code, " ".join(changes(s0, s1)))

    # -- model ----------------------------------------------------------------
    def model_lines(self, case):
        files = tree_of(case)
        dirs = set()
        for n in files:
            d = os.path.dirname(n)
            while d:
                dirs.add(d)
                d = os.path.dirname(d)
        fs = ["F%s\n%s" % (n, "x" if c == LATIN1 else "" if isinstance(c, bytes) else ("I" if "SPDX-" in c else ("x" if c else ""))) for n, c in files.items()]
        fs += ["D%s\n" % d for d in sorted(dirs)] + ["D.\n"]
        cand = []
        for n in files:
            cand += [n, n + ".license", n + ".license.license"]
        cand = sorted(set(cand))
        styles = []
        for p in cand:
            st = style_of_path(case, p)
            if st is not None:
                styles.append("%d%d%d%s" % (st[0], st[1], st[3], p))
        binary = [n for n, c in files.items() if isinstance(c, bytes) and c != LATIN1]
        failing = []
        for p in cand:
            k = header_fails(case, p)
            if k:
                failing.append(k + p)
        below = ["\n".join([d] + covered_below(case, d)) for d in sorted(dirs) + ["."]]
        world = ["1" if case.get("template") in ("bad", "good") else "0", "LICENSES"]
        flags = [not case.get("noinfo"), case.get("years"), case.get("exclude_year"), case.get("single"), case.get("multi"),
                 case.get("recursive"), "force" in case["dot"], "fallback" in case["dot"], "skip" in case["dot"], case.get("skip_existing")]
        st = case.get("style")
        cmd = "A:%s:%s:%s:%s" % ("".join("1" if f else "0" for f in flags), "%d%d" % FORCED[st][:2] if st else "-",
                                 enc(case["template"]) if case.get("template") else "-", enc_list(case["named"]))
        return ["\t".join(["eff", enc_list(fs), enc_list(styles), enc_list(binary), enc_list(failing), enc_list(below),
                           enc_list(world), enc_list(cand), cmd])]

    def model_out(self, case, outs):
        ex, _, ch = outs[0].partition("|")
        from core import dec
        items = sorted((dec(x[1:]), x[0]) for x in ch.split(" ") if x)
        return "%s|%s" % (ex, " ".join(k + p for p, k in sorted(items, key=lambda t: t[0])))

    # -- oracle: the clauses of the property text over the snapshot diff ----------
    def oracle(self, case, impl_out):
        if impl_out.startswith("EXC"):
            return "traceback: " + impl_out
        s0, s1 = self.side[json.dumps(case, sort_keys=True)]
        code = int(impl_out.split("|")[0])
        pl = plan(case)
        diff = {k for k in set(s0) | set(s1) if s0.get(k) != s1.get(k)}
        if pl == "usage":
            if code != 2:
                return "usage-exit: a usage error is expected, exit status is %d" % code
            if diff:
                return "usage-touched: exit status 2 but the tree changed: %s" % sorted(diff)
            return None
        if code == 2:
            return "unexpected-usage-error: exit status 2 for a well-formed invocation"
        accounted = set()
        for n, t, status in pl:
            pair = {n, n + ".license", t}
            accounted |= pair
            if status in ("fail", "skip"):
                for p in sorted(pair):
                    # a failed file is left "exactly as it was" (type, bytes, mode, mtime); for a skipped one the
                    # property text says nothing about time stamps
                    same = s0.get(p) == s1.get(p) if status == "fail" else (s0.get(p) or ())[:2] == (s1.get(p) or ())[:2]
                    if not same:
                        what = "created" if p not in s0 else "removed" if p not in s1 else \
                            "rewritten" if s0[p][:2] != s1[p][:2] else "touched (mode/mtime)"
                        return "%s-not-unchanged: header creation for %s %s, yet %s was %s" % (
                            "failed" if status == "fail" else "skipped", n, "fails" if status == "fail" else "is skipped", p, what)
            else:
                new = s1.get(t)
                if new is None or new[0] != "file" or b"Jane" not in new[1] or b"SPDX-License-Identifier: MIT" not in new[1]:
                    return "not-processed: %s should have received the header in %s (other files of the invocation failed: %s)" % (
                        n, t, [x for x, _, s in pl if s == "fail"])
                for p in pair - {t}:
                    if s0.get(p) != s1.get(p):
                        return "wrong-file-written: header of %s belongs in %s but %s changed" % (n, t, p)
        stray = diff - accounted
        if stray:
            return "stray-change: paths outside the named files and their siblings changed: %s" % sorted(stray)
        want = 1 if any(s == "fail" for _, _, s in pl) else 0
        if code != want:
            return "exit-status: %d, expected %d (failing files: %s)" % (code, want, [x for x, _, s in pl if s == "fail"])
        return None

    def classify(self, case, failure):
        return None

    def nontrivial(self, case, impl_out):
        pl = plan(case)
        if pl == "usage":
            return ("usage", case.get("reason"), case.get("mask"))
        st = "".join({"ok": "o", "fail": "F", "skip": "s"}[s] for _, _, s in pl)
        if "F" not in st and case.get("reason") != "random":
            return None
        return (case.get("reason"), tuple(case.get("dot", [])), st)

    def show(self, case):
        return {"argv": argv_of(case), "files": {k: (v if isinstance(v, str) else "<binary>") for k, v in tree_of(case).items()},
                "expected": plan(case)}


import c11s11     # noqa: E402  (needs the helpers above)
import c11s14     # noqa: E402

PROPERTY = Property(
    pid="C11",
    streams=[AnnotateStream(), annot_e2e.AnnotateE2EStream()] + c11s11.STREAMS + c11s14.STREAMS,
    assumptions=[
        "the header builder (comment creation, template rendering, the post-render check) is a parameter of the model; which "
        "written paths it fails for is the generator's ground truth (multi-line terminator inside the holder, template that drops "
        "both the copyright lines and the licences, forced style)",
        "streams annotate / annotate-e2e: a template that drops only the licences (or only the copyright lines) is not generated "
        "(whether that is a failure was the subject of C07's guard repair def7e01); streams amount / amount-api (oracle-only) do "
        "generate templates whose fidelity depends on how much there is to render",
        "both --copyright and --license are always given on well-formed invocations, for the same reason",
        "the paths of one invocation are pairwise neither equal nor each other's .license sibling (hypothesis `separate` of the "
        "theorems; naming FILE and FILE.license together processes FILE.license twice)",
        "no symbolic link sits at a .license sibling position (the model's file system has no write-through; C15 covers links)",
        "comment style by file name, binary detection and `contains_reuse_info` are oracles of the model fed from the generator's table "
        "(stream annotate); in the composed model (stream annotate-e2e, Model/AnnotateE2E.lean) they are the text-level models "
        "themselves: the generated style tables, `Model.annotateFile`, `Model.containsReuseInfo`, the covered-files walk; what stays "
        "an oracle there: binaryornot, license-expression (parses / prints), Jinja (rendering of a found template), the clock",
        "annotate-e2e: no directory sits at a .license position; a path is not named both directly and through a directory given "
        "with --recursive (the tool then processes it twice: `all_paths` holds it once relative, once resolved); holders, "
        "contributors and licences contain no line break",
    ],
)
