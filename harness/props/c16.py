"""C16 — malformed input yields a diagnostic and a defined exit status, never a crash.

Value trees are JSON-able: ["s", text] ["i", n] ["f", x] ["b", bool] ["d", toml-literal]
["a", [values]] ["t", [[key, value], ...]].
"""
import contextlib
import json
import logging
import os
import re

from core import Property, Stream, enc, dec, enc_list, dec_list, enc_opt
import cli

logging.getLogger("debian").setLevel(logging.ERROR)  # python-debian chats about unknown Format URLs

SRC = "SRC/REUSE.toml"
K_PATH, K_PREC, K_CP, K_LIC = "path", "precedence", "SPDX-FileCopyrightText", "SPDX-License-Identifier"
ITEM_KEYS = [K_PATH, K_PREC, K_CP, K_LIC]


# --------------------------------------------------------------------------
# value trees: to TOML text, to driver tokens


def S(x):
    return ["s", x]


def I(x):
    return ["i", x]


def A(*xs):
    return ["a", list(xs)]


def T(*kvs):
    return ["t", [list(kv) for kv in kvs]]


def toml_str(s):
    out = ['"']
    for ch in s:
        o = ord(ch)
        if ch == '"' or ch == "\\":
            out.append("\\" + ch)
        elif o < 0x20 or o == 0x7F:
            out.append("\\u%04x" % o)
        else:
            out.append(ch)
    out.append('"')
    return "".join(out)


def to_toml(v):
    k, x = v
    if k == "s":
        return toml_str(x)
    if k == "i":
        return str(x)
    if k == "f":
        return x if isinstance(x, str) else repr(float(x))
    if k == "b":
        return "true" if x else "false"
    if k == "d":
        return x
    if k == "a":
        return "[" + ", ".join(to_toml(e) for e in x) + "]"
    if k == "t":
        return "{" + ", ".join("%s = %s" % (toml_str(kk), to_toml(vv)) for kk, vv in x) + "}"
    raise ValueError(k)


def doc_to_toml(doc, style):
    """doc: a ["t", …] tree.  style 'inline': one `key = value` line per key;
    'sections': top-level tables as [key], arrays of tables as [[key]] (tomlkit
    builds different classes for the two spellings)."""
    lines, sections = [], []
    for key, val in doc[1]:
        if style == "sections" and val[0] == "t":
            sections.append("[%s]" % toml_str(key))
            sections.extend("%s = %s" % (toml_str(k), to_toml(v)) for k, v in val[1])
        elif style == "sections" and val[0] == "a" and val[1] and all(e[0] == "t" for e in val[1]):
            for e in val[1]:
                sections.append("[[%s]]" % toml_str(key))
                sections.extend("%s = %s" % (toml_str(k), to_toml(v)) for k, v in e[1])
        else:
            lines.append("%s = %s" % (toml_str(key), to_toml(val)))
    return "\n".join(lines + sections) + "\n"


def to_tokens(v):
    k, x = v
    if k == "s":
        return ["s:" + enc(x)]
    if k == "i":
        return ["i:%d" % x]
    if k == "f":
        return ["f"]
    if k == "b":
        return ["b:%d" % (1 if x else 0)]
    if k == "d":
        return ["d"]
    if k == "a":
        out = ["a:%d" % len(x)]
        for e in x:
            out.extend(to_tokens(e))
        return out
    out = ["t:%d" % len(x)]
    for kk, vv in x:
        out.append("k:" + enc(kk))
        out.extend(to_tokens(vv))
    return out


def strings_of(v, acc):
    k, x = v
    if k == "s":
        acc.add(x)
    elif k == "a":
        for e in x:
            strings_of(e, acc)
    elif k == "t":
        for kk, vv in x:
            acc.add(kk)
            strings_of(vv, acc)
    return acc


_EXPR_CACHE = {}


def expr_class(s):
    """The oracle parameter of the model: what the real Licensing.parse does with a string."""
    if s not in _EXPR_CACHE:
        from reuse import _LICENSING
        from boolean.boolean import ParseError
        from license_expression import ExpressionError

        try:
            r = _LICENSING.parse(s)
            _EXPR_CACHE[s] = "n" if r is None else "e"
        except (ExpressionError, ParseError):
            _EXPR_CACHE[s] = "b"
    return _EXPR_CACHE[s]


def oracle_fields(trees):
    acc = set()
    for t in trees:
        strings_of(t, acc)
    texts = sorted(acc)
    return enc_list(texts), "".join(expr_class(s) for s in texts)


def outcome_of_from_toml(text):
    from reuse.global_licensing import ReuseTOML
    from reuse.exceptions import GlobalLicensingParseError

    try:
        r = ReuseTOML.from_toml(text, SRC)
    except GlobalLicensingParseError as e:
        kind = "type" if isinstance(e, TypeError) else "value" if isinstance(e, ValueError) else "generic"
        return "parse:%s:%s" % (kind, enc_opt(e.source if isinstance(e.source, str) or e.source is None else repr(e.source)))
    except Exception as e:  # noqa
        return "crash:" + type(e).__name__
    items = []
    for it in r.annotations:
        items.append("P%s R%s C%s" % (enc_list(sorted(it.paths)), it.precedence.value, enc_list(sorted(it.copyright_lines))))
    return " ".join(["ok", repr(r.version), str(len(items))] + items)


def canon_model_toml(out):
    """Sets travel as lists: sort and de-duplicate; the expression count is not compared
    (the code keeps parsed expressions, equal ones collapse)."""
    if not out.startswith("ok "):
        return out
    toks = out.split(" ")
    res = toks[:3]
    for k in range(3, len(toks), 4):
        p, r, c, _e = toks[k:k + 4]
        res += ["P" + enc_list(sorted(set(dec_list(p[1:])))), r, "C" + enc_list(sorted(set(dec_list(c[1:]))))]
    return " ".join(res)


# --------------------------------------------------------------------------
# ground truth from the REUSE.toml specification (independent of model and code)


def spec_valid(doc):
    """The document is one the specification describes: version an integer, annotations an
    array of tables, path a non-empty string / array of strings, precedence one of the three
    literals, copyright a string / array of strings, licence a string / array of strings that
    are SPDX expressions."""
    d = dict((k, v) for k, v in doc[1])
    if "version" not in d or d["version"][0] != "i":
        return False
    ann = d.get("annotations", A())
    if ann[0] != "a":
        return False
    for it in ann[1]:
        if it[0] != "t":
            return False
        f = dict((k, v) for k, v in it[1])

        def strs(v):
            if v[0] == "s":
                return [v[1]]
            if v[0] == "a" and all(e[0] == "s" for e in v[1]):
                return [e[1] for e in v[1]]
            return None

        p = strs(f[K_PATH]) if K_PATH in f else None
        if not p:
            return False
        if K_PREC in f and not (f[K_PREC][0] == "s" and f[K_PREC][1] in ("aggregate", "closest", "override")):
            return False
        if K_CP in f and strs(f[K_CP]) is None:
            return False
        if K_LIC in f:
            l = strs(f[K_LIC])
            if l is None or any(expr_class(x) != "e" for x in l):
                return False
    return True


def judge_toml_outcome(doc, out):
    if out.startswith("crash") or out.startswith("EXC"):
        return "crash: REUSE.toml validation ended in %s instead of a parse error" % out
    if out.startswith("parse"):
        if not out.endswith(":" + enc_opt(SRC)):
            return "no-source: the parse error does not carry the name of the file (%s)" % out
        if spec_valid(doc):
            return "rejects-valid: a document the specification describes is rejected (%s)" % out
    return None


# --------------------------------------------------------------------------
# stream 1: shape-complete enumeration

D_OFFSET, D_LOCAL, D_DATE, D_TIME = "1979-05-27T07:32:00Z", "1979-05-27T07:32:00", "1979-05-27", "07:32:00"

SCALARS = [
    S(""), S("a"), S("MIT"), S("MIT OR"), S(" "), S("closest"), S("override"), S("aggregate"), S("Closest"), S("src/**"),
    I(0), I(1), I(-3), I(2 ** 70),
    ["f", 1.5], ["f", "nan"], ["f", "inf"], ["b", True], ["b", False],
    ["d", D_OFFSET], ["d", D_LOCAL], ["d", D_DATE], ["d", D_TIME],
]
ARRAYS = [
    A(), A(S("a")), A(S("a"), S("b")), A(S("a"), S("a")), A(S("MIT"), S("MIT OR")), A(S("MIT"), S("0BSD")), A(S("")), A(I(1)), A(["f", 1.5]),
    A(["b", True]), A(["d", D_DATE]), A(S("a"), I(1)), A(I(1), S("a")), A(A()), A(A(S("a"))), A(S("b"), A(S("a"))), A(T()), A(T(("a", I(1)))),
    A(T((K_PATH, S("a")))), A(T((K_PATH, S("a"))), S("x")), A(S("x"), T((K_PATH, S("a")))), A(A(A(S("a")))),
    A(T((K_PATH, A(A(S("a")))))), A(T((K_PATH, S("a")), (K_PREC, S("bad")))), A(T((K_PATH, S("a")), (K_LIC, S("MIT OR")))),
]
TABLES = [
    T(), T(("a", I(1))), T((K_PATH, S("a"))), T(("MIT", I(1))), T(("MIT OR", I(1))), T(("a", A(I(1)))), T(("a", T(("b", I(1))))),
    T(("a", T(("b", T(("c", A(T()))))))), T(("", S(""))),
]
SHAPES = SCALARS + ARRAYS + TABLES
GOOD_ITEM = [[K_PATH, S("x")], [K_PREC, S("closest")], [K_CP, S("2020 Jane")], [K_LIC, S("MIT")]]


def item_with(key, shape, others=True):
    kv = [list(x) for x in GOOD_ITEM if x[0] != key] if others else ([] if key == K_PATH else [[K_PATH, S("x")]])
    if shape is not None:
        kv.append([key, shape])
    return ["t", kv]


def single_fault_docs():
    V1 = ["version", I(1)]
    good = ["t", [list(x) for x in GOOD_ITEM]]
    for sh in SHAPES:
        yield ["t", [["version", sh], ["annotations", A(good)]]]
        yield ["t", [["version", sh]]]
        yield ["t", [V1, ["annotations", sh]]]
        yield ["t", [["annotations", sh]]]
        yield ["t", [V1, ["annotations", A(good)], ["other", sh]]]
        yield ["t", [V1, ["annotations", A(good, sh)]]]
        yield ["t", [V1, ["annotations", A(sh, good)]]]
        for key in ITEM_KEYS + ["other"]:
            yield ["t", [V1, ["annotations", A(item_with(key, sh))]]]
            yield ["t", [V1, ["annotations", A(item_with(key, sh, others=False))]]]
            yield ["t", [V1, ["annotations", A(good, item_with(key, sh))]]]
    for key in ITEM_KEYS:
        yield ["t", [V1, ["annotations", A(item_with(key, None))]]]
    yield ["t", []]
    yield ["t", [["annotations", A(good)]]]
    yield ["t", [V1]]


class ShapeStream(Stream):
    name = "shapes"
    exhaustive = True
    rule = ("every key (version, annotations, path, precedence, SPDX-FileCopyrightText, SPDX-License-Identifier, an unknown key) x "
            "every TOML type and one/two levels of nesting (%d value shapes: strings, integers, floats incl. nan/inf, booleans, four "
            "date-time kinds, arrays of each type / mixed / of arrays / of tables, inline and section tables), with the other keys valid, "
            "absent, or in a neighbouring table; both spellings (inline / [section], [[array of tables]]); thorough adds every pair of "
            "item keys x shapes (quick: a seeded sample of pairs): real ReuseTOML.from_toml vs the model on the same value tree; "
            "outcome = ok + canonical content | parse-error kind + source | crash:<Class>; non-trivial = distinct (context, outcome)" % len(SHAPES))

    def cases(self, tier, rng):
        for doc in single_fault_docs():
            for style in ("inline", "sections"):
                yield {"doc": doc, "style": style}
        V1 = ["version", I(1)]
        pairs = []
        for i, k1 in enumerate(ITEM_KEYS):
            for k2 in ITEM_KEYS[i + 1:]:
                for s1 in SHAPES:
                    for s2 in SHAPES:
                        pairs.append((k1, s1, k2, s2))
        for s1 in SHAPES:
            for s2 in SHAPES:
                pairs.append(("version", s1, "annotations", s2))
        if tier != "thorough":
            pairs = rng.sample(pairs, 1500)
        for k1, s1, k2, s2 in pairs:
            if k1 == "version":
                doc = ["t", [[k1, s1], [k2, s2]]]
            else:
                kv = [list(x) for x in GOOD_ITEM if x[0] not in (k1, k2)] + [[k1, s1], [k2, s2]]
                doc = ["t", [V1, ["annotations", A(["t", kv])]]]
            yield {"doc": doc, "style": "sections" if rng.random() < 0.5 else "inline"}

    def impl(self, case):
        return outcome_of_from_toml(doc_to_toml(case["doc"], case["style"]))

    def model_lines(self, case):
        texts, codes = oracle_fields([case["doc"]])
        return ["fromdict\t%s\t%s\t%s\t%s" % (enc(SRC), texts, codes, " ".join(to_tokens(case["doc"])))]

    def model_out(self, case, outs):
        return canon_model_toml(outs[0])

    def oracle(self, case, impl_out):
        return judge_toml_outcome(case["doc"], impl_out)

    def nontrivial(self, case, impl_out):
        keys = tuple(k for k, _ in case["doc"][1])
        return (keys, impl_out[:40])

    def show(self, case):
        return {"toml": doc_to_toml(case["doc"], case["style"])}


# --------------------------------------------------------------------------
# stream 2: random value trees of any depth


def rand_tree(rng, depth):
    r = rng.random()
    if depth <= 0 or r < 0.45:
        return rng.choice(SCALARS)
    if r < 0.75:
        return ["a", [rand_tree(rng, depth - 1) for _ in range(rng.randint(0, 3))]]
    keys = rng.sample(ITEM_KEYS + ["a", "b", "MIT", "version", "annotations"], rng.randint(0, 4))
    return ["t", [[k, rand_tree(rng, depth - 1)] for k in keys]]


def rand_item(rng):
    kv = []
    for key in ITEM_KEYS:
        r = rng.random()
        if r < 0.15:
            continue
        if r < 0.7:
            good = dict((k, v) for k, v in GOOD_ITEM)[key]
            kv.append([key, rng.choice([good, A(good), A(good, good)])])
        else:
            kv.append([key, rand_tree(rng, 3)])
    if rng.random() < 0.2:
        kv.append(["extra", rand_tree(rng, 2)])
    rng.shuffle(kv)
    return ["t", kv]


def rand_doc(rng):
    kv = []
    r = rng.random()
    if r < 0.8:
        kv.append(["version", I(1) if rng.random() < 0.8 else rand_tree(rng, 2)])
    r = rng.random()
    if r < 0.7:
        kv.append(["annotations", ["a", [rand_item(rng) if rng.random() < 0.85 else rand_tree(rng, 3) for _ in range(rng.randint(0, 3))]]])
    elif r < 0.9:
        kv.append(["annotations", rand_tree(rng, 4)])
    if rng.random() < 0.2:
        kv.append(["zzz", rand_tree(rng, 4)])
    rng.shuffle(kv)
    return ["t", kv]


class TreeStream(ShapeStream):
    name = "trees"
    exhaustive = False
    rule = ("seeded random REUSE.toml value trees (depth <= 5, keys in any order, near-valid items mixed with arbitrary subtrees; "
            "quick 2000 / thorough 25000), both spellings: real ReuseTOML.from_toml vs the model; non-trivial = distinct outcome")

    def cases(self, tier, rng):
        n = 25000 if tier == "thorough" else 2000
        for _ in range(n):
            yield {"doc": rand_doc(rng), "style": "sections" if rng.random() < 0.5 else "inline"}

    def nontrivial(self, case, impl_out):
        return impl_out[:60]


# --------------------------------------------------------------------------
# stream 3: bytes of the two configuration files (tomlkit / python-debian / codecs are oracles here)

TOML_OK = ('version = 1\n\n[[annotations]]\npath = ["data/**", "docs/*.md"]\nprecedence = "aggregate"\n'
           'SPDX-FileCopyrightText = "2020 Jane Doe"\nSPDX-License-Identifier = "MIT"\n\n'
           '[[annotations]]\npath = "src/\\\\*.c"\nSPDX-FileCopyrightText = ["2021 A", "2022 B"]\nSPDX-License-Identifier = "MIT OR 0BSD"\n')
DEP5_OK = ("Format: https://www.debian.org/doc/packaging-manuals/copyright-format/1.0/\nUpstream-Name: demo\n"
           "Upstream-Contact: Jane <jane@example.com>\nSource: https://example.com/demo\n\n"
           "Files: data/*\nCopyright: 2020 Jane Doe\n 2021 Someone Else\nLicense: MIT\n\n"
           "Files: docs/*.md src/*\nCopyright: 2021 A\nLicense: MIT or 0BSD\nComment: text\n .\n more text\n")
INSERTS = [b"\x00", b"\xff", b"\xc3", b"\xed\xa0\x80", b"\n", b"\r", b"[", b"]]", b"=", b'"', b"'''", b"\\", b"{", b",", b"#", b" ", b"\t",
           b":", b"\n\n", b"\n ", b"Files:", b"1979-05-27", b"\xef\xbb\xbf", b"x" * 70000]


def mutate(base, rng):
    b = bytearray(base)
    for _ in range(rng.choice([1, 1, 1, 2, 3])):
        r = rng.random()
        pos = rng.randint(0, len(b))
        if r < 0.25:
            del b[pos:]
        elif r < 0.5:
            b[pos:pos] = rng.choice(INSERTS)
        elif r < 0.65 and len(b):
            del b[pos:pos + rng.randint(1, 6)]
        elif r < 0.8 and len(b):
            q = rng.randint(0, len(b) - 1)
            b[q] = rng.randint(0, 255)
        elif r < 0.9:
            lines = bytes(b).split(b"\n")
            i = rng.randrange(len(lines))
            lines.insert(rng.randrange(len(lines) + 1), lines[i])
            b = bytearray(b"\n".join(lines))
        else:
            lines = bytes(b).split(b"\n")
            rng.shuffle(lines)
            b = bytearray(b"\n".join(lines))
    return bytes(b)


class BytesStream(Stream):
    name = "bytes"
    rule = ("REUSE.toml and .reuse/dep5 as bytes: every truncation of a valid file, seeded mutations (NUL, invalid UTF-8, lone "
            "surrogates, BOM, brackets, quotes, 70 kB runs, duplicated / shuffled lines; quick 700 / thorough 8000 per file kind), "
            "1 MB lines: real ReuseTOML.from_file / ReuseDep5.from_file on a scratch file; outcome = ok | parse-error + source | "
            "crash:<Class>; tomlkit, python-debian and the UTF-8 codec are oracles of the model, so this stream has an oracle only")

    def cases(self, tier, rng):
        n = 8000 if tier == "thorough" else 700
        for kind, base in (("toml", TOML_OK.encode()), ("dep5", DEP5_OK.encode())):
            step = 1 if tier == "thorough" else 3
            for i in range(0, len(base), step):
                yield {"kind": kind, "hex": base[:i].hex()}
            for _ in range(n):
                yield {"kind": kind, "hex": mutate(base, rng).hex()}
            yield {"kind": kind, "hex": (base + b"# " + b"x" * (1 << 20) + b"\n").hex()}
            yield {"kind": kind, "hex": (b"x" * (1 << 20) + base).hex()}
            yield {"kind": kind, "hex": (base.replace(b"MIT", b"M" * (1 << 20), 1)).hex()}

    _dir = None

    def impl(self, case):
        from reuse.global_licensing import ReuseTOML, ReuseDep5
        from reuse.exceptions import GlobalLicensingParseError

        if BytesStream._dir is None or not os.path.isdir(BytesStream._dir):
            import atexit, shutil, tempfile
            BytesStream._dir = tempfile.mkdtemp(prefix="rv-c16b-", dir=cli.SCRATCH_BASE)
            atexit.register(shutil.rmtree, BytesStream._dir, True)
        name = "REUSE.toml" if case["kind"] == "toml" else "dep5"
        p = os.path.join(BytesStream._dir, name)
        with open(p, "wb") as fp:
            fp.write(bytes.fromhex(case["hex"]))
        try:
            (ReuseTOML if case["kind"] == "toml" else ReuseDep5).from_file(p)
            return "ok"
        except GlobalLicensingParseError as e:
            return "parse:" + ("named" if e.source == p else "source=%r" % (e.source,))
        except Exception as e:  # noqa
            return "crash:" + type(e).__name__

    def oracle(self, case, impl_out):
        if impl_out.startswith(("crash", "EXC")):
            return "crash: reading the configuration file ended in %s instead of a parse error" % impl_out
        if impl_out.startswith("parse") and impl_out != "parse:named":
            return "no-source: the parse error does not name the file (%s)" % impl_out
        return None

    def nontrivial(self, case, impl_out):
        return (case["kind"], impl_out, len(case["hex"]) % 97)

    def show(self, case):
        b = bytes.fromhex(case["hex"])
        return {"kind": case["kind"], "bytes": repr(b[:300]) + ("… (%d bytes)" % len(b) if len(b) > 300 else "")}


# --------------------------------------------------------------------------
# stream 4: whole projects through the real command line

HDR = "# SPDX-FileCopyrightText: 2020 Jane\n# SPDX-License-Identifier: MIT\n"
CLI_TOML_OK = 'version = 1\n[[annotations]]\npath = "data/**"\nSPDX-FileCopyrightText = "2020 Jane"\nSPDX-License-Identifier = "MIT"\n'
CLI_DEP5_OK = ("Format: https://www.debian.org/doc/packaging-manuals/copyright-format/1.0/\nUpstream-Name: demo\n\n"
               "Files: data/*\nCopyright: 2020 Jane\nLicense: MIT\n")
V1 = ["version", I(1)]
TOML_REL, DEP5_REL = "REUSE.toml", ".reuse/dep5"


def _doc(*kvs):
    return ["t", [list(kv) for kv in kvs]]


# name -> (files, tomls [(rel, kind)], dep5 kind or None); kind for tomls: "o"/"u"/"x"/doc tree; the kinds are the
# generator's ground truth ("this file is broken in this way"), not read off the code under test.
def configs():
    ok_doc = _doc(V1, ["annotations", A(T((K_PATH, S("data/**")), (K_CP, S("2020 Jane")), (K_LIC, S("MIT"))))])
    C = {}

    def toml(name, content, kind, extra=None):
        files = {TOML_REL: content}
        files.update(extra or {})
        C[name] = (files, [(TOML_REL, kind)], None)

    def dep5(name, content, kind):
        C[name] = ({DEP5_REL: content}, [], kind)

    C["none"] = ({}, [], None)
    toml("toml-ok", CLI_TOML_OK, ok_doc)
    toml("toml-syntax-value", "version = \n", "x")
    toml("toml-syntax-bracket", "[[annotations]\n", "x")
    toml("toml-dupkey", "version = 1\nversion = 2\n", "x")
    toml("toml-unterminated", 'version = 1\n[[annotations]]\npath = "abc\n', "x")
    toml("toml-garbage", "\x01\x02 not toml at all \x7f\n", "x")
    toml("toml-utf8", b"version = 1\n# \xff\xfe\n", "u")
    toml("toml-latin1", "version = 1\n# caf\xe9\n".encode("latin-1"), "u")
    toml("toml-utf16", "version = 1\n".encode("utf-16"), "u")
    toml("toml-nul", b"version = 1\n\x00\x00", "x")
    toml("toml-nul-in-string", b'version = 1\n[[annotations]]\npath = "a\x00b"\n', "x")
    toml("toml-long-comment", CLI_TOML_OK + "# " + "x" * (1 << 20) + "\n", ok_doc)
    toml("toml-long-garbage", "version = " + "x" * (1 << 20) + "\n", "x")
    toml("toml-deep", "version = 1\nx = " + "[" * 3000 + "]" * 3000 + "\n", "x")
    shape_docs = {
        "toml-annotations-int": _doc(V1, ["annotations", I(5)]),
        "toml-annotations-strings": _doc(V1, ["annotations", A(S("x"))]),
        "toml-annotations-table": _doc(V1, ["annotations", T((K_PATH, S("a")))]),
        "toml-path-nested": _doc(V1, ["annotations", A(T((K_PATH, A(A(S("a"))))))]),
        "toml-copyright-tables": _doc(V1, ["annotations", A(T((K_PATH, S("a")), (K_CP, A(T(("a", I(1)))))))]),
        "toml-licence-nested": _doc(V1, ["annotations", A(T((K_PATH, S("a")), (K_LIC, A(A(I(5))))))]),
        "toml-bad-expression": _doc(V1, ["annotations", A(T((K_PATH, S("a")), (K_LIC, S("MIT OR"))))]),
        "toml-blank-expression": _doc(V1, ["annotations", A(T((K_PATH, S("a")), (K_LIC, S(""))))]),
        "toml-version-string": _doc(["version", S("1")], ["annotations", A()]),
        "toml-no-version": _doc(["annotations", A()]),
        "toml-path-missing": _doc(V1, ["annotations", A(T((K_LIC, S("MIT"))))]),
        "toml-bad-precedence": _doc(V1, ["annotations", A(T((K_PATH, S("a")), (K_PREC, S("nearest"))))]),
    }
    for name, d in shape_docs.items():
        toml(name, doc_to_toml(d, "sections"), d)
    C["toml-nested-broken"] = ({TOML_REL: CLI_TOML_OK, "sub/REUSE.toml": "version = \n", "sub/x.py": HDR}, [(TOML_REL, ok_doc), ("sub/REUSE.toml", "x")], None)
    C["toml-nested-undecodable"] = ({TOML_REL: CLI_TOML_OK, "sub/REUSE.toml": b"\xff", "sub/x.py": HDR}, [(TOML_REL, ok_doc), ("sub/REUSE.toml", "u")], None)
    C["toml-nested-shape"] = ({TOML_REL: CLI_TOML_OK, "sub/REUSE.toml": "version = 1\nannotations = 5\n", "sub/x.py": HDR},
                              [(TOML_REL, ok_doc), ("sub/REUSE.toml", shape_docs["toml-annotations-int"])], None)
    dep5("dep5-ok", CLI_DEP5_OK, "g")
    dep5("dep5-garbage", "garbage\n", "e")
    dep5("dep5-no-format", "Files: *\nCopyright: x\nLicense: MIT\n", "e")
    dep5("dep5-continuation", CLI_DEP5_OK + " \n continuation\n\n\nFiles:\n", "e")
    dep5("dep5-duplicate-field", CLI_DEP5_OK + "Copyright: again\n", "e")
    dep5("dep5-no-license", CLI_DEP5_OK.replace("License: MIT\n", ""), "e")
    dep5("dep5-no-copyright", CLI_DEP5_OK.replace("Copyright: 2020 Jane\n", ""), "e")
    dep5("dep5-empty", "", "e")
    dep5("dep5-utf8", CLI_DEP5_OK.encode() + b"Comment: \xff\xfe\n", "u")
    dep5("dep5-latin1", (CLI_DEP5_OK + "Comment: caf\xe9\n").encode("latin-1"), "u")
    dep5("dep5-nul", CLI_DEP5_OK.encode() + b"Comment: \x00\x00\n", "g")
    dep5("dep5-long", CLI_DEP5_OK + "Comment: " + "x" * (1 << 20) + "\n", "g")
    dep5("dep5-bad-expression", CLI_DEP5_OK.replace("License: MIT", "License: MIT OR"), "g")
    dep5("dep5-bad-glob", CLI_DEP5_OK.replace("data/*", "data/\\x"), "g")
    C["conflict"] = ({DEP5_REL: CLI_DEP5_OK, TOML_REL: CLI_TOML_OK}, [(TOML_REL, ok_doc)], "g")
    C["conflict-both-broken"] = ({DEP5_REL: "garbage", TOML_REL: "version = "}, [(TOML_REL, "x")], "e")
    C["conflict-nested"] = ({DEP5_REL: CLI_DEP5_OK, "sub/REUSE.toml": CLI_TOML_OK, "sub/x.py": HDR}, [("sub/REUSE.toml", ok_doc)], "g")
    C["duplicate-license"] = ({"LICENSES/MIT.md": "x\n"}, [], None)
    # licence texts are project files too: whatever bytes they hold, every command must end normally (spdx copies the text
    # of a LicenseRef- licence into the document)
    lr_user = {"lr.py": "# SPDX-FileCopyrightText: 2020 J\n# SPDX-License-Identifier: LicenseRef-odd\n"}
    C["licref-text-latin1"] = (dict(lr_user, **{"LICENSES/LicenseRef-odd.txt": "caf\xe9 licence\n".encode("latin-1")}), [], None)
    C["licref-text-invalid-utf8"] = (dict(lr_user, **{"LICENSES/LicenseRef-odd.txt": b"\xff\xfe\xc3(\n"}), [], None)
    C["licref-text-nul"] = (dict(lr_user, **{"LICENSES/LicenseRef-odd.txt": b"text\x00\x00more\n"}), [], None)
    C["licref-text-binary"] = (dict(lr_user, **{"LICENSES/LicenseRef-odd.txt": bytes(range(256)) * 4}), [], None)
    C["licref-text-empty"] = (dict(lr_user, **{"LICENSES/LicenseRef-odd.txt": b""}), [], None)
    C["license-text-latin1"] = ({"LICENSES/ISC.txt": "caf\xe9 ISC\n".encode("latin-1")}, [], None)
    # very long lines in covered files: a licence tag whose identifier is longer than any file name may be
    C["long-licenseref"] = ({"long.py": "# SPDX-FileCopyrightText: 2020 J\n# SPDX-License-Identifier: LicenseRef-" + "a" * 300 + "\n"}, [], None)
    C["long-identifier"] = ({"long.py": "# SPDX-FileCopyrightText: 2020 J\n# SPDX-License-Identifier: " + "Abc-" * 200 + "1.0\n"}, [], None)
    C["long-licenseref-in-toml"] = ({TOML_REL: CLI_TOML_OK.replace('"MIT"', '"LicenseRef-' + "b" * 300 + '"')}, [(TOML_REL, ok_doc)], None)
    # a Git repository (configurations whose name begins with "git-": `git init` after the tree is written) with files the
    # VCS ignores or does not know: whatever *bytes their names* are made of — the tool asks Git for the list of ignored
    # paths and never looks at these files otherwise, so no command may end differently because of them
    ign = {".gitignore": "*.ign\nbuild/\n"}
    C["git-plain"] = (dict(ign, **{"x.ign": "x\n", "build/out.o": b"\x00"}), [], None)
    C["git-ignored-name-not-utf8"] = (dict(ign, **{"caf\udce9.ign": "x\n"}), [], None)
    C["git-ignored-name-latin1-and-utf8"] = (dict(ign, **{"r\udce9sum\udce9.ign": "x\n", "résumé.ign": "x\n"}), [], None)
    C["git-ignored-dir-content-not-utf8"] = (dict(ign, **{"build/\udcff\udcfe/o\udc80.o": b"\x00"}), [], None)
    C["git-ignored-dir-name-not-utf8"] = ({".gitignore": "b*/\n", "b\udce9ta/out.o": b"\x00"}, [], None)
    C["git-ignored-name-control-characters"] = (dict(ign, **{"new\nline.ign": "x\n", "tab\there.ign": "x\n", 'q"uote\\.ign': "x\n"}), [], None)
    C["git-ignored-name-long"] = (dict(ign, **{"n" * 250 + ".ign": "x\n"}), [], None)
    # .gitmodules is a file of the project like any other: whatever it holds, the commands end normally
    sub = '[submodule "lib"]\n'
    for name, text in (("ok", sub + "\tpath = lib\n\turl = https://example.com/lib.git\n"), ("no-path", sub + "\turl = u\n"),
                       ("empty-path", sub + "\tpath = \n"), ("path-without-value", sub + "\tpath\n"), ("path-twice", sub + "\tpath = a\n\tpath = b\n"),
                       ("path-not-utf8", sub.encode() + b"\tpath = caf\xe9\n"), ("path-with-newline", sub + '\tpath = "a\\nb"\n'),
                       ("garbage", "[[[ not a configuration file\n"), ("nul", sub.encode() + b"\tpath = a\x00b\n"), ("empty", ""),
                       ("other-key-named-path", '[other "x.path"]\n\tfoo.path\n[submodule "a"]\n\tzz.path = 1\n')):
        C["git-gitmodules-" + name] = ({".gitmodules": text, "lib/x.py": HDR}, [], None)
    return C


BASE_TREE = {
    "src/a.py": HDR + "print(1)\n", "data/d.bin": b"\x00\x01\x02", "data/t.txt": "hello\n", "LICENSES/MIT.txt": "MIT text\n",
    "latin1.py": (HDR + "# caf\xe9\n").encode("latin-1"), "badexpr.py": "# SPDX-FileCopyrightText: 2020 J\n# SPDX-License-Identifier: MIT OR\n",
    "nul.py": HDR.encode() + b"x = '\x00'\n", "rand.dat": bytes(range(256)) * 4,
}
COMMANDS = {
    "lint": ["lint"], "lint-json": ["lint", "--json"], "lint-lines": ["lint", "--lines"], "lint-quiet": ["lint", "--quiet"],
    "lint-file": ["lint-file", "src/a.py", "latin1.py", "badexpr.py", "nul.py", "rand.dat"],
    "spdx": ["spdx"], "annotate": ["annotate", "-c", "Joe", "-l", "MIT", "src/a.py"],
    "convert-dep5": ["convert-dep5"], "download-all": ["download", "--all"], "supported-licenses": ["supported-licenses"],
}
LOADS_PROJECT = {"lint", "lint-json", "lint-lines", "lint-quiet", "lint-file", "spdx", "annotate", "convert-dep5", "download-all"}


@contextlib.contextmanager
def no_network():
    import urllib.request
    from urllib.error import URLError

    orig = urllib.request.urlopen

    def refuse(*a, **k):
        raise URLError("network disabled by the harness")

    urllib.request.urlopen = refuse
    try:
        yield
    finally:
        urllib.request.urlopen = orig


def named_files(out, root, rels):
    return sorted(r for r in rels if os.path.join(root, r) in out)


class CliStream(Stream):
    name = "cli"
    exhaustive = True
    rule = ("%d project configurations (no / valid / syntactically broken / undecodable / NUL / 1 MB / 3000-deep / wrongly shaped / "
            "unparseable-expression REUSE.toml, nested REUSE.toml, the same for .reuse/dep5, dep5 + REUSE.toml conflicts, duplicate licence "
            "files, licence texts with arbitrary bytes, Git repositories with ignored files / directories whose names are not UTF-8, hold "
            "control characters or are 250 bytes long, Git repositories with well-formed and malformed .gitmodules files) x %d sub-commands of the real CLI (CliRunner) over a tree with Latin-1, NUL, binary and bad-expression files: "
            "observed = loaded | exit:2 + configuration files named | traceback:<Class>, compared with the model's loadProject/clickEnd "
            "fed the generator's description of each file; oracle from the property text" % (len(configs()), len(COMMANDS)))

    def cases(self, tier, rng):
        self.config("none")  # fill the cache in this process: the command runs happen in forked children
        cli.warm_up()
        for cname in configs():
            for cmd in COMMANDS:
                yield {"config": cname, "cmd": cmd}

    _configs = None

    def config(self, name):
        if CliStream._configs is None:
            CliStream._configs = configs()
        return CliStream._configs[name]

    def impl(self, case):
        files, tomls, dep5 = self.config(case["config"])
        rels = [r for r, _ in tomls] + ([DEP5_REL] if dep5 is not None else [])
        with cli.scratch("rv-c16-") as root, no_network():
            tree = dict(BASE_TREE)
            tree.update(files)
            cli.write_tree(root, tree)
            if case["config"].startswith("git-"):
                import subprocess
                subprocess.run(["git", "init", "-q"], cwd=root, check=True, capture_output=True)
            code, out, exc = cli.run_cli(["--no-multiprocessing"] + COMMANDS[case["cmd"]], root)
            if exc is not None:
                return "traceback:" + ("OSError" if isinstance(exc, OSError) else type(exc).__name__)
            if code == 2:
                names = named_files(out, root, rels)
                if not names and case["cmd"] == "convert-dep5" and "No '.reuse/dep5' file" in out:
                    return "loaded"
                return "exit:2:" + enc_list(names)
            if code in (0, 1):
                return "loaded"
            return "exit:%s" % code

    def model_lines(self, case):
        if case["cmd"] not in LOADS_PROJECT:
            return []
        files, tomls, dep5 = self.config(case["config"])
        texts, codes = oracle_fields([k for _, k in tomls if isinstance(k, list)])
        ents = []
        for rel, kind in tomls:
            ents.append(enc(rel) + "!" + (kind if isinstance(kind, str) else "D " + " ".join(to_tokens(kind))))
        ids = sorted(os.path.splitext(os.path.basename(p))[0] for p in list(BASE_TREE) + list(files) if p.startswith("LICENSES/"))
        return ["loadproject\t%s\t%s\t%s\t%s\t%s" % (
            texts, codes, "none" if dep5 is None else enc(DEP5_REL) + "!" + dep5, "|".join(ents) if ents else "~", enc_list(ids))]

    def model_out(self, case, outs):
        o = outs[0]
        if o.startswith("exit:2:"):
            return "exit:2:" + enc_list(sorted(dec_list(o[7:])))
        return o

    def expected_broken(self, case):
        """Ground truth from the generator: which configuration files must be named, or None when the project must load."""
        files, tomls, dep5 = self.config(case["config"])
        if dep5 is not None and tomls:
            return "conflict", [tomls[0][0], DEP5_REL]
        if dep5 is not None and dep5 != "g":
            return "broken", [DEP5_REL]
        broken = []
        for rel, kind in tomls:
            if isinstance(kind, str) or not spec_valid(kind):
                broken.append(rel)
        if broken:
            return "broken", broken
        return None

    def oracle(self, case, impl_out):
        if impl_out.startswith(("traceback", "EXC")):
            return "traceback: `reuse %s` ended in an unhandled %s" % (" ".join(COMMANDS[case["cmd"]]), impl_out.split(":", 1)[1])
        if not (impl_out == "loaded" or impl_out.startswith("exit:2:")):
            return "exit-status: outside {0, 1, 2}: %s" % impl_out
        if case["cmd"] not in LOADS_PROJECT:
            return None if impl_out == "loaded" else "exit-status: %s from a command that does not read the project" % impl_out
        exp = self.expected_broken(case)
        if exp is None:
            return None if impl_out == "loaded" else "rejects-valid: a valid configuration ends in %s" % impl_out
        what, rels = exp
        if impl_out == "loaded":
            return "accepts-broken: the %s configuration (%s) is not diagnosed" % (what, ", ".join(rels))
        named = dec_list(impl_out[7:])
        if what == "conflict":
            return None if sorted(named) == sorted(rels) else "not-named: conflict message names %s, expected %s" % (named, rels)
        if not named or not set(named) <= set(rels):
            return "not-named: exit 2 but the message names %s, broken: %s" % (named, rels)
        return None

    def classify(self, case, failure):
        if case["config"] == "duplicate-license" and failure.startswith("traceback") and "RuntimeError" in failure:
            return "duplicate-license-identifier"
        return None

    def nontrivial(self, case, impl_out):
        return (case["config"], impl_out) if case["cmd"] in LOADS_PROJECT else None


# --------------------------------------------------------------------------
# stream 5: covered files that cannot be read / decoded / parsed, at any position (lint --json and friends)

# kind -> (content or None for "vanishes between the walk and the read", model code without a global annotation)
FILE_KINDS = {
    "good": (HDR + "print(1)\n", "r11"),
    "copyright-only": ("# SPDX-FileCopyrightText: 2020 Jane\n", "r10"),
    "licence-only": ("# SPDX-License-Identifier: MIT\n", "r01"),
    "bare": ("print(1)\n", "r00"),
    "latin1": ((HDR + "# caf\xe9\n").encode("latin-1"), "r11"),
    "invalid-utf8-before-header": (b"\xff\xfe\xc3(\n" + HDR.encode(), "r11"),
    "nul": (HDR.encode() + b"x = '\x00'\n", "r11"),
    "binary": (bytes(range(256)) * 8, "r00"),
    "long-line": (HDR + "y" * (1 << 20) + "\n", "r11"),
    "long-line-first": ("#" + "y" * (1 << 20) + "\n" + HDR, "r00"),
    "bad-expression": ("# SPDX-FileCopyrightText: 2020 J\n# SPDX-License-Identifier: MIT OR\n", "e"),
    "bad-expression-paren": ("# SPDX-License-Identifier: (MIT\n", "e"),
    "vanishes": (None, "x"),
    # what os.walk lists among the files of a directory but is no regular file: nothing may open it (a FIFO without a writer blocks
    # in open() for ever); the tool's answer is "not a file": a read error
    "fifo": (None, "x"),
    "socket": (None, "x"),
    "chardev": (None, "x"),
}
SPECIAL_KINDS = ("fifo", "socket", "chardev")
LINT_VARIANTS = ["lint-json", "lint", "lint-lines", "lint-file", "spdx"]


def make_special(root, rel, what):
    """a FIFO / UNIX socket / character device (1,3) at root/rel (c14_runs.make_special: FIFO where the sandbox refuses the others)"""
    import c14_runs
    return c14_runs.make_special(root, rel, what)


def safe_snapshot(root):
    """cli.snapshot that does not open what is not a regular file (opening a FIFO would block the harness itself)"""
    import stat
    snap = {}
    for dp, dn, fn in os.walk(root):
        for n in dn + fn:
            p = os.path.join(dp, n)
            rel = os.path.relpath(p, root)
            st = os.lstat(p)
            if stat.S_ISLNK(st.st_mode):
                snap[rel] = ("link", os.readlink(p))
            elif stat.S_ISDIR(st.st_mode):
                snap[rel] = ("dir", "")
            elif stat.S_ISREG(st.st_mode):
                with open(p, "rb") as fp:
                    snap[rel] = ("file", fp.read())
            else:
                snap[rel] = ("special", b"%d" % stat.S_IFMT(st.st_mode))
    return snap


class PerFileStream(Stream):
    name = "perfile"
    MAX_TIMEOUTS = 1  # one command had to be killed: the remaining projects are not run ("skipped"), a hang costs one time limit
    rule = ("seeded lists of 3-9 covered files of %d kinds (good, partial, Latin-1, invalid UTF-8, NUL, binary, 1 MB lines, "
            "unparseable expressions, vanishing between the directory walk and the read, a FIFO without a writer / UNIX socket / character "
            "device in the place of a covered file (every fourth project has one), files under a dep5 paragraph whose licence "
            "cannot be parsed) in random order (quick 120 / thorough 1200 projects) through `reuse lint --json` (read-error set, "
            "per-file information, exit status compared with the model's generate/lintEnd fed the generator's kinds) and through "
            "lint, lint --lines, lint-file, spdx (oracle only)" % len(FILE_KINDS))

    def cases(self, tier, rng):
        n = 1200 if tier == "thorough" else 120
        kinds = sorted(FILE_KINDS)
        for i in range(n):
            k = rng.randint(3, 9)
            ks = [rng.choice(kinds) for _ in range(k)]
            if i % 3 == 0 and "vanishes" not in ks:
                ks[rng.randrange(k)] = "vanishes"
            if i % 4 == 1 and not set(ks) & set(SPECIAL_KINDS):
                ks[rng.randrange(k)] = rng.choice(SPECIAL_KINDS)
            yield {"kinds": ks, "dep5_bad": rng.random() < 0.25, "variant": LINT_VARIANTS[i % len(LINT_VARIANTS)] if i % 2 else "lint-json"}

    def layout(self, case):
        """(relative path, kind, model code) in the generator's order."""
        out = []
        for i, k in enumerate(case["kinds"]):
            d = "pool/" if (case["dep5_bad"] and i % 2 == 0) else "src/"
            rel = "%sf%02d_%s.py" % (d, i, k.replace("-", "_"))
            code = FILE_KINDS[k][1]
            if d == "pool/" and code != "x":
                code = "x"  # the dep5 paragraph for pool/* has an unparseable licence: examining the file raises
            out.append((rel, k, code))
        return out

    def impl(self, case):
        import reuse.project as rp

        lay = self.layout(case)
        with cli.scratch("rv-c16f-") as root:
            tree = {"LICENSES/MIT.txt": "MIT text\n"}
            for rel, k, _ in lay:
                content = FILE_KINDS[k][0]
                if k not in SPECIAL_KINDS:
                    tree[rel] = content if content is not None else HDR + "soon gone\n"
            if case["dep5_bad"]:
                tree[DEP5_REL] = CLI_DEP5_OK.replace("data/*", "pool/*").replace("License: MIT", "License: MIT OR")
            cli.write_tree(root, tree)
            for rel, k, _ in lay:
                if k in SPECIAL_KINDS:
                    make_special(root, rel, k)
            victims = {os.path.basename(rel) for rel, k, _ in lay if k == "vanishes"}
            orig = rp.iter_files

            def walking(*a, **kw):
                for p in orig(*a, **kw):
                    if p.name in victims and p.exists():
                        os.unlink(p)  # gone after the directory walk listed it, before it is read
                    yield p

            variant = case["variant"]
            args = {"lint-json": ["lint", "--json"], "lint": ["lint"], "lint-lines": ["lint", "--lines"], "spdx": ["spdx"],
                    "lint-file": ["lint-file"] + [rel for rel, _, _ in lay]}[variant]
            rp.iter_files = walking
            try:
                code, out, exc = cli.run_cli(["--no-multiprocessing"] + args, root)
            finally:
                rp.iter_files = orig
            if exc is not None:
                return "traceback:" + type(exc).__name__
            if variant != "lint-json":
                return "exit:%s" % code
            try:
                start = 0 if out.startswith("{\n") else out.index("\n{\n") + 1  # log lines (stderr) precede the document
                rep = json.JSONDecoder().raw_decode(out[start:])[0]
            except Exception as e:  # noqa
                return "badjson:%s" % type(e).__name__
            ours = {rel for rel, _, _ in lay}
            re_ = sorted(os.path.relpath(p, root) if os.path.isabs(p) else p for p in rep["non_compliant"]["read_errors"])
            reps = sorted("%s:%d%d" % (f["path"], bool(f["copyrights"]), bool(f["spdx_expressions"])) for f in rep["files"] if f["path"] in ours)
            return "RE %s REP %s exit:%s" % (enc_list(re_), enc_list(reps), code)

    def model_lines(self, case):
        if case["variant"] != "lint-json":
            return []
        lay = self.layout(case)
        return ["generate\t%s\t%s\t0" % (enc_list([rel for rel, _, _ in lay]), " ".join(c for _, _, c in lay))]

    def model_out(self, case, outs):
        m = re.fullmatch(r"RE (\S+) REP (\S+) (\S*) exit:(\d+):~", outs[0])
        if not m:
            return "unparsed:" + outs[0]
        paths = dec_list(m.group(2))
        flags = m.group(3)
        reps = sorted("%s:%s" % (p, flags[2 * i:2 * i + 2]) for i, p in enumerate(paths))
        return "RE %s REP %s exit:%s" % (enc_list(sorted(dec_list(m.group(1)))), enc_list(reps), m.group(4))

    def oracle(self, case, impl_out):
        if impl_out.startswith(("traceback", "EXC", "badjson")):
            return "traceback: the run was aborted by %s" % impl_out
        if case["variant"] != "lint-json":
            code = impl_out.split(":")[1]
            if code not in ("0", "1"):
                return "exit-status: %s" % impl_out
            if case["variant"] != "spdx" and code == "0" and any(c != "r11" for _, _, c in self.layout(case)):
                return "exit-status: exit 0 although a file cannot be read or lacks information"
            return None
        m = re.fullmatch(r"RE (\S+) REP (\S+) exit:(\d+)", impl_out)
        re_, reps = set(dec_list(m.group(1))), dict(x.rsplit(":", 1) for x in dec_list(m.group(2)))
        for rel, k, code in self.layout(case):
            # property text: a file that cannot be read or decoded is a read error or lacks information; it does not abort the run,
            # i.e. every other file is still there with its own information
            if (rel in re_) == (rel in reps):
                return "lost-file: %s (%s) is %s" % (rel, k, "both a read error and a report" if rel in re_ else "neither a read error nor reported")
            if k == "vanishes" and rel not in re_:
                return "unreadable-not-reported: vanished %s is not a read error" % rel
            if k in ("fifo", "socket") and rel not in re_:
                return "unreadable-not-reported: %s is a %s, not a file that can be read, and is not a read error" % (rel, k)
            if k in ("good", "nul", "latin1", "long-line") and code == "r11" and reps.get(rel) != "11":
                return "neighbour-disturbed: %s (%s) should carry copyright and licence, has %s" % (rel, k, reps.get(rel, "a read error"))
            if k.startswith("bad-expression") and code == "e" and reps.get(rel) != "00":
                return "bad-expression: %s should be reported as lacking information, is %s" % (rel, reps.get(rel, "a read error"))
        if m.group(3) not in ("0", "1"):
            return "exit-status: %s" % m.group(3)
        if re_ and m.group(3) != "1":
            return "exit-status: read errors but exit %s" % m.group(3)
        return None

    def nontrivial(self, case, impl_out):
        return (tuple(sorted(set(case["kinds"]))), case["variant"], impl_out[-6:])


# --------------------------------------------------------------------------
# stream 6: annotate over files that cannot be read as UTF-8 text or vanish

ANN_KINDS = {
    "good": (HDR + "print(1)\n", "t1"),
    "bare": ("print(1)\n", "t1"),
    "nul": (b"x = '\x00'\n", "t1"),
    "long-line": ("y" * (1 << 20) + "\n", "t1"),
    "bad-expression": ("# SPDX-License-Identifier: MIT OR\nx\n", "t1"),
    "crlf": ("a\r\nb\r\n", "t1"),
    "latin1": ("# caf\xe9\nprint(1)\n".encode("latin-1"), "u"),
    "cp1252": ("# na\xefve caf\xe9 \u201cquoted\u201d text\nprint(1)\n".encode("cp1252"), "u"),
    "lone-continuation-byte": (b"# abc \x80 def\nprint(1)\n", "u"),
    "overlong-utf8": (b"# \xc0\xaf overlong\nprint('x')\n", "u"),
    "surrogate-utf8": (b"# \xed\xa0\x80 surrogate\nprint('x')\n", "u"),
    "truncated-utf8": ("# caf\xe9".encode("utf-8")[:-1], "u"),
    "undecodable-after-1k": (b"print(1)\n" * 200 + b"# caf\xe9\n", "u"),
    "vanishes": (None, "v"),
    # no regular file (made with make_special): annotate must neither open nor replace it; the model has no such path kind, so a
    # case with one of these is judged by the oracle only
    "fifo": (None, "s"),
    "socket": (None, "s"),
    "chardev": (None, "s"),
}


class AnnotateStream(Stream):
    name = "annotate"
    MAX_TIMEOUTS = 1  # see PerFileStream
    rule = ("seeded lists of 1-6 paths of %d kinds (text, NUL, CRLF, 1 MB line, existing unparseable expression, Latin-1 / cp1252, lone continuation "
            "byte, overlong, surrogate and truncated UTF-8, an undecodable byte after the first kilobyte, vanishing after argument validation, a FIFO / socket / character device) given to one `reuse annotate` (quick 150 / thorough 1500 runs, plus every "
            "kind alone): per-path outcome (header written / not) and exit status vs the model's annotateLoop/annotateEnd; oracle: no "
            "traceback, exit in {0,1}, 1 iff some path is unreadable, readable paths annotated whatever their position, unreadable "
            "paths byte-identical" % len(ANN_KINDS))

    def cases(self, tier, rng):
        from binaryornot.helpers import is_binary_string

        kinds = sorted(ANN_KINDS)
        for k in kinds:
            # generator precondition: the undecodable kinds are text for binaryornot (a binary file gets a .license sibling instead)
            c = ANN_KINDS[k][0]
            if ANN_KINDS[k][1] == "u" and is_binary_string(c[:1024]):  # noqa
                raise RuntimeError("generator precondition: kind %s is binary for binaryornot" % k)
            yield {"kinds": [k]}
        n = 1500 if tier == "thorough" else 150
        for _ in range(n):
            yield {"kinds": [rng.choice(kinds) for _ in range(rng.randint(1, 6))]}

    def layout(self, case):
        return sorted(("f%02d_%s.py" % (i, k.replace("-", "_")), k) for i, k in enumerate(case["kinds"]))

    def impl(self, case):
        import reuse.cli.annotate as ra

        lay = self.layout(case)
        with cli.scratch("rv-c16a-") as root:
            tree = {}
            for rel, k in lay:
                c = ANN_KINDS[k][0]
                if k not in SPECIAL_KINDS:
                    tree[rel] = c if c is not None else "print('soon gone')\n"
            cli.write_tree(root, tree)
            for rel, k in lay:
                if k in SPECIAL_KINDS:
                    make_special(root, rel, k)
            before = safe_snapshot(root)
            victims = {rel for rel, k in lay if k == "vanishes"}
            orig = ra.is_binary

            def sniff(path):
                if os.path.basename(path) in victims and os.path.exists(path):
                    os.unlink(path)  # existed when the arguments were validated
                return orig(path)

            ra.is_binary = sniff
            try:
                code, out, exc = cli.run_cli(["annotate", "-c", "Joe Bloggs", "-l", "0BSD"] + [rel for rel, _ in lay], root)
            finally:
                ra.is_binary = orig
            if exc is not None:
                return "traceback:" + ("OSError" if isinstance(exc, OSError) else type(exc).__name__)
            after = safe_snapshot(root)
            flags = []
            for rel, k in lay:
                a = after.get(rel)
                if a is None:
                    flags.append("f" if k == "vanishes" else "?")
                elif b"Joe Bloggs" in a[1] and b"0BSD" in a[1]:
                    flags.append("c")
                elif a == before.get(rel):
                    flags.append("f")
                else:
                    flags.append("?")
            extra = sorted(set(after) - set(before))
            return "%s exit:%s%s" % ("".join(flags), code, (" extra:" + ",".join(extra)) if extra else "")

    def model_lines(self, case):
        lay = self.layout(case)
        if any(ANN_KINDS[k][1] == "s" for _, k in lay):
            return []
        return ["annotate\t%s\t%s" % (enc_list([rel for rel, _ in lay]), " ".join(ANN_KINDS[k][1] for _, k in lay))]

    def model_out(self, case, outs):
        m = re.fullmatch(r"(\S*) exit:(\d+):~", outs[0])
        return "%s exit:%s" % (m.group(1), m.group(2)) if m else "unparsed:" + outs[0]

    def oracle(self, case, impl_out):
        if impl_out.startswith(("traceback", "EXC")):
            return "traceback: `reuse annotate` ended in an unhandled %s" % impl_out.split(":", 1)[1]
        m = re.fullmatch(r"(\S*) exit:(\d+)( extra:\S+)?", impl_out)
        flags, code = m.group(1), m.group(2)
        lay = self.layout(case)
        if code not in ("0", "1"):
            return "exit-status: %s" % code
        unreadable = [rel for rel, k in lay if ANN_KINDS[k][1] in ("u", "v")]
        special = [rel for rel, k in lay if ANN_KINDS[k][1] == "s"]
        # a named path that is no regular file: whether passing over it counts as success is not said anywhere; exit 0 and 1 both pass
        if (code == "1") != bool(unreadable) and not (special and not unreadable):
            return "exit-status: exit %s with unreadable paths %s" % (code, unreadable)
        for (rel, k), f in zip(lay, flags):
            if ANN_KINDS[k][1] == "t1" and f != "c":
                return "neighbour-disturbed: readable %s (%s) was not annotated" % (rel, k)
            if ANN_KINDS[k][1] in ("u", "v", "s") and f != "f":
                return "unreadable-changed: %s (%s) was modified" % (rel, k)
        if m.group(3):
            return "debris: new files %s" % m.group(3)
        return None

    def nontrivial(self, case, impl_out):
        return (tuple(sorted(set(case["kinds"]))), impl_out.split(" ")[-1])


# --------------------------------------------------------------------------
# stream 6b: the templates below .reuse/templates/ are project files too -- oracle only

OK_TEMPLATE = ("{% for c in copyright_lines %}\n{{ c }}\n{% endfor %}\n{% for c in contributor_lines %}\nSPDX-FileContributor: {{ c }}\n{% endfor %}\n\n"
               "{% for e in spdx_expressions %}\nSPDX-License-Identifier: {{ e }}\n{% endfor %}\n")
# kind -> (bytes of NAME.jinja2, usable?)   usable = a header with the requested information can be made from it (ground truth by construction)
TEMPLATE_KINDS = {
    "ok": (OK_TEMPLATE, True),
    "ok-with-text": ("This file is part of X.\n\n" + OK_TEMPLATE + "\nEnd of header.\n", True),
    "ok-crlf": (OK_TEMPLATE.replace("\n", "\r\n"), True),
    "empty": ("", False),
    "no-tags": ("nothing of interest\n", False),
    "syntax-for": ("{% for x in %}\n", False),
    "syntax-unclosed-variable": (OK_TEMPLATE + "{{ unclosed\n", False),
    "syntax-stray-endfor": ("{% endfor %}\n" + OK_TEMPLATE, False),
    "syntax-unknown-tag": ("{% frobnicate %}\n" + OK_TEMPLATE, False),
    "syntax-unknown-filter": (OK_TEMPLATE + "{{ 'x'|nosuchfilter }}\n", False),
    "syntax-unclosed-comment": ("{# never closed\n" + OK_TEMPLATE, False),
    "not-utf8": (b"\xff\xfe" + OK_TEMPLATE.encode(), False),
    "latin1": ((u"# caf\xe9\n" + OK_TEMPLATE).encode("latin-1"), False),
    "nul": (OK_TEMPLATE.encode() + b"\x00\x00\n", True),
    "undefined-attribute": (OK_TEMPLATE + "{{ nope.attr }}\n", False),
    "undefined-call": (OK_TEMPLATE + "{{ nope() }}\n", False),
    "division-by-zero": (OK_TEMPLATE + "{{ 1 // 0 }}\n", False),
    "type-error": (OK_TEMPLATE + "{{ 1 + 'a' }}\n", False),
    "missing-include": (OK_TEMPLATE + "{% include 'not-there.jinja2' %}\n", False),
    "literal-bad-expression": (OK_TEMPLATE + "SPDX-License-Identifier: MIT OR\n", False),
    "literal-bad-expression-paren": ("SPDX-License-Identifier: (MIT\n" + OK_TEMPLATE, False),
    "long-line": (OK_TEMPLATE + "x" * (1 << 20) + "\n", True),
    "deep-nesting": ("{% if true %}" * 400 + "x" + "{% endif %}" * 400 + "\n" + OK_TEMPLATE, None),   # (either answer, but an answer)
}


class TemplateStream(Stream):
    name = "templates"
    exhaustive = True
    rule = ("`reuse annotate --template t` with .reuse/templates/t.jinja2 (and t.commented.jinja2) of %d kinds - usable, empty, six kinds of "
            "syntax error, not UTF-8, NUL bytes, undefined names, arithmetic and type errors while rendering, a missing include, a literal "
            "unparseable licence expression, a 1 MB line, 400-fold nesting - on a file without and one with a header, named and through "
            "--recursive: no traceback, exit status in {0, 1, 2}; a usable template => exit 0 and the header written; otherwise exit != 0 "
            "and every file byte-identical (oracle only)" % len(TEMPLATE_KINDS))

    def cases(self, tier, rng):
        for k in sorted(TEMPLATE_KINDS):
            for commented in (False, True):
                for target in ("fresh", "with-header", "recursive"):
                    yield {"kind": k, "commented": commented, "target": target}

    def impl(self, case):
        content = TEMPLATE_KINDS[case["kind"]][0]
        if case["commented"]:
            content = (b"# " + content) if isinstance(content, bytes) else "\n".join(("# " + l) if l and not l.startswith("{%") else l for l in content.split("\n"))
        with cli.scratch("rv-c16t-") as root:
            tree = {".reuse/templates/t%s.jinja2" % (".commented" if case["commented"] else ""): content,
                    "src/fresh.py": "print(1)\n", "src/old.py": HDR + "print(2)\n"}
            cli.write_tree(root, tree)
            before = cli.snapshot(root)
            paths = {"fresh": ["src/fresh.py"], "with-header": ["src/old.py"], "recursive": ["--recursive", "src"]}[case["target"]]
            code, out, exc = cli.run_cli(["annotate", "-c", "Joe Bloggs", "-l", "0BSD", "--template", "t"] + paths, root)
            if exc is not None:
                return "traceback:" + type(exc).__name__
            after = cli.snapshot(root)
            changed = sorted(k for k in set(before) | set(after) if before.get(k) != after.get(k))
            written = all(b"Joe Bloggs" in after[k][1] and b"0BSD" in after[k][1] for k in changed) and bool(changed)
            return "exit:%s changed:%s written:%s" % (code, ",".join(changed), "1" if written else "0")

    def oracle(self, case, impl_out):
        if impl_out.startswith(("traceback", "EXC")):
            return "traceback: `reuse annotate --template` with a %s template ended in an unhandled %s" % (case["kind"], impl_out.split(":", 1)[1])
        m = re.fullmatch(r"exit:(\d+) changed:(\S*) written:([01])", impl_out)
        code, changed, written = m.group(1), [c for c in m.group(2).split(",") if c], m.group(3) == "1"
        if code not in ("0", "1", "2"):
            return "exit-status: %s" % code
        usable = TEMPLATE_KINDS[case["kind"]][1]
        if usable is None:
            usable = code == "0"
        if usable:
            if code != "0" or not written:
                return "usable-template-refused: exit %s, changed %s" % (code, changed)
        else:
            if code == "0":
                return "broken-template-accepted: exit 0 with a %s template (changed %s)" % (case["kind"], changed)
            if changed:
                return "failed-but-wrote: exit %s yet %s changed" % (code, changed)
        return None

    def nontrivial(self, case, impl_out):
        return (case["kind"], case["commented"], case["target"], impl_out.split(" ")[0])


# --------------------------------------------------------------------------
# stream 7: files and directories that vanish WHILE the tree is being walked (between the directory listing and the questions
# the walk asks about each listed name) -- oracle only

TIME_LIMIT = 40.0   # seconds for one command over a tiny project; the slowest legitimate case (1 MB lines) takes well under a second

RACE_CONTENT = {
    "good": HDR + "print(1)\n", "bare": "print(1)\n", "copyright-only": "# SPDX-FileCopyrightText: 2020 Jane\n",
    "binary": bytes(range(256)) * 2, "empty": "",
}
RACE_DIRS = ["", "src", "src/pkg", "src/pkg/deep", "docs", "lib", "lib/a", "lib/a/b", "LICENSES", "subprojects/x"]
RACE_COMMANDS = {
    "lint-json": ["lint", "--json"], "lint": ["lint"], "lint-lines": ["lint", "--lines"], "spdx": ["spdx"],
    "lint-file": None,  # + every generated file
    "annotate-r": ["annotate", "-c", "Joe Bloggs", "-l", "MIT", "--recursive", "--skip-unrecognised", "."],
    "download-all": ["download", "--all"],
}


def race_case(rng, cmd):
    dirs = [""] + rng.sample(RACE_DIRS[1:], rng.randint(1, 4))
    files = {}
    kinds = sorted(RACE_CONTENT)
    for d in dirs:
        for i in range(rng.randint(1 if d else 2, 4)):
            k = rng.choice(kinds) if rng.random() < 0.5 else "good"
            files["%s%s_%d.py" % (d + "/" if d else "", k.replace("-", "_"), i)] = k
    config = rng.choice(["none", "none", "toml", "nested-toml", "dep5"])
    if rng.random() < 0.35:  # and what is listed among the files of a directory without being a regular file
        for j in range(rng.randint(1, 2)):
            d = rng.choice([x for x in dirs if x != "LICENSES"])  # a FIFO as licence text blocks the unchanged tool too: recorded boundary
            files["%sspecial_%d.py" % (d + "/" if d else "", j)] = rng.choice(["fifo", "fifo", "socket", "chardev"])
    all_dirs = set()
    for f in files:
        d = os.path.dirname(f)
        while d:
            all_dirs.add(d)
            d = os.path.dirname(d)
    all_dirs = sorted(all_dirs)
    hook = rng.choice(["listing", "question", "question"])
    rels = sorted(files)
    if hook == "question":
        trigger = rng.choice(rels + all_dirs)
        sibs = [r for r in rels + all_dirs if os.path.dirname(r) == os.path.dirname(trigger) and r != trigger]
        pool = sibs * 3 + rels + all_dirs
    else:
        trigger = None
        pool = rels + all_dirs
    victims = sorted({rng.choice(pool) for _ in range(rng.randint(1, 4))} - {trigger})
    if not victims:
        victims = [r for r in rels if r != trigger][:1]
    # a command walks the tree more than once (looking for REUSE.toml files when the project is loaded, then for the covered
    # files): the race happens in the nth walk / at the nth question about the trigger
    return {"files": files, "config": config, "hook": hook, "trigger": trigger, "victims": victims, "cmd": cmd, "nth": rng.choice([1, 2, 2, 3])}


class WalkRaceStream(Stream):
    name = "walkrace"
    MAX_TIMEOUTS = 1  # see PerFileStream
    rule = ("seeded trees (2-5 directories, nested, 3-16 files, with none / REUSE.toml / nested REUSE.toml / dep5) from which 1-4 files "
            "and directories vanish WHILE reuse walks them (a third of the trees also hold one or two FIFOs / sockets / character devices): either as soon as their directory has been listed (os.walk hands out names "
            "that no longer exist) or at a question the walk asks its VCS strategy about a chosen sibling, in the first, second or third walk of the command (project loading looks for REUSE.toml files, then the covered files are collected) (quick 105 / thorough "
            "1400 runs), through lint, lint --json, lint --lines, lint-file, spdx, annotate --recursive, download --all; oracle only: no "
            "traceback, exit status 0 or 1 (the configuration is valid, so never a usage error), and with lint --json every file that did not vanish is still reported (report or "
            "read error, not both), a vanished one is a read error or absent")

    def cases(self, tier, rng):
        cli.warm_up()
        n = 200 if tier == "thorough" else 15
        for cmd in sorted(RACE_COMMANDS):
            for _ in range(n):
                yield race_case(rng, cmd)

    def impl(self, case):
        import shutil
        import reuse.vcs as rv

        files = case["files"]
        victims = list(case["victims"])
        with cli.scratch("rv-c16w-") as root, no_network():
            tree = {"LICENSES/MIT.txt": "MIT text\n"}
            for rel, k in files.items():
                if k not in SPECIAL_KINDS:
                    tree[rel] = RACE_CONTENT[k]
            if case["config"] in ("toml", "nested-toml"):
                tree[TOML_REL] = CLI_TOML_OK
            if case["config"] == "nested-toml":
                tree[self.nested_toml_dir(case) + "/REUSE.toml"] = CLI_TOML_OK
            elif case["config"] == "dep5":
                tree[DEP5_REL] = CLI_DEP5_OK
            cli.write_tree(root, tree)
            for rel, k in files.items():
                if k in SPECIAL_KINDS:
                    make_special(root, rel, k)
            real_root = os.path.realpath(root)
            gone = []

            def remove(rel):
                p = os.path.join(real_root, rel)
                if os.path.isdir(p) and not os.path.islink(p):
                    shutil.rmtree(p, ignore_errors=True)
                    gone.append(rel)
                elif os.path.lexists(p):
                    os.unlink(p)
                    gone.append(rel)

            orig_walk, orig_ignored = os.walk, rv.VCSStrategyNone.is_ignored

            count = {"walks": 0, "questions": 0}
            nth = case.get("nth", 1)

            def walk(top, *a, **kw):
                count["walks"] += 1
                mine = count["walks"] == nth
                for dp, dn, fn in orig_walk(top, *a, **kw):
                    rel_dir = os.path.relpath(os.path.realpath(dp), real_root)
                    for v in victims:
                        if mine and os.path.dirname(v) == ("" if rel_dir == "." else rel_dir):
                            remove(v)  # listed a moment ago, gone before anybody looks at it
                    yield dp, dn, fn

            def is_ignored(self_, path):
                rel = os.path.relpath(os.path.realpath(os.path.join(real_root, str(path))), real_root)
                if rel == case["trigger"]:
                    count["questions"] += 1
                    if count["questions"] == nth:
                        for v in victims:
                            remove(v)
                return orig_ignored(self_, path)

            args = RACE_COMMANDS[case["cmd"]] or ["lint-file"] + sorted(files)
            if case["hook"] == "listing":
                os.walk = walk
            else:
                rv.VCSStrategyNone.is_ignored = is_ignored
            try:
                code, out, exc = cli.run_cli((["--no-multiprocessing"] if case["cmd"] != "annotate-r" else []) + args, root)
            finally:
                os.walk, rv.VCSStrategyNone.is_ignored = orig_walk, orig_ignored
            if exc is not None:
                return "traceback:%s:%s" % (type(exc).__name__, str(exc).replace(real_root, "<root>")[:100])
            res = "exit:%s gone:%s" % (code, enc_list(sorted(set(gone))))
            if code == 2:
                msg = [l for l in out.splitlines() if l.startswith("Error:")]
                return res + " usage:" + enc((msg[0] if msg else out[-120:]).replace(real_root, "<root>")[:160])
            if case["cmd"] == "lint-json":
                try:
                    start = 0 if out.startswith("{\n") else out.index("\n{\n") + 1
                    rep = json.JSONDecoder().raw_decode(out[start:])[0]
                except Exception as e:  # noqa
                    return "badjson:%s" % type(e).__name__
                re_ = sorted(os.path.relpath(p, real_root) if os.path.isabs(p) else p for p in rep["non_compliant"]["read_errors"])
                reps = sorted(f["path"] for f in rep["files"])
                res += " RE %s REP %s" % (enc_list(re_), enc_list(reps))
            return res

    @staticmethod
    def nested_toml_dir(case):
        return os.path.dirname(sorted(case["files"])[-1]) or "docs"

    def covered(self, case):
        """Generator ground truth: the generated files that are covered files (not empty, not below LICENSES/ or a Meson subproject)."""
        return sorted(r for r, k in case["files"].items() if k != "empty" and k not in SPECIAL_KINDS and not r.startswith(("LICENSES/", "subprojects/")))

    def oracle(self, case, impl_out):
        if impl_out.startswith("timeout"):
            return "does-not-terminate: `reuse %s` did not finish within %s s" % (case["cmd"], impl_out.split(":")[1])
        if impl_out.startswith(("traceback", "EXC", "badjson")):
            return "traceback: `reuse %s` was aborted by %s when %s vanished during the walk" % (case["cmd"], impl_out, case["victims"])
        m = re.fullmatch(r"exit:(-?\d+) gone:(\S+)(?: usage:(\S*))?(?: RE (\S+) REP (\S+))?", impl_out)
        if m.group(1) not in ("0", "1", "2"):
            return "exit-status: %s" % m.group(1)
        gone = dec_list(m.group(2))
        if m.group(1) == "2":
            # the configuration is valid in every generated tree and the arguments existed when they were validated: a usage error
            # can only be right when a REUSE.toml itself disappeared with its directory
            if case["config"] == "nested-toml" and any(g == self.nested_toml_dir(case) or self.nested_toml_dir(case).startswith(g + "/") for g in gone):
                return None
            return "aborted: `reuse %s` stopped with a usage error (%s) when %s vanished during the walk" % (case["cmd"], dec(m.group(3) or ""), case["victims"])
        if m.group(4) is None:
            return None
        re_, reps = set(dec_list(m.group(4))), set(dec_list(m.group(5)))
        for rel in self.covered(case):
            lost = any(rel == g or rel.startswith(g + "/") for g in gone)
            if rel in re_ and rel in reps:
                return "lost-file: %s is both a read error and a report" % rel
            if not lost and rel not in reps:
                return "neighbour-disturbed: %s did not vanish but is %s" % (rel, "a read error" if rel in re_ else "not reported")
        for rel, k in case["files"].items():
            if k in ("fifo", "socket") and not rel.startswith(("LICENSES/", "subprojects/")) \
                    and not any(rel == g or rel.startswith(g + "/") for g in gone) and rel not in re_:
                return "unreadable-not-reported: %s is a %s, not a file that can be read, and is not a read error" % (rel, k)
        if re_ and m.group(1) != "1":
            return "exit-status: read errors but exit %s" % m.group(1)
        return None

    def nontrivial(self, case, impl_out):
        return (case["cmd"], case["hook"], case.get("nth"), case["config"], impl_out.split(" ")[0], len(case["victims"]))


# --------------------------------------------------------------------------
# stream 8: termination -- values with long runs of blanks, tabs, comment terminators and punctuation in the middle

RUN_ATOMS = [" ", "\t", " \t", "*", "-", "/", ">", "*/", "-->", "]]", "%}", "#}", "'" * 3, '"', "'", "::", "=", "=#", "|#", "*)", "--",
             " */", " -->", "\t*/", "\"/>", "] ::"]
TAGS = ["SPDX-FileCopyrightText:", "SPDX-License-Identifier:", "SPDX-FileContributor:", "Copyright", "©", "SPDX-SnippetCopyrightText:",
        "Copyright (C)", "SPDX-FileCopyrightText: (c)"]
HEADS = ["2020 Jane Doe", "MIT", "2019-2021, Example Corp.", "Jane", "", "GPL-3.0-or-later WITH", "2020"]
TAILS = ["<jane@example.com>", "(see LICENSES)", "x", "and others", "OR 0BSD", "2021 John", "*/", "-->"]
FRAMES = [("# ", ""), ("// ", ""), ("/* ", " */"), ("<!-- ", " -->"), (" * ", ""), ("", ""), ("{# ", " #}"), ("(* ", " *)"), ("' ", ""), ("\t", "  ")]


def run_of(rng, lo=20, hi=200):
    n = rng.randint(lo, hi)
    r = rng.random()
    if r < 0.5:
        atom = rng.choice(RUN_ATOMS)
        s = atom * (n // len(atom) + 1)
    elif r < 0.8:
        atoms = rng.sample(RUN_ATOMS, 2)
        s = "".join(rng.choice(atoms) for _ in range(n))
    else:
        s = "".join(rng.choice(RUN_ATOMS) for _ in range(n))
    return s[:n]


def slow_line(rng):
    tag, (pre, post) = rng.choice(TAGS), rng.choice(FRAMES)
    value = rng.choice(HEADS) + run_of(rng) + rng.choice(TAILS)
    if rng.random() < 0.25:
        value += run_of(rng, 20, 80) + rng.choice(TAILS)
    if rng.random() < 0.2:
        pre = pre + run_of(rng, 20, 60)  # the run in front of the tag
    return pre + tag + " " + value + post


TERM_COMMANDS = {
    "lint": ["lint"], "lint-json": ["lint", "--json"], "lint-lines": ["lint", "--lines"], "spdx": ["spdx"], "lint-file": None,
    "annotate": None, "download-all": ["download", "--all"],
}


class TerminationStream(Stream):
    name = "terminates"
    rule = ("termination: projects of 1-6 files whose tag lines (SPDX-FileCopyrightText, SPDX-SnippetCopyrightText, Copyright, (c) forms, "
            "SPDX-License-Identifier, SPDX-FileContributor, in ten comment framings, in the file or in its .license sibling, inside an "
            "SPDX snippet, after up to 400 other lines, also as REUSE.toml / dep5 values; four projects in ten also hold 1-3 FIFOs without a "
            "writer / UNIX sockets / character devices where a covered file is expected, named on the command line where the command "
            "takes paths) carry runs of 20-200 blanks, tabs, comment "
            "terminators, `*`, `-`, `/`, `>`, quotes and mixtures IN THE MIDDLE of the value (text follows the run), through lint, lint "
            "--json, lint --lines, lint-file, spdx, annotate, download --all (quick 84 / thorough 1400 runs); each run happens in a child "
            "process that is killed after %g s: oracle = the command finished (else 'does not terminate'), no traceback, exit status in "
            "{0, 1, 2}; the same time limit guards every command run of the cli, perfile, annotate and walkrace streams" % TIME_LIMIT)

    def cases(self, tier, rng):
        cli.warm_up()
        n = 200 if tier == "thorough" else 12
        for cmd in sorted(TERM_COMMANDS):
            for _ in range(n):
                files = {}
                for i in range(rng.randint(1, 6)):
                    lines = [slow_line(rng) for _ in range(rng.randint(1, 3))]
                    r = rng.random()
                    if r < 0.15:
                        lines = ["# SPDX-SnippetBegin"] + lines + ["# SPDX-SnippetEnd"]
                    elif r < 0.3:
                        lines = ["x = 1"] * rng.randint(1, 400) + lines  # beyond the first lines
                    name = "f%d.%s" % (i, rng.choice(["py", "c", "html", "txt", "jinja2", "ml", "bas"]))
                    if rng.random() < 0.15:
                        files[name] = "data\n"
                        name += ".license"
                    files[name] = "\n".join(lines) + "\n"
                extra = rng.choice(["none", "none", "toml", "dep5"])
                case = {"files": files, "extra": extra, "value": HEADS[0] + run_of(rng) + TAILS[0], "cmd": cmd}
                if rng.random() < 0.4:
                    # blocking I/O instead of a slow regular expression: a FIFO nobody writes to, a socket, a device where a covered
                    # file is expected (never as .license sibling, REUSE.toml or below LICENSES/: see the claim note)
                    case["specials"] = sorted(
                        (rng.choice(["", "", "run/", "src/deep/"]) + rng.choice(["events.pipe", "ctl", "s%d.py" % j, "log.txt", "\u00fc.sock"]),
                         rng.choice(["fifo", "fifo", "socket", "chardev"])) for j in range(rng.randint(1, 3)))
                    case["specials"] = [list(x) for x in dict(case["specials"]).items() if x[0] not in files]
                yield case

    MAX_TIMEOUTS = 2  # two commands had to be killed: the point is made, do not wait for the time limit again and again ("skipped")

    def impl(self, case):
        with cli.scratch("rv-c16t-") as root, no_network():
            tree = {"LICENSES/MIT.txt": "MIT text\n"}
            tree.update(case["files"])
            if case["extra"] == "toml":
                tree[TOML_REL] = doc_to_toml(_doc(V1, ["annotations", A(T((K_PATH, S("f0.*")), (K_CP, S(case["value"])), (K_LIC, S("MIT"))))]), "sections")
            elif case["extra"] == "dep5":
                tree[DEP5_REL] = CLI_DEP5_OK.replace("data/*", "f0.*").replace("2020 Jane", case["value"])
            cli.write_tree(root, tree)
            for rel, what in case.get("specials", []):
                make_special(root, rel, what)
            names = sorted([f for f in case["files"] if not f.endswith(".license")] + [rel for rel, _ in case.get("specials", [])])
            args = TERM_COMMANDS[case["cmd"]]
            if case["cmd"] == "lint-file":
                args = ["lint-file"] + names
            elif case["cmd"] == "annotate":
                args = ["annotate", "-c", "Joe Bloggs", "-l", "MIT", "--fallback-dot-license"] + names
            code, out, exc = cli.run_cli((["--no-multiprocessing"] if case["cmd"] != "annotate" else []) + args, root)
            if exc is not None:
                return "traceback:%s:%s" % (type(exc).__name__, str(exc)[:100])
            return "exit:%s" % code

    def oracle(self, case, impl_out):
        if impl_out.startswith("timeout"):
            return "does-not-terminate: `reuse %s` did not finish within %s s (killed)" % (case["cmd"], impl_out.split(":")[1])
        if impl_out.startswith(("traceback", "EXC")):
            return "traceback: `reuse %s` ended in %s" % (case["cmd"], impl_out)
        if impl_out == "skipped":
            return None
        if impl_out.split(":")[1] not in ("0", "1", "2"):
            return "exit-status: %s" % impl_out
        return None

    def nontrivial(self, case, impl_out):
        return (case["cmd"], case["extra"], impl_out, len(case["files"]), tuple(sorted(w for _, w in case.get("specials", []))))

    def show(self, case):
        return {"cmd": case["cmd"], "extra": case["extra"], "value": case["value"] if case["extra"] != "none" else None,
                "specials": case.get("specials", []),
                "files": {k: v if len(v) < 1500 else v[:700] + " ... " + v[-700:] for k, v in case["files"].items()}}


# --------------------------------------------------------------------------
# stream 9: every invocation shape of annotate over files that cannot be read, vanish or change their kind at ANY moment of the run

SHAPE_FILES = {
    # name -> content; what the documentation says about the name: recognised comment style / uncommentable / unrecognised
    "tool.py": "print(1)\n", "lib/util.c": "int u;\n", "lib/page.html": "<p>x</p>\n", "lib/has.py": HDR + "x = 1\n",
    "incoming.dat": "1;2;3\n", "lib/NOTES": "notes without an extension\n", "lib/blob.qqq": bytes(range(256)) * 3,
    "lib/pic.png": b"\x89PNG\r\n\x1a\n" + bytes(range(200)), "lib/empty.dat": "", "lib/deep/more.py": "m = 1\n", "lib/deep/raw.xyz": "raw\n",
}
SHAPE_RECOGNISED = ["tool.py", "lib/util.c", "lib/page.html", "lib/has.py", "lib/deep/more.py"]
SHAPE_OPTIONS = {
    "plain": [], "style": ["--style", "python"], "force": ["--force-dot-license"], "fallback": ["--fallback-dot-license"],
    "skip": ["--skip-unrecognised"], "skip-existing": ["--skip-existing"], "multi": ["--multi-line"], "single": ["--single-line"],
    "no-replace": ["--no-replace"], "merge": ["--merge-copyrights"], "fallback+skip-existing": ["--fallback-dot-license", "--skip-existing"],
    "style+multi": ["--style", "c", "--multi-line"], "template-missing": ["--template", "nonexistent"], "year": ["--year", "2001", "--exclude-year"],
}
# the four options that say what happens to a file without a recognised comment style
SHAPE_DECIDES = ("style", "force", "fallback", "skip", "fallback+skip-existing", "style+multi")
FAULT_ACTIONS = ["vanish", "eacces", "to-dir", "to-dangling"]
MAX_TOUCH = 16
_DROP = "-dac_override,-dac_read_search"
SETPRIV = ["setpriv", "--inh-caps=" + _DROP, "--bounding-set=" + _DROP]


class Touches:
    """Fault injection by counting: every question the process asks the operating system about one of the chosen paths (stat,
    lstat, access, open -- whoever asks, wherever in the run) is a 'touch'; at the n-th touch of a path its fault happens: the
    file is gone ('vanish'), has become a directory ('to-dir') or a dangling link ('to-dangling'), or -- from then on -- cannot be
    opened for reading and is not readable for access() ('eacces': what a write-only file is for an unprivileged user)."""

    NAMES = [("os", "stat"), ("os", "lstat"), ("os", "access"), ("os", "open"), ("builtins", "open"), ("io", "open")]

    def __init__(self, root, faults):
        self.root = root
        self.faults = {os.path.normpath(os.path.join(root, f["path"])): dict(f, count=0, done=False) for f in faults}
        self.saved = {}

    def fault_of(self, p):
        if isinstance(p, int):
            return None
        try:
            p = os.fsdecode(os.fspath(p))
        except TypeError:
            return None
        return self.faults.get(os.path.normpath(os.path.join(os.getcwd(), p)))

    def touch(self, p, reading=False, access_r=False):
        """-> 'deny' when the caller has to fail with EACCES"""
        f = self.fault_of(p)
        if f is None:
            return None
        f["count"] += 1
        full = os.path.normpath(os.path.join(self.root, f["path"]))
        if f["count"] >= f["nth"]:
            if f["action"] == "eacces":
                return "deny" if (reading or access_r) else None
            if not f["done"]:
                f["done"] = True
                lstat, unlink = self.saved[("os", "lstat")], os.unlink
                try:
                    lstat(full)
                    unlink(full)
                except OSError:
                    pass
                if f["action"] == "to-dir":
                    os.mkdir(full)
                elif f["action"] == "to-dangling":
                    os.symlink("nowhere-at-all", full)
        return None

    def __enter__(self):
        import builtins
        import errno
        import io
        mods = {"os": os, "builtins": builtins, "io": io}
        for m, n in self.NAMES:
            self.saved[(m, n)] = getattr(mods[m], n)
        me = self

        def deny(p):
            raise PermissionError(errno.EACCES, os.strerror(errno.EACCES), os.fspath(p))

        def wrap_stat(orig):
            def f(p, *a, **k):
                me.touch(p)
                return orig(p, *a, **k)
            return f

        def access(p, mode, *a, **k):
            if me.touch(p, access_r=bool(mode & os.R_OK)) == "deny":
                return False
            return me.saved[("os", "access")](p, mode, *a, **k)

        def os_open(p, flags, *a, **k):
            if me.touch(p, reading=(flags & os.O_ACCMODE) != os.O_WRONLY) == "deny":
                deny(p)
            return me.saved[("os", "open")](p, flags, *a, **k)

        def wrap_open(orig):
            def f(file, mode="r", *a, **k):
                if me.touch(file, reading=not (set(mode) & set("wax")) or "+" in mode) == "deny":
                    deny(file)
                return orig(file, mode, *a, **k)
            return f

        os.stat, os.lstat = wrap_stat(self.saved[("os", "stat")]), wrap_stat(self.saved[("os", "lstat")])
        os.access, os.open = access, os_open
        builtins.open = wrap_open(self.saved[("builtins", "open")])
        io.open = wrap_open(self.saved[("io", "open")])
        return self

    def __exit__(self, *exc):
        import builtins
        import io
        mods = {"os": os, "builtins": builtins, "io": io}
        for (m, n), v in self.saved.items():
            setattr(mods[m], n, v)
        return False


def shape_snapshot(root):
    snap = {}
    for dp, dn, fn in os.walk(root):
        for n in dn + fn:
            p = os.path.join(dp, n)
            rel = os.path.relpath(p, root)
            if os.path.islink(p):
                snap[rel] = "L" + os.readlink(p)
            elif os.path.isdir(p):
                snap[rel] = "D"
            else:
                with open(p, "rb") as fp:
                    snap[rel] = "F" + fp.read().hex()
    return snap


class AnnotateShapesStream(Stream):
    name = "annotate-shapes"
    rule = ("every invocation shape of `reuse annotate` (--recursive over the project / a sub-directory, files named one by one, both; %d "
            "option sets: none, --style, --force-dot-license, --fallback-dot-license, --skip-unrecognised, --skip-existing, --multi-line, "
            "--single-line, --no-replace, --merge-copyrights, --template, --year, combinations) over a tree of files with a recognised "
            "comment style, without one (.dat, .xyz, .qqq binary, no extension), uncommentable (.png) and empty, of which 1-2 carry a "
            "fault: in-process, the fault strikes at the n-th question (stat, lstat, access, open; n = 1..%d) that anybody asks about "
            "the file -- it vanishes, becomes a directory, becomes a dangling link, or can no longer be opened for reading (EACCES, "
            "access(R_OK) false) --, so that every moment of the run is hit (argument validation, the walk, the expansion of the "
            "arguments, the verification of comment styles and line handling, the per-file loop); in a child `python -m reuse` started "
            "through setpriv without CAP_DAC_OVERRIDE / CAP_DAC_READ_SEARCH (where available), files of mode 0200 / 0000 and a directory "
            "of mode 0000 give the kernel's own EACCES. Oracle only (property text): no traceback, exit status in {0, 1, 2}; a usage "
            "error (2) leaves every file as it was; with 0 or 1 every file that has a recognised style, no fault and was selected is "
            "annotated (the fault of one file does not abort the run); a file with a fault is never half-written (unchanged, or complete "
            "header); non-trivial = distinct (shape, options, action, moment, exit status)" % (len(SHAPE_OPTIONS), MAX_TOUCH))

    def gen(self, rng, mode, action=None, nth=None, opt=None, unrecognised=None):
        names = sorted(SHAPE_FILES)
        unrec = [n for n in names if n not in SHAPE_RECOGNISED]
        faults = []
        k = rng.choice([1, 1, 1, 2])
        victims = rng.sample(names, k)
        if unrecognised or (unrecognised is None and rng.random() < 0.6):
            victims[0] = rng.choice([n for n in unrec if n != "lib/empty.dat"])
        for v in dict.fromkeys(victims):
            if mode == "child":
                faults.append({"path": v, "action": rng.choice(["mode-0200", "mode-0000", "mode-0200"])})
            else:
                faults.append({"path": v, "action": action or rng.choice(FAULT_ACTIONS), "nth": nth or rng.randint(1, MAX_TOUCH)})
                action = nth = None
        if mode == "child" and rng.random() < 0.3:
            faults.append({"path": "lib/deep", "action": "mode-0000"})
        shape = rng.choice(["recursive", "recursive", "named", "both"])
        case = {"mode": mode, "faults": faults, "opt": opt or rng.choice(sorted(SHAPE_OPTIONS)), "recursive": shape != "named"}
        named = []
        if shape in ("recursive", "both"):
            named.append(rng.choice([".", ".", "lib", "lib/deep"]))
        if shape in ("named", "both"):
            pool = [f["path"] for f in faults if f["path"] in SHAPE_FILES] * 2 + names
            named += list(dict.fromkeys(rng.sample(pool, rng.randint(1, 4))))
        case["named"] = named
        return case

    def cases(self, tier, rng):
        import shutil
        thorough = tier == "thorough"
        # every moment x every action x (no option | one that decides about unrecognised files), on a file without a recognised style
        for nth in range(1, MAX_TOUCH + 1):
            for i, action in enumerate(FAULT_ACTIONS):
                for opt in (("plain", "skip", "fallback", "force", "style") if thorough else ("plain" if (nth + i) % 2 else rng.choice(SHAPE_DECIDES),)):
                    c = self.gen(rng, "inproc", action, nth, opt, unrecognised=True)
                    if not thorough and nth > 1:
                        # (a named file is asked about more often before the command body starts: the late moments are reached
                        # through the recursive shapes)
                        c["recursive"], c["named"] = True, [rng.choice([".", "lib"])]
                        c["faults"] = c["faults"][:1]
                    yield c
        for _ in range(900 if thorough else 50):
            yield self.gen(rng, "inproc")
        if shutil.which("setpriv"):
            for opt in (sorted(SHAPE_OPTIONS) if thorough else ["plain", "skip", "fallback"]):
                for _ in range(3 if thorough else 2):
                    yield self.gen(rng, "child", opt=opt, unrecognised=True)
            for _ in range(60 if thorough else 4):
                yield self.gen(rng, "child")

    def argv(self, case):
        return ["annotate", "-c", "Joe Bloggs", "-l", "0BSD"] + SHAPE_OPTIONS[case["opt"]] + (["--recursive"] if case["recursive"] else []) + case["named"]

    def impl(self, case):
        import subprocess
        import sys
        with cli.scratch("rv-c16s-") as root:
            root = os.path.realpath(root)
            cli.write_tree(root, dict(SHAPE_FILES))
            before = shape_snapshot(root)
            try:
                if case["mode"] == "child":
                    for f in case["faults"]:
                        os.chmod(os.path.join(root, f["path"]), {"mode-0200": 0o200, "mode-0000": 0}[f["action"]])
                    probe = subprocess.run(SETPRIV + ["cat", os.path.join(root, case["faults"][0]["path"])], capture_output=True)
                    if probe.returncode == 0:
                        return "skipped:setpriv does not take the capabilities away here"
                    src = os.path.join(os.environ.get("REUSE_VERIF_REPO", "/repo"), "src")
                    r = subprocess.run(SETPRIV + [sys.executable, "-m", "reuse"] + self.argv(case), cwd=root, capture_output=True, text=True,
                                       env=dict(os.environ, PYTHONPATH=src, PYTHONDONTWRITEBYTECODE="1"), timeout=TIME_LIMIT)
                    code = r.returncode
                    tb = "Traceback (most recent call last)" in r.stderr
                    exc = r.stderr.strip().splitlines()[-1][:160] if tb else None
                else:
                    with Touches(root, case["faults"]) as t:
                        code, out, e = cli.run_cli(self.argv(case), root)
                    exc = None if e is None else "%s: %s" % (type(e).__name__, str(e).replace(root, "<root>")[:120])
                    case = dict(case, _touched={f["path"]: f["count"] for f in t.faults.values()})
            finally:
                for dp, dn, fn in os.walk(root):
                    for n in dn + fn:
                        if not os.path.islink(os.path.join(dp, n)):
                            os.chmod(os.path.join(dp, n), 0o755)
            after = shape_snapshot(root)
            changed = sorted(k for k in set(before) | set(after) if before.get(k) != after.get(k))
            marks = {}
            for k in changed:
                a = after.get(k)
                marks[k] = ("gone" if a is None else "dir" if a == "D" else "link" if a.startswith("L") else
                            "annotated" if a.startswith("F") and b"Joe Bloggs" in bytes.fromhex(a[1:]) and b"0BSD" in bytes.fromhex(a[1:]) else
                            "empty" if a == "F" else "other")
            return json.dumps({"exit": code, "exc": exc, "changed": marks, "touched": case.get("_touched")}, sort_keys=True)

    def oracle(self, case, impl_out):
        if impl_out.startswith("skipped"):
            return None
        what = " [`reuse %s`; %s]" % (" ".join(self.argv(case)), ", ".join(
            "%s %s%s" % (f["path"], f["action"], " at touch %d" % f["nth"] if "nth" in f else "") for f in case["faults"]))
        if impl_out.startswith(("timeout", "EXC")):
            return "traceback: %s%s" % (impl_out, what)
        r = json.loads(impl_out)
        if r["exc"]:
            return "traceback: the run ended in an unhandled %s%s" % (r["exc"], what)
        if r["exit"] not in (0, 1, 2):
            return "exit-status: %s%s" % (r["exit"], what)
        faulty = {f["path"] for f in case["faults"]}
        below = lambda p: any(p == f or p.startswith(f + "/") or p == f + ".license" for f in faulty)
        if r["exit"] == 2:
            stray = sorted(k for k in r["changed"] if not below(k))
            if stray:
                return "usage-error-after-writing: exit 2 but %s changed%s" % (stray, what)
            return None
        for k, m in r["changed"].items():
            if m in ("other", "empty") and not (m == "empty" and k.endswith(".license") and below(k)):
                return "half-written: %s is %s after the run%s" % (k, m, what)
        # the fault of one file does not abort the run: the healthy selected files with a recognised style are annotated
        selected = set()
        for n in case["named"]:
            if n in SHAPE_FILES:
                selected.add(n)
            elif case["recursive"]:
                selected |= {f for f in SHAPE_FILES if n == "." or f.startswith(n + "/")}
        if case["opt"] == "template-missing":
            return "accepted-missing-template: exit %s%s" % (r["exit"], what)
        for f in sorted(selected):
            if f in SHAPE_RECOGNISED and not below(f) and not (case["opt"] in ("skip-existing", "fallback+skip-existing") and f == "lib/has.py"):
                target = f + ".license" if case["opt"] == "force" else f
                if r["changed"].get(target) != "annotated":
                    return "neighbour-disturbed: %s was selected, is healthy and has a comment style but was not annotated (exit %s)%s" % (f, r["exit"], what)
        return None

    def nontrivial(self, case, impl_out):
        if not impl_out.startswith("{"):
            return None
        r = json.loads(impl_out)
        f = case["faults"][0]
        return ("r" if case["recursive"] else "n", len(case["named"]) > 1, case["opt"], f["action"], f.get("nth"), r["exit"])

    def show(self, case):
        return {"argv": self.argv(case), "faults": case["faults"], "mode": case["mode"], "tree": sorted(SHAPE_FILES)}


def bounded(stream_cls):
    """Every command run of the stream happens in a child process with the time limit: a run that does not come back is the
    observation 'timeout:<s>' and the oracle reports it as 'does not terminate'.  The cases the stream generates are handed to
    the children in batches (cli.run_bounded_batch); any other case (a replayed corpus case) runs in a child of its own."""
    inner_cases, inner_impl, inner_oracle = stream_cls.cases, stream_cls.impl, stream_cls.oracle
    BATCH = 40

    def key(case):
        return json.dumps(case, sort_keys=True, default=str)

    def cases(self, tier, rng):
        cli.warm_up()
        self._pending = list(inner_cases(self, tier, rng))
        self._index = {}
        for i, c in enumerate(self._pending):
            self._index.setdefault(key(c), i)
        self._done = {}
        self._kills = 0
        return iter(self._pending)

    def impl(self, case):
        k = key(case)
        done = getattr(self, "_done", None)
        if done is None or k not in getattr(self, "_index", {}):
            return cli.run_bounded(lambda: inner_impl(self, case), TIME_LIMIT)
        if k not in done:
            limit_kills = getattr(self, "MAX_TIMEOUTS", None)
            i = self._index[k]
            batch = self._pending[i:i + BATCH]
            outs = cli.run_bounded_batch(lambda c: inner_impl(self, c), batch, TIME_LIMIT,
                                         max_timeouts=None if limit_kills is None else max(limit_kills - self._kills, 0))
            for c, o in zip(batch, outs):
                done.setdefault(key(c), o)
                self._kills += o.startswith("timeout")
        return done[k]

    def oracle(self, case, impl_out):
        if impl_out.startswith("timeout"):
            return "does-not-terminate: `reuse %s` did not finish within %s s (killed)" % (
                case.get("cmd") or case.get("variant") or "annotate", impl_out.split(":")[1])
        if impl_out == "skipped":  # MAX_TIMEOUTS commands of this stream had to be killed already
            return None
        return inner_oracle(self, case, impl_out)

    inner_agree, inner_nontrivial = stream_cls.agree, stream_cls.nontrivial

    def agree(self, case, impl_out, model_out):
        return impl_out == "skipped" or inner_agree(self, case, impl_out, model_out)

    def nontrivial(self, case, impl_out):
        return None if impl_out == "skipped" or impl_out.startswith("timeout") else inner_nontrivial(self, case, impl_out)

    stream_cls.cases, stream_cls.impl, stream_cls.oracle, stream_cls.agree, stream_cls.nontrivial = cases, impl, oracle, agree, nontrivial
    return stream_cls


for _cls in (CliStream, PerFileStream, AnnotateStream, WalkRaceStream, TerminationStream, AnnotateShapesStream):
    bounded(_cls)


import c16t2      # noqa: E402  (needs the definitions above)

PROPERTY = Property(
    pid="C16",
    streams=[ShapeStream(), TreeStream(), BytesStream(), CliStream(), PerFileStream(), AnnotateStream(), AnnotateShapesStream(), TemplateStream(), WalkRaceStream(), TerminationStream()] + c16t2.STREAMS,
    assumptions=[
        "tomlkit, python-debian and the UTF-8 codec are oracles of the model: the outcomes 'not TOML' (TOMLKitError), 'not a dep5 file' "
        "(debian Error / ValueError) and 'not UTF-8' (UnicodeDecodeError) are enumerated inputs of Model.tomlFromFile / dep5FromFile; that "
        "these libraries raise nothing else is checked by the bytes stream (truncations, seeded mutations, NUL, invalid UTF-8, 1 MB lines), not proved",
        "Licensing.parse is the oracle parameter `parses` of the model (expression / None / ExpressionError|ParseError); the harness fills it "
        "from the real library for every string of a case; that it raises nothing else is exercised, not proved",
        "the sandbox runs as root, so permission-denied reads cannot be provoked with chmod alone: in the lint-family streams an unreadable covered "
        "file is represented by a file that vanishes between the directory walk (or argument validation) and the read — the same OSError path in "
        "_MultiprocessingContainer.__call__ / the annotate loop; for annotate (stream annotate-shapes) the kernel's own EACCES is obtained in a "
        "child `python -m reuse` started through setpriv without CAP_DAC_OVERRIDE / CAP_DAC_READ_SEARCH (skipped where setpriv cannot drop them), "
        "and in-process by fault injection at the n-th stat / lstat / access / open of the chosen path (os.stat, os.lstat, os.access, os.open, "
        "builtins.open, io.open are wrapped; questions asked through os.scandir entries are not counted); PermissionError on a configuration file "
        "is the model's `osError` input (mapped to exit 2 by C16_exit) and is not exercised end to end",
        "bdb.BdbQuit / KeyboardInterrupt (re-raised on purpose by _process_error for debugging) are outside the model's FileRes.exc",
        "project loading is claimed under the hypothesis that the files in LICENSES/ resolve to distinct identifiers (C16_*_partial); the "
        "excluded shape is a recorded known finding with a proved witness (C16_duplicate_license_witness)",
        "download is run only with --all and a stubbed urlopen (no network in the sandbox)",
    ],
)
