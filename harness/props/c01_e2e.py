"""C01 — stream `e2e-model`: the composed executable model of `reuse lint` (lean/ReuseVerif/Model/LintE2E.lean)
against the real command on generated project trees.

One *case* is a JSON-able project: {"flags": "<submodules><meson>", "tree": [[name, NODE]...]} with
NODE = ["d", [[name, NODE]...]] | ["l", target] | ["l", target, "abs"] | ["f", BODY]
(`["l", target]`: a symbolic link whose text is `target`; `["l", target, "abs"]`: the text is the absolute path of the
root-relative `target`), optionally "outside": [[name, NODE]...] — a directory `rv-outside` *next to* the project root (then the
case has a "root") for the targets of links that leave the project — and "liclinks": {"linked": [NAME...], "dangling":
[NAME...]} — the generator's record of the names below LICENSES/ (relative to it) that are reached through a symbolic link
(to the file itself, or to a directory on the way) resp. are dangling links; and BODY one of
  {"t": "text", "style": s, "cop": [notice...], "lic": [EXPR...], "pad": n, "snip": bool, "decoy": bool, "bad": bool, "crlf": bool}
  {"t": "bin", "tags": bool} | {"t": "empty"} | {"t": "raw", "s": text}
  {"t": "toml", "tables": [TABLE...], "broken": bool} | {"t": "dep5", "paras": [PARA...]}
TABLE = {"globs": [g...], "prec": None|"closest"|"aggregate"|"override", "cop": None|str|[str...], "lic": None|[EXPR...]}
PARA = {"globs": [g...], "cop": [line...], "lic": EXPR};   EXPR as in reports_common (["K", id] | ["AND", e, e] | ...).

The tree is written to disk for `reuse lint --json` and serialised (bytes, tomlkit's / python-debian's / license-expression's /
binaryornot's answers as oracle tables) for the driver op `e2e`.  The oracle is the generator's ground truth, computed with
the executable readings of the property texts that the other checks already use: c03.spec_covered (covered files),
c05.denotes (globs), c04.spec_items (sources and precedence), reports_common.expected_of / clauses_of (categories, verdict).
"""
import functools
import io
import json
import os
import re

from core import Stream, enc, dec, enc_list, dec_list, run_driver
import cli
import places
import reports_common as rc
import c03
import c04
import c05

CATS = ("missing", "unused", "bad", "deprecated", "noext", "nocop", "nolic", "readerr")

# ----------------------------------------------------------------------------
# bodies


def header_lines(b):
    a, pre, z = rc.STYLES[b.get("style", "py")]
    lines = [pre + n + "\n" for n in b.get("cop", [])]
    lines += ["%sSPDX-License-Identifier: %s\n" % (pre, rc.expr_text(e)) for e in b.get("lic", [])]
    if b.get("bad"):
        lines.append("%sSPDX-License-Identifier: MIT AND\n" % pre)
    if b.get("decoy"):
        lines += [pre + "REUSE-IgnoreStart\n", pre + "SPDX-License-Identifier: LicenseRef-decoy\n",
                  pre + "SPDX-FileCopyrightText: 1970 Decoy\n", pre + "REUSE-IgnoreEnd\n"]
    return a + "".join(lines) + z


def toml_text(b):
    if b.get("broken"):
        return "version = 1\n[[annotations]\npath = \n"
    out = ["version = 1\n"]
    for t in b["tables"]:
        item = ["[[annotations]]"]
        gs = [rc.toml_str(g) for g in t["globs"]]
        item.append("path = %s" % (gs[0] if len(gs) == 1 else "[%s]" % ", ".join(gs)))
        if t.get("prec"):
            item.append('precedence = "%s"' % t["prec"])
        if t.get("cop") is not None:
            c = t["cop"]
            item.append("SPDX-FileCopyrightText = %s" % (rc.toml_str(c) if isinstance(c, str) else "[%s]" % ", ".join(map(rc.toml_str, c))))
        if t.get("lic") is not None:
            ls = [rc.toml_str(rc.expr_text(e)) for e in t["lic"]]
            item.append("SPDX-License-Identifier = %s" % (ls[0] if len(ls) == 1 else "[%s]" % ", ".join(ls)))
        out.append("\n".join(item) + "\n")
    return "\n".join(out)


def dep5_text(b):
    out = ["Format: https://www.debian.org/doc/packaging-manuals/copyright-format/1.0/\nUpstream-Name: demo\n"
           "Upstream-Contact: Jane <jane@example.com>\nSource: https://example.com/demo\n"]
    for q in b["paras"]:
        out.append("Files: %s\nCopyright: %s\nLicense: %s\n" % (" ".join(q["globs"]), "\n           ".join(q["cop"]), rc.expr_text(q["lic"])))
    return "\n".join(out)


def body_bytes(b):
    t = b["t"]
    if t == "empty":
        return b""
    if t == "raw":
        return b["s"].encode("utf-8")
    if t == "hex":
        return bytes.fromhex(b["h"])
    if t == "bin":
        tags = b"SPDX-FileCopyrightText: 1999 Inside Binary\nSPDX-License-Identifier: LicenseRef-inside-binary\n" if b.get("tags") else b""
        return b"\x00\x01\x02binary\xff\xfe\x00" + tags + b"\x00\x03"
    if t == "toml":
        return toml_text(b).encode("utf-8")
    if t == "dep5":
        return dep5_text(b).encode("utf-8")
    assert t == "text"
    head = header_lines(b)
    if b.get("crlf"):
        head = head.replace("\n", "\r\n")
    pad = b.get("pad", 0)
    filler = ("filler line\n" * (pad // 12 + 1))[: max(pad - 1, 0)] + ("\n" if pad else "")
    if b.get("snip"):
        head = "SPDX-SnippetBegin\n" + head + "SPDX-SnippetEnd\n"
    text = filler + head + "\ncontent of a file\n" if b.get("padfirst", True) else head + "\n" + filler
    return text.encode("utf-8")


def own_truth_of_body(b):
    """(copyright lines, [EXPR...]) that reading this body yields, by construction"""
    if b["t"] != "text":
        return [], []
    if b.get("bad"):
        return [], []          # an expression that cannot be parsed drops everything
    if b.get("padfirst", True) and b.get("pad", 0) >= 4096 and not b.get("snip"):
        return [], []          # beyond the window
    return list(b.get("cop", [])), list(b.get("lic", []))


# ----------------------------------------------------------------------------
# tree helpers


def walk_nodes(tree, prefix=""):
    for name, node in tree:
        p = prefix + name
        yield p, node
        if node[0] == "d":
            yield from walk_nodes(node[1], p + "/")


def node_at(tree, path):
    cur = tree
    parts = path.split("/")
    for i, part in enumerate(parts):
        hit = [n for nm, n in cur if nm == part]
        if not hit:
            return None
        if i == len(parts) - 1:
            return hit[0]
        if hit[0][0] != "d":
            return None
        cur = hit[0][1]
    return None


OUTSIDE = "rv-outside"       # the directory next to the project root that holds case["outside"]


def materialise(root, tree, top=None):
    top = top or root
    for name, node in tree:
        p = os.path.join(root, name)
        if node[0] == "f":
            with open(p, "wb") as fp:
                fp.write(body_bytes(node[1]))
        elif node[0] == "l":
            os.symlink(os.path.normpath(os.path.join(top, node[1])) if node[2:] == ["abs"] else node[1], p)
        else:
            os.makedirs(p, exist_ok=True)
            materialise(p, node[1], top)


def materialise_case(root, case):
    materialise(root, case["tree"])
    if case.get("outside"):
        assert case.get("root"), "targets outside the project need a project directory below the scratch directory"
        out = os.path.join(os.path.dirname(root), OUTSIDE)
        os.makedirs(out)
        materialise(out, case["outside"], root)


class LinkView:
    """What the symbolic links of a case resolve to, computed on the case itself the way the kernel resolves a path (component
    by component, `..` of the *physical* directory, relative link texts read from the directory that holds the link, links to
    links followed, a bounded number of hops): used to serialise the tree for the model, never by an oracle."""

    def __init__(self, case):
        self.top = [["p", ["d", case["tree"]]], [OUTSIDE, ["d", case.get("outside", [])]]]

    def physical(self, parts):
        node = ["d", self.top]
        for part in parts:
            node = [n for nm, n in node[1] if nm == part][0]
        return node

    def resolve(self, parts, budget=40):
        """-> (node, physical components) of what `stat` finds at the path `parts` (from the virtual top), or None"""
        todo, cur, node = list(parts), [], ["d", self.top]
        while todo:
            part = todo.pop(0)
            if node[0] != "d":
                return None
            if part in ("", "."):
                continue
            if part == "..":
                cur = cur[:-1]
                node = self.physical(cur)
                continue
            hit = [n for nm, n in node[1] if nm == part]
            if not hit:
                return None
            if hit[0][0] == "l":
                budget -= 1
                if budget < 0:
                    return None
                text = hit[0][1].split("/")
                if hit[0][2:] == ["abs"]:
                    todo, cur, node = ["p"] + text + todo, [], ["d", self.top]
                elif hit[0][1].startswith("/"):
                    return None        # an absolute text of the generator's own making: points nowhere
                else:
                    todo = text + todo
                continue
            cur, node = cur + [part], hit[0]
        return node, cur


def c03_tree(tree, rename_tomls=False):
    out = []
    for name, node in tree:
        if node[0] == "f":
            n = name + ".probe" if (rename_tomls and name == "REUSE.toml") else name
            out.append((n, ("f", len(body_bytes(node[1])))))
        elif node[0] == "l":
            out.append((name, ("l",)))
        else:
            out.append((name, ("d", c03_tree(node[1], rename_tomls))))
    return out


# ----------------------------------------------------------------------------
# ground truth


def dep5_glob_match(g, p):
    """Debian copyright format: `*` any run of characters (slashes included), `?` one character, backslash escapes"""
    rx, i = [], 0
    while i < len(g):
        c = g[i]
        if c == "\\" and i + 1 < len(g):
            rx.append(re.escape(g[i + 1]))
            i += 2
            continue
        rx.append(".*" if c == "*" else "." if c == "?" else re.escape(c))
        i += 1
    return re.fullmatch("".join(rx), p, re.S) is not None


def hidden_lic_names(case):
    """regular files below LICENSES/ with a component that begins with a dot"""
    ln = node_at(case["tree"], "LICENSES")
    if ln is None or ln[0] != "d":
        return []
    return [p for p, node in walk_nodes(ln[1]) if node[0] == "f" and any(part.startswith(".") for part in p.split("/"))]


def truth(case, every_file=False):
    """-> {"status": "ok"|"config-error"|"duplicate", "files": {path: sorted items}, categories, "exit", "compliant", "violated"}

    `every_file`: clause (c) of C01 speaks of *every file in LICENSES/*; with every_file=True the files whose name, or whose
    directory's name, begins with a dot count like any other (the reading of the property text).  With False they are left out:
    that is what the tool does (glob('**') skips them), what the composed model mirrors, and what the streams about `reuse spdx`
    build on."""
    tree, flags = case["tree"], case["flags"]
    covered = sorted(c03.spec_covered(c03_tree(tree), flags))
    found = sorted(p[:-len(".probe")] for p in c03.spec_covered(c03_tree(tree, True), flags) if p.endswith("REUSE.toml.probe"))
    dep5_node = node_at(tree, ".reuse/dep5")
    tomls = {}
    for p in found:
        b = node_at(tree, p)[1]
        if b["t"] != "toml" or b.get("broken"):
            return {"status": "config-error"}
        tomls[os.path.dirname(p)] = b["tables"]
    if dep5_node is not None:
        if tomls:
            return {"status": "config-error"}
        if dep5_node[0] != "f" or dep5_node[1]["t"] != "dep5":
            return {"status": "config-error"}
    # LICENSES/
    lic = []
    ln = node_at(tree, "LICENSES")
    if ln is not None and ln[0] == "d":
        for p, node in walk_nodes(ln[1]):
            if node[0] == "f" and not any(part.startswith(".") for part in p.split("/")):
                lic.append(p)
    # ... and what the generator recorded as reached through symbolic links: a link that resolves to a regular file is a
    # licence text called what the link is called, a link that resolves to a directory is a sub-directory (a dangling link
    # is nothing); the names are the generator's own record, no link is followed here
    lic += [n for n in case.get("liclinks", {}).get("linked", []) if not any(part.startswith(".") for part in n.split("/"))]
    if not rc.dup_free({"lic": lic}):
        return {"status": "duplicate"}       # (the tool stops: C16; decided on the names the tool sees)
    if every_file:
        lic = lic + hidden_lic_names(case)
    files_abs = []
    per_file = {}
    per_exprs = {}
    for p in covered:
        d, name = os.path.dirname(p), os.path.basename(p)
        anc = [""]
        parts = d.split("/") if d else []
        for k in range(1, len(parts) + 1):
            anc.append("/".join(parts[:k]))
        levels, labels = [], []
        if dep5_node is not None:
            hit = None
            for q in dep5_node[1]["paras"]:
                if any(dep5_glob_match(g, p) for g in q["globs"]):
                    hit = q
            levels.append(None if hit is None else ("a", list(hit["cop"]), [hit["lic"]]))
            labels.append("D:.reuse/dep5")
        else:
            for a in anc:
                labels.append("T:" + (a + "/" if a else "") + "REUSE.toml")
                if a not in tomls:
                    levels.append(None)
                    continue
                relp = p[len(a) + 1:] if a else p
                hit = None
                for t in tomls[a]:
                    if any(c05.denotes(g, relp, True) for g in t["globs"]):
                        hit = t
                if hit is None:
                    levels.append(None)
                else:
                    c = hit.get("cop")
                    c = [] if c is None else [c] if isinstance(c, str) else list(c)
                    levels.append(((hit.get("prec") or "closest")[0], c, list(hit.get("lic") or [])))
        # own source
        sib = node_at(tree, p + ".license")
        own_label = "O:%s:h" % p
        unreadable = False
        if sib is not None and sib[0] == "f":
            own = own_truth_of_body(sib[1])
            own_label = "O:%s.license:l" % p
        elif sib is not None and sib[0] == "d":
            own, unreadable = ([], []), True
        else:       # absent, or a dangling symlink (the generator makes no other)
            own = own_truth_of_body(node_at(tree, p)[1])
        # EXPR values are lists: make them hashable for spec_items
        lv = [None if l is None else (l[0], l[1], [json.dumps(e) for e in l[2]]) for l in levels]
        items = c04.spec_items(lv, (own[0], [json.dumps(e) for e in own[1]]))
        has_override = any(l[0] == "o" for l in _visible(lv))
        if unreadable and not has_override:
            files_abs.append((p, False, False, []))
            continue
        out = []
        cop = False
        exprs = []
        for k, s, v in items:
            label = own_label if s == "own" else labels[int(s.split(":")[1])]
            if k == "C":
                out.append(["C", label, v])
                cop = cop or v != ""
            else:
                keys = rc.expr_keys(json.loads(v))
                out.append(["L", label, keys])
                exprs.append(keys)
        per_file[p] = sorted(out, key=json.dumps)
        per_exprs[p] = [json.loads(v) for k, s, v in items if k != "C"]     # the EXPR trees themselves (streams spdx-e2e)
        files_abs.append((p, True, cop, exprs))
    exp = rc.expected_of(files_abs, lic)
    exp["status"] = "ok"
    exp["files"] = per_file
    exp["exprs"] = per_exprs
    exp["violated"] = rc.clauses_of(files_abs, lic)
    exp["lic_names"] = lic
    return exp


def _visible(levels):
    out = []
    for l in levels:
        if l is None:
            continue
        out.append(l)
        if l[0] == "o":
            break
    return out


# ----------------------------------------------------------------------------
# the real tool

_KEYWORDS = {"AND", "OR", "WITH"}


def keys_of_rendered(s):
    """identifiers of a rendered expression, in order (independent of license-expression)"""
    return [t for t in re.split(r"[\s()]+", s) if t and t.upper() not in _KEYWORDS]


def src_label(source, stype):
    if stype == "reuse-toml":
        return "T:%s" % source
    if stype == "dep5":
        return "D:%s" % source
    if stype == "dot-license":
        return "O:%s:l" % source
    if stype == "file-header":
        return "O:%s:h" % source
    return "?:%s:%s" % (source, stype)


def run_impl(case):
    flags = case["flags"]
    opts = (["--include-submodules"] if flags[0] == "1" else []) + (["--include-meson-subprojects"] if flags[1] == "1" else [])
    with places.project_dir(case, "rv-e2e-") as root:
        materialise_case(root, case)
        saved = os.environ.get("_SUPPRESS_DEP5_WARNING")
        os.environ["_SUPPRESS_DEP5_WARNING"] = "1"
        try:
            code, out, exc = cli.run_cli(["--no-multiprocessing"] + opts + ["lint", "--json"], root)
        finally:
            if saved is None:
                os.environ.pop("_SUPPRESS_DEP5_WARNING", None)
            else:
                os.environ["_SUPPRESS_DEP5_WARNING"] = saved
        if exc is not None:
            if isinstance(exc, RuntimeError) and "Multiple licenses" in str(exc):
                return json.dumps({"status": "duplicate"})
            return "EXC:%s:%s" % (type(exc).__name__, str(exc)[:100])
        if code == 2:
            return json.dumps({"status": "config-error"})
        try:
            rep, _ = json.JSONDecoder().raw_decode(out[out.index("{"):])
        except Exception:
            return "EXC:output:%s" % (out[:100],)
        res = rc.canon_json(root, code, rep)
        files = {}
        for f in rep["files"]:
            items = [["C", src_label(c["source"], c["source_type"]), c["value"]] for c in f["copyrights"]]
            items += [["L", src_label(e["source"], e["source_type"]), e["value"]] for e in f["spdx_expressions"]]
            files[f["path"]] = sorted(items, key=json.dumps)
        res["files"] = files
        res["status"] = "ok"
        return json.dumps(res, sort_keys=True)


@functools.lru_cache(maxsize=None)
def canon_expr_text(v):
    """license-expression holds the expressions of one source as a set and compares AND / OR without regard to the order of
    their operands ('A AND B' == 'B AND A'): which of two equal expressions is printed depends on the set's iteration order.
    Both sides are therefore compared modulo that equality: operands sorted, recursively."""
    from reuse import _LICENSING

    def canon(e):
        args = getattr(e, "args", ())
        if not args:
            return str(e)
        return "(%s %s)" % (e.operator.strip(), " ".join(sorted({canon(a) for a in args})))
    try:
        return canon(_LICENSING.parse(v))
    except Exception:
        return v


def canon_files(files):
    out = {}
    for p, items in files.items():
        uniq = {json.dumps([k, src, canon_expr_text(v) if k == "L" else v]) for k, src, v in items}
        out[p] = sorted(uniq)
    return out


# ----------------------------------------------------------------------------
# serialisation for the driver


def enc_bytes(bs):
    return ",".join("%x" % b for b in bs)


def tree_tokens(tree, view=None, here=("p",), depth=0):
    """`view`: the LinkView of the case (None: every link is serialised as a dangling one); `here`: where `tree` physically lies"""
    toks = []
    for name, node in tree:
        if node[0] == "f":
            toks.append("F:%s:%s" % (enc(name), enc_bytes(body_bytes(node[1]))))
        elif node[0] == "l":
            hit = view.resolve(list(here) + [name]) if view is not None and depth < 6 else None
            if hit is None:
                toks.append("L:%s" % enc(name))
            elif hit[0][0] == "f":
                toks.append("LF:%s:%s" % (enc(name), enc_bytes(body_bytes(hit[0][1]))))
            else:
                toks.append("LD:%s" % enc(name))
                toks.extend(tree_tokens(hit[0][1], view, tuple(hit[1]), depth + 1))
                toks.append("E")
        else:
            toks.append("D:%s" % enc(name))
            toks.extend(tree_tokens(node[1], view, tuple(here) + (name,), depth))
            toks.append("E")
    return toks


def parsed_toml(text):
    """tomlkit's reading of a REUSE.toml as the list of its tables, or None when it does not load"""
    import tomlkit
    try:
        d = tomlkit.loads(text)
    except Exception:
        return None
    if not isinstance(d.get("version"), int) or isinstance(d.get("version"), bool):
        return None
    tables = []
    ann = d.get("annotations", [])
    if not isinstance(ann, list):
        return None
    for t in ann:
        def strs(v):
            if v is None:
                return []
            if isinstance(v, str):
                return [str(v)]
            return [str(x) for x in v]
        paths = strs(t.get("path"))
        prec = t.get("precedence", "closest")
        if not paths or prec not in ("closest", "aggregate", "override"):
            return None
        tables.append((paths, prec[0], strs(t.get("SPDX-FileCopyrightText")), strs(t.get("SPDX-License-Identifier"))))
    return tables


def parsed_dep5(text):
    """python-debian's reading of .reuse/dep5: [(globs, copyright field, licence synopsis)] or None"""
    from debian.copyright import Copyright
    try:
        c = Copyright(io.StringIO(text))
        return [(list(q.files), q.copyright, q.license.synopsis) for q in c.all_files_paragraphs()]
    except Exception:
        return None


def expr_rows(texts):
    """license-expression's answers for the raw expression texts"""
    from reuse import _LICENSING
    rows = []
    for t in texts:
        try:
            e = _LICENSING.parse(t)
            if e is None:
                raise ValueError("empty")
            rows.append((t, True, [str(k) for k in _LICENSING.license_keys(e)], str(e)))
        except Exception:
            rows.append((t, False, [], ""))
    return rows


def model_fields(case, rows):
    from binaryornot.helpers import is_binary_string
    tree = case["tree"]
    binaries, tomls = [], []
    dep5 = "-"
    for p, node in walk_nodes(tree):
        if node[0] != "f":
            continue
        data = body_bytes(node[1])
        if is_binary_string(data[:1024]):
            binaries.append(p)
        if os.path.basename(p) == "REUSE.toml":
            try:
                tabs = parsed_toml(data.decode("utf-8"))
            except UnicodeDecodeError:
                tabs = None
            # license-expression decides whether the expressions of the tables parse (a failure is a configuration error)
            if tabs is not None and any(not r[1] for r in expr_rows([l for t in tabs for l in t[3]])):
                tabs = None
            tomls.append(enc(os.path.dirname(p)))
            if tabs is None:
                tomls.append("!")
            else:
                tomls.append(str(len(tabs)))
                for g, pr, c, l in tabs:
                    tomls += [enc_list(g), pr, enc_list(c), enc_list(l)]
        if p == ".reuse/dep5":
            ps = parsed_dep5(data.decode("utf-8", "replace"))
            if ps is not None:
                dep5 = "=" + " ".join("%s/%s/%s" % (enc_list(g), enc(c), enc(l)) for g, c, l in ps)
    table = " ".join("%s/%s/%s/%s" % (enc(t), "1" if ok else "0", enc_list(ks), enc(r)) for t, ok, ks, r in rows)
    return ["e2e", case["flags"], " ".join(tree_tokens(tree, LinkView(case))), "~", "~", enc_list(binaries), table, dep5] + tomls


def run_model(cases):
    """two driver rounds: the first answers with the expressions license-expression has to be asked about"""
    rows = [[] for _ in cases]
    outs = run_driver(["\t".join(model_fields(c, r)) for c, r in zip(cases, rows)])
    again = [i for i, o in enumerate(outs) if o.startswith("need:")]
    if again:
        for i in again:
            rows[i] = expr_rows(dec_list(outs[i][len("need:"):]))
        outs2 = run_driver(["\t".join(model_fields(cases[i], rows[i])) for i in again])
        for i, o in zip(again, outs2):
            outs[i] = o
    return outs


def model_canon(out):
    if out in ("config-error", "duplicate"):
        return json.dumps({"status": out})
    if not out.startswith("ok|"):
        return "MODEL:" + out[:200]
    parts = out.split("|")
    d = {}
    for part in parts[1:]:
        k, v = part.split("=", 1)
        d[k] = v
    res = json.loads(rc.model_report_out("|".join(p for p in parts[1:] if not p.startswith(("files=", "lics=", "hyp=")))))
    files = {}
    for f in (d["files"].split(" ") if d["files"] else []):
        path, readable, items = f.split("/")
        if readable != "1":
            continue
        out_items = []
        for it in (items.split("+") if items else []):
            kind, src, val = it.split("^")
            sp = src.split(":")
            label = "%s:%s" % (sp[0], dec(sp[1])) + (":" + sp[2] if len(sp) > 2 else "")
            out_items.append([kind, label, dec(val)])
        # the tool holds the lines / expressions of one source as sets
        uniq = sorted({json.dumps(x) for x in out_items})
        files[dec(path)] = [json.loads(x) for x in uniq]
    res["files"] = files
    res["status"] = "ok"
    return json.dumps(res, sort_keys=True), d.get("hyp", "")


# ----------------------------------------------------------------------------
# generator

DIRS = ["src", "src/deep", "docs", "a b", "sub", "sub/inner", ".config", "subprojects/x", "subprojects/x/src", "3rdparty", "Zed"]
FILES = ["a.py", "b.c", "m.html", "n.txt", "t.tex", "q.sql", "k.cpp", "img.png", "data.bin", "Makefile", "x y.txt", "ü.py", "z"]
NOTICES = ["SPDX-FileCopyrightText: %d Holder %d", "SPDX-FileCopyrightText: © %d Jane Doe %d <jane@example.com>",
           "Copyright (C) %d Some Corp %d", "© %d Ümlaut GmbH %d", "SPDX-FileCopyrightText: Copyright %d Contributors %d"]


def add_path(tree, path, node):
    parts = path.split("/")
    cur = tree
    for part in parts[:-1]:
        hit = [n for nm, n in cur if nm == part]
        if hit:
            if hit[0][0] != "d":
                return False
            cur = hit[0][1]
        else:
            new = ["d", []]
            cur.append([part, new])
            cur = new[1]
    if any(nm == parts[-1] for nm, _ in cur):
        return False
    cur.append([parts[-1], node])
    return True


def pop_path(tree, path):
    """remove the entry at `path` (through real directories) and return its node"""
    parts = path.split("/")
    cur = tree
    for part in parts[:-1]:
        cur = [n for nm, n in cur if nm == part][0][1]
    for i, (nm, n) in enumerate(cur):
        if nm == parts[-1]:
            del cur[i]
            return n
    raise KeyError(path)


def _put(case, where, node):
    """`where`: root-relative; '../rv-outside/...' lies next to the project"""
    if where.startswith("../" + OUTSIDE + "/"):
        return add_path(case.setdefault("outside", []), where[len(OUTSIDE) + 4:], node)
    return add_path(case["tree"], where, node)


def _link(at, to, absolute=False):
    """the node of a symbolic link that lies at the root-relative place `at` and points at the root-relative place `to`"""
    if absolute or (at.startswith("../") and not to.startswith("../")):
        return ["l", to, "abs"]        # (a link that lies outside and points into the project names the root: always absolute)
    return ["l", os.path.relpath(os.path.normpath("/R/p/" + to), os.path.dirname("/R/p/" + at))]


DIR_TARGETS = ["nested", "nested", "dotreuse", "dotreuse", "outside", "outside", "hidden", "plain"]
FILE_TARGETS = ["alias", "project", "project", "covered", "dotreuse", "hidden", "outside", "outside", "chain"]
NESTED = ["vendor/LICENSES", "third_party/x/LICENSES", "src/ext/LICENSES"]
EXTRA_IDS = ["Zlib", "ISC", "Unlicense", "LicenseRef-linked", "nonsense", "GPL-1.0"]


def add_lic_links(rng, case, used=()):
    """Some entries below LICENSES/ of a finished project become symbolic links.  A sub-directory (an existing one, a new one
    into which top-level texts move, a hidden one, now and then LICENSES itself) becomes a link to a directory that lies
    elsewhere (a LICENSES directory deeper in the project, below .reuse/, a hidden pool below LICENSES/, an ordinary directory
    of the project, a directory outside the project); one to three texts — inside linked directories too — become links to
    regular files (another text, an excluded file of the project, a covered file, below .reuse/, a hidden store, outside the
    project, a link to a link), relative or absolute; dangling links and links with hidden names that are called like licence
    texts nobody provides.  The names of the texts do not change; case["liclinks"] records which are reached through links."""
    tree = case["tree"]
    ln = node_at(tree, "LICENSES")
    if ln is None or ln[0] != "d":
        return case
    texts = [p for p, node in walk_nodes(ln[1]) if node[0] == "f"]
    if not texts:
        return case
    linked, dangling = [], []
    count = [0]

    def fresh():
        count[0] += 1
        return count[0]

    lic_at = "LICENSES"                   # where the entries of LICENSES/ physically lie
    moved = {}                            # logical directory below LICENSES/ ('' = LICENSES itself) -> where it physically lies

    def place_of(name):
        for d, t in moved.items():
            if d == "":
                return t + "/" + name
            if name == d or name.startswith(d + "/"):
                return t + name[len(d):]
        return "LICENSES/" + name

    def dir_target(kind, k, below_lic=True):
        if kind == "nested":
            return NESTED[k % 3]
        if kind == "dotreuse":
            return ".reuse/texts-%d" % k
        if kind == "hidden" and below_lic:
            return "LICENSES/.pool/d%d" % k
        if kind == "plain":
            return "assets/texts-%d" % k
        return "../%s/dir-%d" % (OUTSIDE, k)

    # a directory on the way is a link
    r = rng.random()
    if r < 0.5:
        d = None
        subs = sorted({n.split("/")[0] for n in texts if "/" in n})
        top = [n for n in texts if "/" not in n]
        if r < 0.04:
            d = ""
        elif subs and r < 0.25:
            d = rng.choice(subs)
        elif top:
            d = rng.choice(["shared", "third-party", "deep/er", "x y", "shared", ".dotted"])
            if any(n == d.split("/")[0] or n.startswith(d.split("/")[0] + "/") for n in texts):
                d = None
            else:
                # top-level texts move into the new directory (a hidden one takes one text at most: what is in it is not provided)
                for n in rng.sample(top, 1 if d.startswith(".") else rng.randint(1, min(3, len(top)))):
                    add_path(tree, "LICENSES/%s/%s" % (d, n), pop_path(tree, "LICENSES/" + n))
                    texts[texts.index(n)] = d + "/" + n
        if d is not None:
            k = fresh()
            kind = rng.choice(DIR_TARGETS if d else ["nested", "dotreuse", "outside"])
            if kind == "plain" and any(c03.workaround_name(n.rsplit("/", 1)[-1]) for n in texts):
                kind = "dotreuse"       # (a text called CAL-1.0.txt in a covered directory would meet C03's known finding about that name)
            t = dir_target(kind, k)
            at = "LICENSES/" + d if d else "LICENSES"
            if _put(case, t, pop_path(tree, at)):
                add_path(tree, at, _link(at, t, rng.random() < 0.3))
                moved[d] = t
                if d == "":
                    lic_at = t
                linked += [n for n in texts if d == "" or n.startswith(d + "/")]
            else:
                raise AssertionError("directory target taken: %s" % t)

    # texts are links to regular files
    plain = [n for n in texts if not n.endswith(".license")]
    chosen = rng.sample(plain, min(len(plain), rng.choice([0, 1, 1, 2, 3]) if moved else rng.choice([1, 1, 2, 3])))
    for n in chosen:
        k = fresh()
        kind = rng.choice(FILE_TARGETS)
        at = place_of(n)
        holder = case.get("outside", []) if at.startswith("../") else tree
        inner = at[len(OUTSIDE) + 4:] if at.startswith("../") else at
        node = pop_path(holder, inner)
        hop = None
        if kind == "alias":
            others = [m for m in plain if m not in chosen]
            to = place_of(rng.choice(others)) if others else None
        elif kind == "covered":
            cands = [p for p, nd in walk_nodes(tree) if nd[0] == "f" and not p.endswith(".license") and not p.startswith("LICENSES/")
                     and nd[1].get("t") == "text"]
            to = rng.choice(cands) if cands else None
        else:
            to = {"project": ["COPYING-%d", "legal/LICENSE-%d.txt", "LICENSE.%d.md"][k % 3] % k,
                  "dotreuse": ".reuse/store/text-%d" % k,
                  "hidden": lic_at + "/.store/text-%d" % k,
                  "outside": "../%s/text-%d" % (OUTSIDE, k),
                  "chain": "docs/COPYING-%d.txt" % k}[kind]
            if not _put(case, to, node):
                to = None
            elif kind == "chain":
                hop = lic_at + "/.store/hop-%d" % k
                _put(case, hop, _link(hop, to))
        if to is None:
            _put(case, at, node)           # nothing to point at: the text stays a regular file
            continue
        _put(case, at, _link(at, hop or to, rng.random() < 0.25))
        if n not in linked:
            linked.append(n)

    # links that provide nothing: dangling ones, hidden ones
    provided = {rc.carried(n.rsplit("/", 1)[-1])[0] for n in plain}
    spare = [x for x in sorted({rc.base(u) for u in used}) + EXTRA_IDS if x not in provided and "/" not in x]
    rng.shuffle(spare)
    if spare and rng.random() < 0.4:
        x = spare.pop()
        dirs = sorted({n.rsplit("/", 1)[0] + "/" for n in texts if "/" in n and not n.startswith(".")})
        n = rng.choice(["", ""] + dirs) + x + rng.choice([".txt", ".txt", ""])
        if _put(case, place_of(n), ["l", rng.choice(["no/such/file-%d" % fresh(), "../gone.txt", x + ".missing"])]):
            dangling.append(n)
    if spare and rng.random() < 0.2:
        x = spare.pop()
        k = fresh()
        if rng.random() < 0.5:
            # a hidden link to a text
            to = ".reuse/store/text-%d" % k
            at = place_of("." + x + ".txt")
            if _put(case, to, ["f", {"t": "raw", "s": "licence text behind a hidden link\n"}]):
                _put(case, at, _link(at, to))
        else:
            # a hidden link to a directory that holds a text
            to = rng.choice([".reuse/more-%d" % k, "tools/LICENSES"])      # (a place no other link leads to)
            at = place_of(".more")
            if _put(case, to + "/" + x + ".txt", ["f", {"t": "raw", "s": "licence text below a hidden link\n"}]):
                _put(case, at, _link(at, to))
    if case.get("outside") and not case.get("root"):
        case["root"] = rng.choice(places.ROOT_NAMES[:8])
    case["liclinks"] = {"linked": linked, "dangling": dangling}
    return case


def rand_notices(rng, n):
    return [rng.choice(NOTICES) % (rng.randint(1990, 2024), rng.randint(0, 9)) for _ in range(n)]


def rand_text_body(rng, pool, style, full=None):
    r = rng.random() if full is None else (0.0 if full else 0.99)
    b = {"t": "text", "style": style, "cop": [], "lic": []}
    if r < 0.70:
        b["cop"], b["lic"] = rand_notices(rng, rng.randint(1, 2)), [rc.rand_expr(rng, pool) for _ in range(rng.randint(1, 2))]
    elif r < 0.76:
        b["cop"] = rand_notices(rng, 1)
    elif r < 0.82:
        b["lic"] = [rc.rand_expr(rng, pool)]
    elif r < 0.90:
        pass
    else:
        b["cop"], b["lic"] = rand_notices(rng, 1), [rc.rand_expr(rng, pool)]
        k = rng.random()
        if k < 0.25:
            b["pad"] = rng.choice([4096, 4096, 4100, 5000, 8200])          # header beyond the window
        elif k < 0.5:
            b["pad"], b["snip"] = rng.choice([4096, 4100, 6000]), True       # ... but announced by a snippet marker
        elif k < 0.65:
            b["pad"] = rng.choice([3000, 3900, 4000])                        # header inside or straddling the window edge: keep it inside
            b["pad"] = min(b["pad"], 3500)
        elif k < 0.8:
            b["bad"] = True
        elif k < 0.9:
            b["decoy"] = True
        else:
            b["crlf"] = True
    return b


def gen_case(rng, links=False):
    """links: one project in three reaches some of its licence texts through symbolic links (add_lic_links)"""
    cl = rc.id_classes()
    t = rc.table()
    plain = [x for x in cl["current"] if not ("." in x and x[:x.rfind(".")] in t)]
    pool = rng.sample(plain, 3) + rng.sample(cl["licref"], 1) + ["MIT", "0BSD"]
    if rng.random() < 0.2:
        pool.append(rng.choice(cl["licreflike"]))       # an ill-formed LicenseRef- look-alike, used like any other identifier
    flags = rng.choice(["00", "00", "01", "10"])
    glob = rng.choice(["none", "toml", "toml", "toml", "dep5"])
    tree = []
    dirs = [""] + rng.sample(DIRS, rng.randint(1, 4))
    if rng.random() < 0.35:
        # directories whose names merely contain the name of an exempt directory (as a prefix, a suffix, in the middle, in another
        # case), at the top level or below another directory of the project: ordinary directories, their files are covered
        for _ in range(rng.randint(1, 2)):
            above = rng.choice(["", "", ""] + [x + "/" for x in dirs[1:]])
            dirs.append(above + rng.choice(rc.LOOKALIKE_DIRS) + rng.choice(["", "", "/workflows"]))
    files = []
    for d in dirs:
        for name in rng.sample(FILES, rng.randint(0 if d else 1, 3)):
            p = (d + "/" if d else "") + name
            binary = name.endswith((".png", ".bin"))
            body = {"t": "bin", "tags": rng.random() < 0.5} if binary else rand_text_body(rng, pool, rc.style_for(name))
            if not add_path(tree, p, ["f", body]):
                continue
            files.append(p)
            r = rng.random()
            if binary:
                r = r * 0.45       # binaries mostly carry their information in a sibling
            if r < 0.12:
                add_path(tree, p + ".license", ["f", rand_text_body(rng, pool, "txt", full=True)])
            elif r < 0.16:
                add_path(tree, p + ".license", ["f", rand_text_body(rng, pool, "txt")])
            elif r < 0.19:
                add_path(tree, p + ".license", ["f", {"t": "empty"}])
            elif r < 0.22:
                add_path(tree, p + ".license/inner.txt", ["f", {"t": "raw", "s": "x\n"}])
            elif r < 0.25:
                add_path(tree, p + ".license", ["l", "nowhere"])
    # material that is not covered
    extras = [("LICENSE", {"t": "raw", "s": "no tags here\n"}), ("docs/COPYING.md", {"t": "raw", "s": "text\n"}), ("bom.spdx", {"t": "raw", "s": "x\n"}),
              ("orphan.license", {"t": "text", "style": "txt", "cop": rand_notices(rng, 1), "lic": [["K", "LicenseRef-orphan"]]}),
              ("src/empty.py", {"t": "empty"}),
              (".hg/store.py", {"t": "text", "style": "py", "cop": [], "lic": [["K", "LicenseRef-in-hg"]]}),
              ("src/LICENSES/GPL-9.9.txt", {"t": "raw", "s": "not a licence directory\n"}),
              ("subprojects/y/m.py", {"t": "text", "style": "py", "cop": rand_notices(rng, 1), "lic": [rc.rand_expr(rng, pool)]})]
    for p, b in rng.sample(extras, rng.randint(0, 4)):
        add_path(tree, p, ["f", b])
    if rng.random() < 0.1:
        # a regular file called what an exempt directory is called: covered like any other file
        p = rng.choice(rc.EXEMPT_NAMED_FILES)
        if add_path(tree, p, ["f", rand_text_body(rng, pool, "txt")]):
            files.append(p)
    if rng.random() < 0.3 and files:
        add_path(tree, rng.choice(["link.py", "src/link.c"]), ["l", rng.choice(["nowhere", os.path.basename(files[0])])])
    # global licensing
    if glob == "toml":
        tdirs = [d for d in dirs if d == "" or rng.random() < 0.45]
        if "" not in tdirs and rng.random() < 0.5:
            tdirs.insert(0, "")
        for d in tdirs:
            below = [f for f in files if (f.startswith(d + "/") if d else True)]
            tables = []
            if d == "" and rng.random() < 0.75:
                tables.append({"globs": ["**"], "prec": None, "cop": rand_notices(rng, 1), "lic": [rc.rand_expr(rng, pool)]})
            for _ in range(rng.randint(1, 3)):
                gs = []
                for _ in range(rng.randint(1, 2)):
                    k = rng.random()
                    relf = [f[len(d) + 1:] if d else f for f in below]
                    if k < 0.3 and relf:
                        gs.append(rc.glob_escape(rng.choice(relf)))
                    elif k < 0.45:
                        gs.append(rng.choice(["*.py", "*.c", "*", "*.txt"]))
                    elif k < 0.6:
                        gs.append(rng.choice(["**/*.py", "**/*.c", "**/*.html", "**/z", "**/deep/*"]))
                    elif k < 0.72:
                        gs.append("**")
                    elif k < 0.88 and relf:
                        f = rng.choice(relf)
                        gs.append((f.split("/")[0] + "/**") if "/" in f else "**/" + rc.glob_escape(f))
                    else:
                        gs.append("nomatch/**")
                nc, nl = rng.choice([(1, 1), (1, 1), (2, 1), (1, 0), (0, 1), (0, 0), (1, 2)])
                cop = rand_notices(rng, nc)
                cop_field = None if nc == 0 and rng.random() < 0.7 else (cop[0] if nc == 1 and rng.random() < 0.5 else cop)
                if d == "" and rng.random() < 0.04:
                    cop_field = rng.choice(["", [""]])      # an empty string is no copyright notice
                tables.append({"globs": gs, "prec": rng.choice([None, "closest", "closest", "aggregate", "aggregate", "override"]),
                               "cop": cop_field, "lic": None if nl == 0 else [rc.rand_expr(rng, pool) for _ in range(nl)]})
            add_path(tree, (d + "/" if d else "") + "REUSE.toml", ["f", {"t": "toml", "tables": tables}])
        r = rng.random()
        if r < 0.06:
            add_path(tree, rng.choice(["docs", "sub", "Zed"]) + "/REUSE.toml", ["f", {"t": "empty"}])          # 0 bytes: ignored
        elif r < 0.12:
            add_path(tree, rng.choice([".hg", "LICENSES", "subprojects/x"]) + "/REUSE.toml", ["f", {"t": "toml", "tables": [], "broken": True}])
        elif r < 0.15:
            add_path(tree, "docs/REUSE.toml", ["l", "../REUSE.toml"])                                             # symlink: ignored
        elif r < 0.17:
            add_path(tree, rng.choice(["docs", "Zed"]) + "/REUSE.toml", ["f", {"t": "toml", "tables": [], "broken": True}])
    elif glob == "dep5":
        paras = []
        nospace = [f for f in files if " " not in f]
        for _ in range(rng.randint(1, 3)):
            k = rng.random()
            if k < 0.35 and nospace:
                gs = [rng.choice(nospace).replace("\\", "\\\\").replace("*", "\\*").replace("?", "\\?")]
            elif k < 0.6:
                gs = [rng.choice(["*", "src/*", "*.py", "docs/*"])]
            elif k < 0.8:
                gs = ["*.c", "sub/*"]
            else:
                gs = ["nomatch/*"]
            paras.append({"globs": gs, "cop": ["%d Global Holder %d" % (rng.randint(1990, 2020), i) for i in range(rng.randint(1, 2))],
                          "lic": rc.rand_expr(rng, pool)})
        add_path(tree, ".reuse/dep5", ["f", {"t": "dep5", "paras": paras}])
        if rng.random() < 0.03:
            add_path(tree, "REUSE.toml", ["f", {"t": "toml", "tables": [{"globs": ["**"], "prec": None, "cop": ["2000 X"], "lic": None}]}])
    case = {"flags": flags, "tree": tree}
    where = places.choose(rng)
    if where:
        case["root"] = where          # the project lives in a directory with an unusual name (places.py); no oracle looks at it
    # LICENSES/: provide what is used, then disturb
    tr = truth(case)
    if tr["status"] == "ok":
        used = sorted({rc.base(k) for items in tr["files"].values() for it in items if it[0] == "L" for k in it[2]})
        names = []
        for x in used:
            if not (x in t or rc.is_licref(x)):
                # not a valid identifier: its text is provided all the same three times out of four (it stays a bad licence)
                if not (x in cl["licreflike"] and rng.random() < 0.75):
                    continue
            name = x + rng.choice([".txt", ".txt", ".md"])
            r = rng.random()
            if r < 0.15:
                name = "sub/" + name
            elif r < 0.2:
                name = "sub/deeper/" + name
            elif r < 0.24:
                name = ".hidden/" + name          # glob('**') does not look into hidden directories: the text is missing
            elif r < 0.27:
                name = "." + name                  # nor at hidden files
            names.append(name)
            if rng.random() < 0.12:
                names.append(name + ".license")
        for _ in range(rng.choice([0, 0, 0, 0, 1, 1, 2])):
            k = rng.random()
            if k < 0.25 and names:
                names.remove(rng.choice(names))
            elif k < 0.45:
                names.append(rng.choice(plain + cl["exception"]) + ".txt")
            elif k < 0.55:
                names.append(rng.choice(cl["unknown"] + cl["wrongcase"] + cl["licreflike"] + rc.LICREF_LIKE_NAMES) + ".txt")
            elif k < 0.65:
                names.append(rng.choice(plain))
            elif k < 0.75:
                names.append(rng.choice(cl["deprecated"]) + ".txt")
            elif k < 0.85:
                names.append(".keep")
            else:
                names.append("sub/README")
        dup = None
        if rng.random() < 0.02 and names:
            n0 = names[0].rsplit("/", 1)[-1]
            dup = "dup/" + n0.rsplit(".", 1)[0] + ".text"      # a second text for one identifier: the tool stops
        seen = []
        for n in names:
            if n not in seen and rc.dup_free({"lic": [m for m in seen + [n] if not any(part.startswith(".") for part in m.split("/"))]}):
                seen.append(n)
        if seen or rng.random() < 0.8:
            for n in seen:
                add_path(tree, "LICENSES/" + n, ["f", {"t": "raw", "s": "licence text of %s\n" % n}])
            if not seen:
                add_path(tree, "LICENSES/.keep", ["f", {"t": "empty"}])
            if dup and names[0] in seen:
                add_path(tree, "LICENSES/" + dup, ["f", {"t": "raw", "s": "again\n"}])
        elif rng.random() < 0.5:
            add_path(tree, "LICENSES", ["f", {"t": "raw", "s": "a file, not a directory\n"}])
        if links and rng.random() < 0.35:
            add_lic_links(rng, case, used)
    return case


def link_fixed_cases():
    """small hand-made projects, one per way a licence text can be reached (or not) through a symbolic link below LICENSES/:
    `a.py` uses MIT, `b.c` uses 0BSD; each case names its linked / dangling entries itself"""
    def f(text):
        return ["f", {"t": "raw", "s": text}]

    def src(style, ident):
        return ["f", {"t": "text", "style": style, "cop": ["SPDX-FileCopyrightText: 2020 Jane Doe"], "lic": [["K", ident]]}]

    def mk(lic, linked, dangling=(), extra=(), outside=None, lic_node=None):
        tree = [["a.py", src("py", "MIT")], ["b.c", src("c", "0BSD")]]
        tree.append(["LICENSES", lic_node if lic_node is not None else ["d", lic]])
        tree += [list(e) for e in extra]
        case = {"flags": "00", "tree": tree, "liclinks": {"linked": list(linked), "dangling": list(dangling)}}
        if outside is not None:
            case["outside"] = outside
            case["root"] = "my project"
        return case

    t = "licence text\n"
    bsd = ["0BSD.txt", f(t)]
    return [
        # links to regular files: relative into a hidden store, absolute to an excluded file of the project, outside the
        # project, a link to a link, another text of LICENSES/, a covered file
        mk([bsd, ["MIT.txt", ["l", ".store/t"]], [".store", ["d", [["t", f(t)]]]]], ["MIT.txt"]),
        mk([bsd, ["MIT.txt", ["l", "COPYING-1", "abs"]]], ["MIT.txt"], extra=[("COPYING-1", f(t))]),
        mk([bsd, ["MIT.txt", ["l", "../../rv-outside/text-1"]]], ["MIT.txt"], outside=[["text-1", f(t)]]),
        mk([bsd, ["MIT.txt", ["l", "../rv-outside/text-1", "abs"]]], ["MIT.txt"], outside=[["text-1", f(t)]]),
        mk([bsd, ["MIT.txt", ["l", ".store/hop"]], [".store", ["d", [["hop", ["l", "../../docs/COPYING.txt"]]]]]], ["MIT.txt"],
           extra=[("docs", ["d", [["COPYING.txt", f(t)]]])]),
        mk([bsd, ["MIT.txt", ["l", "0BSD.txt"]]], ["MIT.txt"]),
        mk([bsd, ["MIT.txt", ["l", "../a.py"]]], ["MIT.txt"]),
        mk([bsd, ["sub", ["d", [["MIT", ["l", "../0BSD.txt"]]]]]], ["sub/MIT"]),
        # links to directories: inside the project, outside with a link inside it, LICENSES itself, a link inside a linked directory
        mk([bsd, ["shared", ["l", "../vendor/LICENSES"]]], ["shared/MIT.txt", "shared/MIT.txt.license", "shared/.hid/Zlib.txt"],
           extra=[("vendor", ["d", [["LICENSES", ["d", [["MIT.txt", f(t)], ["MIT.txt.license", f("x\n")], [".hid", ["d", [["Zlib.txt", f(t)]]]]]]]]])]),
        mk([bsd, ["deep", ["d", [["er", ["l", "../rv-outside/dir-1", "abs"]]]]]], ["deep/er/MIT.txt", "deep/er/sub/Zlib.txt"],
           outside=[["dir-1", ["d", [["MIT.txt", ["l", "COPYING-1", "abs"]], ["sub", ["d", [["Zlib.txt", f(t)]]]]]]]],
           extra=[("COPYING-1", f(t))]),
        mk(None, ["0BSD.txt", "MIT.txt", "sub/Zlib.txt"], lic_node=["l", ".reuse/texts"],
           extra=[(".reuse", ["d", [["texts", ["d", [["0BSD.txt", f(t)], ["MIT.txt", f(t)], ["sub", ["d", [["Zlib.txt", f(t)]]]]]]]]])]),
        mk(None, ["0BSD.txt", "MIT.txt"], lic_node=["l", "../rv-outside/lics", "abs"], outside=[["lics", ["d", [["0BSD.txt", f(t)], ["MIT.txt", f(t)]]]]]),
        mk([bsd, ["one", ["l", "../.reuse/A"]]], ["one/two/MIT.txt"],
           extra=[(".reuse", ["d", [["A", ["d", [["two", ["l", "../B"]]]]], ["B", ["d", [["MIT.txt", f(t)]]]]]])]),
        # nothing is provided: dangling links, hidden links, LICENSES a link to a regular file / a dangling link
        mk([bsd, ["MIT.txt", ["l", "no/such/file"]]], [], ["MIT.txt"]),
        mk([bsd, ["MIT.txt", f(t)], ["Zlib.txt", ["l", "../gone"]], ["sub", ["d", [["ISC.txt", ["l", "ISC.missing"]]]]]], [], ["Zlib.txt", "sub/ISC.txt"]),
        mk([bsd, [".MIT.txt", ["l", "0BSD.txt"]]], [".MIT.txt"]),
        mk([bsd, [".more", ["l", "../.reuse/texts"]]], [".more/MIT.txt"], extra=[(".reuse", ["d", [["texts", ["d", [["MIT.txt", f(t)]]]]]])]),
        mk([bsd, ["MIT.txt", f(t)], ["gone", ["l", "../nowhere"]]], [], ["gone"]),
        mk(None, [], lic_node=["l", "a.py"]),
        mk(None, [], lic_node=["l", "nowhere"]),
    ]


# ----------------------------------------------------------------------------
# the stream


class E2EModelStream(Stream):
    name = "e2e-model"
    rule = ("generated projects (1-5 directories incl. names with blanks, dots, `subprojects/x`, one project in three with directories whose "
            "names have .git / .hg / .sl / LICENSES / .reuse as a proper prefix, suffix, in the middle or in another case (`.github/workflows`, "
            "`x.git`, `OLD-LICENSES`, `a.reuse.b`, `licenses`), at the top level or deeper, and regular files called `.hg`, `LICENSES`, … ; text files with headers in 7 comment styles "
            "and 5 notice forms, tags beyond the 4 KiB window with and without snippet marker, unparseable expression, ignore block, CRLF; "
            "binaries; .license siblings: full / partial / empty / a directory / a dangling symlink; excluded names and directories, empty "
            "files, symlinks; nested REUSE.toml files with 1-4 tables, 10 glob shapes relative to their own directory, the three "
            "precedences, string / list / empty-string copyright values, empty / broken / symlinked / excluded REUSE.toml; .reuse/dep5 with "
            "1-3 paragraphs; one project in five uses an ill-formed LicenseRef- look-alike (underscore, non-ASCII, colon, empty tail) like any "
            "other identifier, its text provided three times out of four; LICENSES/ with sub-directories, hidden files and directories, "
            ".license companions and 7 kinds of disturbance; in one project in three some LICENSES/ entries are symbolic links: one to three "
            "texts are links to regular files (another text, an excluded file of the project, a covered file, below .reuse/, a hidden store "
            "below LICENSES/, a file outside the project, a link to a link; relative or absolute texts), a sub-directory — existing, new, hidden, "
            "now and then LICENSES itself — is a link to a directory (a LICENSES/ deeper in the project, below .reuse/, a hidden pool, an "
            "ordinary covered directory, outside the project) with links inside it, dangling links and hidden links called like texts nobody "
            "provides; preceded by 20 hand-made projects, one per way of reaching or not reaching a text through a link) "
            "written to disk for the real `reuse lint --json` and serialised for the composed Lean model (driver op `e2e`, two rounds: "
            "license-expression, tomlkit, python-debian and binaryornot answer as oracle tables; a symbolic link is serialised with what it "
            "resolves to — nothing, the bytes of a regular file, the entries of a directory — as computed on the case by LinkView); compared: status, file list, per-file "
            "copyright lines / expressions with their source, the eight collections, used licences, verdict and exit status; oracle = "
            "generator ground truth through c03.spec_covered, c05.denotes, c04.spec_items, reports_common.expected_of/clauses_of over the regular "
            "files below LICENSES/ plus the names the generator recorded as reached through links (no link is followed by the oracle); "
            "non-trivial = distinct reports")

    def __init__(self):
        self._model_cache = {}
        self._pending = []
        self.hyp_count = {}

    def cases(self, tier, rng):
        n = {"quick": 400, "thorough": 4000}[tier]
        out = link_fixed_cases() + [gen_case(rng, links=True) for _ in range(n)]
        self._pending = list(out)
        return out

    def impl(self, case):
        return run_impl(case)

    def _key(self, case):
        return json.dumps(case, sort_keys=True)

    def prepare(self, cases):
        outs = run_model(cases)
        for c, o in zip(cases, outs):
            self._model_cache[self._key(c)] = o

    def model_lines(self, case):
        # the driver is consulted in two rounds (see run_model); the answer is handed to model_out through a no-op line
        k = self._key(case)
        if k not in self._model_cache:
            batch, self._pending = self._pending + [case], []
            for i in range(0, len(batch), 200):
                self.prepare(batch[i:i + 200])
        return ["licref\t"]

    def model_out(self, case, outs):
        mc = model_canon(self._model_cache[self._key(case)])
        if isinstance(mc, str):
            return mc
        # theorem-hypothesis tie: the driver evaluated plainNames (the decidable hypothesis of
        # C01_e2e_verdict_partial) on this case; where they hold the theorem's conclusion — verdict <-> clauses (a)-(d) on
        # the tree — is demanded of the implementation in `agree`
        self.hyp_count[mc[1]] = self.hyp_count.get(mc[1], 0) + 1
        d = json.loads(mc[0])
        d["hyp"] = mc[1]
        return json.dumps(d, sort_keys=True)

    def agree(self, case, impl_out, model_out):
        if impl_out.startswith("EXC") or model_out.startswith("MODEL"):
            return False
        a, b = json.loads(impl_out), json.loads(model_out)
        if a.get("status") != "ok" or b.get("status") != "ok":
            return a.get("status") == b.get("status")
        for k in CATS + ("exit", "compliant", "used"):
            if a[k] != b[k]:
                return False
        if canon_files(a["files"]) != canon_files(b["files"]):
            return False
        if b.get("hyp", "")[:1] == "1":      # plainNames (blank copyright strings need no hypothesis since 64fab59)
            exp = truth(case)
            if exp["status"] == "ok" and (a["exit"] == 0) != (not exp["violated"]):
                return False
        return True

    def oracle(self, case, impl_out):
        if impl_out.startswith("EXC"):
            return "crash: " + impl_out
        got = json.loads(impl_out)
        why = self.judge(case, got, truth(case, every_file=True))
        if why is not None and hidden_lic_names(case):
            # known-finding shape: the verdict is what the property demands as soon as the dot-files below LICENSES/ are
            # left out of "every file in LICENSES/", and only then
            lenient = self.judge(case, got, truth(case))
            if lenient is not None:
                return lenient
            return "hidden-licence-file: %s below LICENSES/ not examined (%s) {shape=hidden-name-in-licenses}" % (hidden_lic_names(case), why)
        return why

    def judge(self, case, got, exp):
        if got["status"] != exp["status"]:
            return "status: the tool answers %s, the project is %s" % (got["status"], exp["status"])
        if got["status"] != "ok":
            return None
        if sorted(got["files"]) != sorted(exp["files"]):
            a, b = set(got["files"]), set(exp["files"])
            return "file-list: reported but not a readable covered file %s; covered but not reported %s" % (sorted(a - b), sorted(b - a))
        for p in sorted(exp["files"]):
            # the identifiers of an expression as a sorted list: their order inside an expression is immaterial to the property
            g = sorted({json.dumps([k, src, sorted(keys_of_rendered(v)) if k == "L" else v]) for k, src, v in got["files"][p]})
            e = sorted({json.dumps([k, src, sorted(v) if k == "L" else v]) for k, src, v in exp["files"][p]})
            if g != e:
                return "attribution: %s: the tool attributes %s, the sources and precedence rules give %s" % (
                    p, [json.loads(x) for x in g if x not in e], [json.loads(x) for x in e if x not in g])
        ln = node_at(case["tree"], "LICENSES")
        if ln is not None and ln[0] == "f" and ["LICENSES", "LICENSES"] in got["bad"]:
            return ("licenses-regular-file: a regular file called LICENSES is itself read as a licence text named 'LICENSES' "
                    "(bad %s, unused %s)" % (got["bad"], got["unused"]))
        for p in exp["nocop"]:
            cs = [v for k, src, v in got["files"].get(p, []) if k == "C"]
            if len(cs) >= 2 and not any(cs) and p not in got["nocop"]:
                return ("empty-notices-joined: %s has %d copyright lines, all of them the empty string, and is not reported as lacking "
                        "a copyright notice (one empty string is)" % (p, len(cs)))
        if (got["exit"] == 0) != (not exp["violated"]):
            kind = rc.diff_kind({"lic": exp["lic_names"]}, got, exp, CATS)
            if kind and not kind.startswith("category-mismatch"):
                return kind
            return "verdict: exit %d but violated clauses are %s" % (got["exit"], exp["violated"] or "none")
        if got["compliant"] != (got["exit"] == 0):
            return "verdict-flag: summary.compliant=%s with exit %d" % (got["compliant"], got["exit"])
        return rc.diff_kind({"lic": exp["lic_names"]}, got, exp, CATS + ("used",))

    def classify(self, case, failure):
        if failure.startswith("hidden-licence-file") and failure.endswith("{shape=hidden-name-in-licenses}"):
            return "hidden-name-in-licenses"
        if failure.startswith("spdx-name-with-identifier-stem"):
            return "extensionless-id-with-identifier-stem"
        if failure.startswith("licenses-regular-file"):
            return "licenses-is-a-regular-file"
        if failure.startswith("empty-notices-joined"):
            return "several-empty-copyright-strings"
        return None

    def nontrivial(self, case, impl_out):
        return None if impl_out.startswith("EXC") else impl_out

    def show(self, case):
        files = {}
        for p, node in walk_nodes(case["tree"]):
            if node[0] == "f":
                data = body_bytes(node[1])
                files[p] = data.decode("utf-8", "replace") if len(data) < 600 else "<%d bytes> … %s" % (len(data), data[-300:].decode("utf-8", "replace"))
            elif node[0] == "l":
                files[p] = "-> " + node[1] + (" (absolute, from the root)" if node[2:] == ["abs"] else "")
        out = {"flags": case["flags"], "files": files}
        if case.get("root"):
            out["root"] = case["root"]
        if case.get("outside"):
            out["outside (../%s)" % OUTSIDE] = {p: ("-> " + node[1] + (" (absolute, from the root)" if node[2:] == ["abs"] else "")) if node[0] == "l" else "…"
                                                for p, node in walk_nodes(case["outside"]) if node[0] != "d"}
        if case.get("liclinks"):
            out["liclinks"] = case["liclinks"]
        return out
