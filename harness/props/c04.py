"""C04 — per-file sources and precedence follow the specification."""
import itertools
import os

from core import Property, Stream, enc, dec, enc_list
import cli

PRECS = {"c": "closest", "a": "aggregate", "o": "override"}
INFOS = {"n": ([], []), "C": (["2020 H%d"], []), "L": ([], ["LIC%d"]), "B": (["2020 H%d"], ["LIC%d"])}
# licence ids used per level / own, all valid SPDX ids so expressions parse
LICS = ["MIT", "0BSD", "ISC", "Zlib", "CC0-1.0", "MPL-2.0", "Unlicense"]
DIRS = ["", "a", "a/b", "a/b/c"]


def level_options():
    """Every shape of one REUSE.toml level: absent, or 1-2 matching tables (+ a non-matching one)."""
    opts = [None]
    for p in "cao":
        for i in "nCLB":
            opts.append([(p, i)])
    # two matching tables: the last one applies
    for p1, i1, p2, i2 in [("a", "B", "c", "C"), ("o", "B", "c", "n"), ("c", "L", "a", "C"), ("c", "B", "o", "L")]:
        opts.append([(p1, i1), (p2, i2)])
    return opts


def info_for(code, tag):
    c, l = INFOS[code]
    return ([x % tag for x in c], [LICS[tag % len(LICS)] for _ in l])


SAME_COP = "SPDX-FileCopyrightText: 2020 Same Holder"
SAME_LIC = "MIT"


def build_case(levels, own, sib, same=""):
    """-> (files dict, ground truth levels [(prec, cpr, lic)|None], ground truth own (cpr, lic), file path)

    same: "C" in it — every source that states a copyright notice states literally SAME_COP; "L" in it — every source that
    states a licence states SAME_LIC (so that one value comes from several sources)."""
    def info(code, tag):          # info_for, with the values made equal on request
        c, l = info_for(code, tag)
        return ([SAME_COP for _ in c] if "C" in same else c, [SAME_LIC for _ in l] if "L" in same else l)
    depth = len(levels)
    fdir = DIRS[depth - 1] if depth else ""
    fpath = (fdir + "/" if fdir else "") + "f.txt"
    files = {}
    truth = []
    for d, lv in enumerate(levels):
        if lv is None:
            truth.append(None)
            continue
        parts = ["version = 1\n"]
        # a table that does not match the file comes last, to check "last *matching*"
        tables = list(lv)
        for k, (p, i) in enumerate(tables):
            c, l = info(i, 10 * d + k)
            rel = os.path.relpath(fpath, DIRS[d] or ".")
            pat = rel if k % 2 == 0 else "**/f.txt" if "/" in rel else "f.*"
            parts.append("\n[[annotations]]\npath = %s\nprecedence = \"%s\"\n" % (repr(pat).replace("'", '"'), PRECS[p]))
            if c:
                parts.append("SPDX-FileCopyrightText = [%s]\n" % ", ".join('"%s"' % x for x in c))
            if l:
                parts.append("SPDX-License-Identifier = \"%s\"\n" % l[0])
        parts.append("\n[[annotations]]\npath = \"nomatch/**\"\nprecedence = \"override\"\nSPDX-FileCopyrightText = \"2000 Nobody\"\nSPDX-License-Identifier = \"MIT\"\n")
        files[(DIRS[d] + "/" if DIRS[d] else "") + "REUSE.toml"] = "".join(parts)
        p, i = tables[-1]
        c, l = info(i, 10 * d + len(tables) - 1)
        truth.append((p, c, l))
    body = {"n": "just text\n",
            "C": "# SPDX-FileCopyrightText: 2019 Own\ntext\n",
            "L": "# SPDX-License-Identifier: Unlicense\ntext\n",
            "B": "# SPDX-FileCopyrightText: 2019 Own\n# SPDX-License-Identifier: Unlicense\ntext\n",
            "U": "# SPDX-FileCopyrightText: 2019 Own\n# SPDX-License-Identifier: MIT AND\ntext\n",
            "X": b"\x00\x01\x02SPDX-FileCopyrightText: 2019 Own\nSPDX-License-Identifier: Unlicense\n\x00\xff"}[own]
    own_truth = {"n": ([], []), "C": (["SPDX-FileCopyrightText: 2019 Own"], []), "L": ([], ["Unlicense"]),
                 "B": (["SPDX-FileCopyrightText: 2019 Own"], ["Unlicense"]), "U": ([], []), "X": ([], [])}[own]
    sbody = None
    if sib != "-":
        sbody = {"e": "", "C": "SPDX-FileCopyrightText: 2018 Sib\n", "L": "SPDX-License-Identifier: Zlib\n",
                 "B": "SPDX-FileCopyrightText: 2018 Sib\nSPDX-License-Identifier: Zlib\n"}[sib]
        own_truth = {"e": ([], []), "C": (["SPDX-FileCopyrightText: 2018 Sib"], []), "L": ([], ["Zlib"]),
                     "B": (["SPDX-FileCopyrightText: 2018 Sib"], ["Zlib"])}[sib]

    def equalise(text):
        if isinstance(text, str):
            if "C" in same:
                text = text.replace("SPDX-FileCopyrightText: 2019 Own", SAME_COP).replace("SPDX-FileCopyrightText: 2018 Sib", SAME_COP)
            if "L" in same:
                text = text.replace("SPDX-License-Identifier: Unlicense", "SPDX-License-Identifier: " + SAME_LIC).replace(
                    "SPDX-License-Identifier: Zlib", "SPDX-License-Identifier: " + SAME_LIC)
        return text
    files[fpath] = equalise(body)
    if sbody is not None:
        files[fpath + ".license"] = equalise(sbody)
    own_truth = ([SAME_COP for _ in own_truth[0]] if "C" in same else own_truth[0],
                 [SAME_LIC for _ in own_truth[1]] if "L" in same else own_truth[1])
    return files, truth, own_truth, fpath


def spec_items(truth, own):
    """The property text, executed (independent of the Lean model)."""
    vis = []
    for i, lv in enumerate(truth):
        if lv is None:
            continue
        vis.append((i, lv))
        if lv[0] == "o":
            break
    has_ov = any(lv[0] == "o" for _, lv in vis)
    oc, ol = ([], []) if has_ov else own
    items = set()
    for i, (p, c, l) in vis:
        if p in "oa":
            items |= {("C", "toml:%d" % i, v) for v in c} | {("L", "toml:%d" % i, v) for v in l}
    items |= {("C", "own", v) for v in oc} | {("L", "own", v) for v in ol}
    for kind, mine, idx in (("C", oc, 1), ("L", ol, 2)):
        if not mine:
            prov = [(i, lv) for i, lv in vis if lv[0] == "c" and lv[idx]]
            if prov:
                i, lv = prov[-1]
                items |= {(kind, "toml:%d" % i, v) for v in lv[idx]}
    return items


def canon(items):
    return " ".join(sorted("%s|%s|%s" % (k, s, enc(v)) for k, s, v in items))


class TreeStream(Stream):
    name = "tree"
    exhaustive = True
    rule = ("real trees on disk through Project.reuse_info_of: own information {none, copyright, licence, both, unparseable, binary} x "
            ".license sibling {absent, empty, copyright, licence, both} x every chain of REUSE.toml levels of depth <=2 over 17 level "
            "shapes (absent; 3 precedences x 4 information shapes; 4 two-table shapes for last-match-wins; each with a trailing "
            "non-matching table) — enumerated completely (quick: own/sibling product sampled to 8 combos per chain; thorough: all 30) — "
            "plus random chains of depth 3-4; non-trivial = distinct (chain, own, sibling) with a non-empty result")

    def cases(self, tier, rng):
        opts = level_options()
        own_sib = [(o, s) for o in "nCLBUX" for s in "-eCLB"]
        for depth in (1, 2):
            for chain in itertools.product(range(len(opts)), repeat=depth):
                combos = own_sib if tier == "thorough" else rng.sample(own_sib, 8)
                for o, s in combos:
                    yield {"chain": list(chain), "own": o, "sib": s}
        for _ in range(3000 if tier == "thorough" else 400):
            depth = rng.choice([3, 3, 4])
            yield {"chain": [rng.randrange(len(opts)) for _ in range(depth)], "own": rng.choice("nCLBUX"), "sib": rng.choice("----eCLB")}
        # the configuration on which the licence of the nearer REUSE.toml used to be lost
        yield {"chain": [opts.index([("c", "C")]), opts.index([("c", "L")])], "own": "C", "sib": "-"}

    def _levels(self, case):
        opts = level_options()
        return [opts[i] for i in case["chain"]]

    def impl(self, case):
        from reuse.project import Project
        import logging
        files, truth, own_truth, fpath = build_case(self._levels(case), case["own"], case["sib"])
        with cli.scratch("rv-c04-") as root:
            cli.write_tree(root, files)
            logging.disable(logging.CRITICAL)
            try:
                with cli.chdir(root):
                    project = Project.from_directory(root)
                    infos = project.reuse_info_of(os.path.join(root, fpath))
            finally:
                logging.disable(logging.NOTSET)
            items = set()
            own_src = (fpath + ".license", "dot-license") if case["sib"] != "-" else (fpath, "file-header")
            for info in infos:
                st = info.source_type.value if info.source_type else None
                sp = info.source_path
                if st == "reuse-toml" and sp and sp.endswith("REUSE.toml"):
                    d = os.path.dirname(sp)
                    label = "toml:%d" % DIRS.index(d) if d in DIRS else "bad-src:%s" % sp
                elif (sp, st) == own_src:
                    label = "own"
                else:
                    label = "bad-src:%s:%s" % (sp, st)
                if info.path != fpath:
                    label = "bad-path:%s" % info.path
                for c in info.copyright_lines:
                    items.add(("C", label, c))
                for e in info.spdx_expressions:
                    items.add(("L", label, str(e)))
            return canon(items)

    def model_lines(self, case):
        files, truth, own_truth, fpath = build_case(self._levels(case), case["own"], case["sib"])
        fields = ["precedence", enc_list(own_truth[0]), enc_list(own_truth[1])]
        for lv in truth:
            if lv is None:
                fields += ["-", "~", "~"]
            else:
                fields += [lv[0], enc_list(lv[1]), enc_list(lv[2])]
        return ["\t".join(fields)]

    def model_out(self, case, outs):
        return " ".join(sorted(x for x in outs[0].split(" ") if x))

    def oracle(self, case, impl_out):
        files, truth, own_truth, fpath = build_case(self._levels(case), case["own"], case["sib"])
        want = canon(spec_items(truth, own_truth))
        if impl_out != want:
            def pretty(s):
                return sorted((x.split("|")[0], x.split("|")[1], dec(x.split("|")[2])) for x in s.split(" ") if x and x.count("|") == 2) if not s.startswith("EXC") else s
            return "attribution-differs: tool attributes %s, specification says %s" % (pretty(impl_out), pretty(want))
        return None

    def nontrivial(self, case, impl_out):
        return (tuple(case["chain"]), case["own"], case["sib"]) if impl_out else None

    def show(self, case):
        files, truth, own_truth, fpath = build_case(self._levels(case), case["own"], case["sib"])
        return {"files": {k: (v if isinstance(v, str) else repr(v)) for k, v in files.items()}, "file": fpath}


class Dep5Stream(Stream):
    name = "dep5"
    rule = ".reuse/dep5 projects: own information x sibling x {matching paragraph, two matching paragraphs (last wins), none}; dep5 is always aggregated"

    def cases(self, tier, rng):
        for o in "nCLBUX":
            for s in "-eCLB":
                for paras in (0, 1, 2):
                    yield {"own": o, "sib": s, "paras": paras}

    def _build(self, case):
        files, _, own_truth, fpath = build_case([None, None], case["own"], case["sib"])
        dep5 = "Format: https://www.debian.org/doc/packaging-manuals/copyright-format/1.0/\n"
        truth = [None]
        if case["paras"] >= 1:
            dep5 += "\nFiles: a/*\nCopyright: 2001 Dep A\nLicense: MIT\n"
            truth = [("a", ["2001 Dep A"], ["MIT"])]
        if case["paras"] >= 2:
            dep5 += "\nFiles: a/f.txt\nCopyright: 2002 Dep B\n 2003 Dep C\nLicense: ISC\n"
            truth = [("a", ["2002 Dep B", "2003 Dep C"], ["ISC"])]
        files[".reuse/dep5"] = dep5
        return files, truth, own_truth, fpath

    def impl(self, case):
        from reuse.project import Project
        import logging, warnings
        files, truth, own_truth, fpath = self._build(case)
        with cli.scratch("rv-c04d-") as root:
            cli.write_tree(root, files)
            logging.disable(logging.CRITICAL)
            try:
                with cli.chdir(root), warnings.catch_warnings():
                    warnings.simplefilter("ignore")
                    project = Project.from_directory(root)
                    infos = project.reuse_info_of(os.path.join(root, fpath))
            finally:
                logging.disable(logging.NOTSET)
            items = set()
            own_src = (fpath + ".license", "dot-license") if case["sib"] != "-" else (fpath, "file-header")
            for info in infos:
                st = info.source_type.value if info.source_type else None
                if (info.source_path, st) == (".reuse/dep5", "dep5"):
                    label = "toml:0"
                elif (info.source_path, st) == own_src:
                    label = "own"
                else:
                    label = "bad-src:%s:%s" % (info.source_path, st)
                for c in info.copyright_lines:
                    items.add(("C", label, c))
                for e in info.spdx_expressions:
                    items.add(("L", label, str(e)))
            return canon(items)

    def model_lines(self, case):
        files, truth, own_truth, fpath = self._build(case)
        fields = ["precedence", enc_list(own_truth[0]), enc_list(own_truth[1])]
        for lv in truth:
            fields += ["-", "~", "~"] if lv is None else [lv[0], enc_list(lv[1]), enc_list(lv[2])]
        return ["\t".join(fields)]

    def model_out(self, case, outs):
        return " ".join(sorted(x for x in outs[0].split(" ") if x))

    def oracle(self, case, impl_out):
        files, truth, own_truth, fpath = self._build(case)
        want = canon(spec_items(truth, own_truth))
        if impl_out != want:
            return "dep5-attribution-differs: tool %r, specification %r" % (impl_out, want)
        return None


class ProjectStream(Stream):
    """Several files of one project, looked up one after the other through ONE Project object, in two different orders:
    every answer must be what the specification says for that file alone (no look-up may depend on an earlier one),
    with REUSE.toml files in directories whose names sort on either side of the string 'REUSE.toml'."""
    name = "project"
    rule = ("random projects: a directory chain of depth 2 plus a side branch, directory names from {a, src, Docs, 3rdparty, .config, Zed, "
            "'b c'} (upper case, digits and dots sort before 'REUSE.toml'), a REUSE.toml with one or two catch-all tables (last wins) in "
            "each directory with probability 0.7, 1-2 files per directory with own information {none, copyright, licence, both}; every "
            "file is looked up through one Project object in two different orders; oracle: the specification for each file alone; "
            "non-trivial = distinct (project, file) with a non-empty answer")
    DNAMES = ["a", "src", "Docs", "3rdparty", ".config", "Zed", "b c"]

    def cases(self, tier, rng):
        for _ in range(1500 if tier == "thorough" else 150):
            yield {"seed": rng.randrange(1 << 30)}

    def _gen(self, case):
        import random
        rng = random.Random(case["seed"])
        d1 = rng.choice(self.DNAMES)
        d2 = rng.choice(self.DNAMES)
        side = rng.choice([n for n in self.DNAMES if n != d1])
        dirs = ["", d1, d1 + "/" + d2, side]
        tomls = {}
        tag = 0
        for d in dirs:
            if rng.random() < 0.7:
                tabs = []
                for _ in range(rng.choice([1, 1, 1, 2])):
                    tag += 1
                    tabs.append((rng.choice("ccccaao"), rng.choice("nCLB"), tag))
                tomls[d] = tabs
        files = []  # (path, own code)
        for d in dirs:
            for k in range(rng.randint(1, 2)):
                files.append(((d + "/" if d else "") + "f%d.txt" % k, rng.choice("nCLB")))
        order1 = list(range(len(files)))
        rng.shuffle(order1)
        order2 = list(range(len(files)))
        rng.shuffle(order2)
        return dirs, tomls, files, [order1, order2]

    def _tree(self, case):
        dirs, tomls, files, orders = self._gen(case)
        out = {}
        for d, tabs in tomls.items():
            parts = ["version = 1\n"]
            for p, i, tag in tabs:
                c, l = info_for(i, tag)
                parts.append("\n[[annotations]]\npath = \"**\"\nprecedence = \"%s\"\n" % PRECS[p])
                if c:
                    parts.append("SPDX-FileCopyrightText = [%s]\n" % ", ".join('"%s"' % x for x in c))
                if l:
                    parts.append("SPDX-License-Identifier = \"%s\"\n" % l[0])
            out[(d + "/" if d else "") + "REUSE.toml"] = "".join(parts)
        body = {"n": "just text\n", "C": "# SPDX-FileCopyrightText: 2019 Own\ntext\n", "L": "# SPDX-License-Identifier: Unlicense\ntext\n",
                "B": "# SPDX-FileCopyrightText: 2019 Own\n# SPDX-License-Identifier: Unlicense\ntext\n"}
        for path, own in files:
            out[path] = body[own]
        return out

    def _truth(self, case, path):
        """(ancestor directories outermost first, levels [(prec, cpr, lic)|None], own (cpr, lic))"""
        dirs, tomls, files, orders = self._gen(case)
        d = os.path.dirname(path)
        anc = [""]
        parts = d.split("/") if d else []
        for k in range(1, len(parts) + 1):
            anc.append("/".join(parts[:k]))
        levels = []
        for a in anc:
            tabs = tomls.get(a)
            if not tabs:
                levels.append(None)
            else:
                p, i, tag = tabs[-1]
                c, l = info_for(i, tag)
                levels.append((p, c, l))
        own = dict(files)[path]
        own_truth = {"n": ([], []), "C": (["SPDX-FileCopyrightText: 2019 Own"], []), "L": ([], ["Unlicense"]),
                     "B": (["SPDX-FileCopyrightText: 2019 Own"], ["Unlicense"])}[own]
        return anc, levels, own_truth

    def impl(self, case):
        from reuse.project import Project
        import logging
        dirs, tomls, files, orders = self._gen(case)
        answers = []
        with cli.scratch("rv-c04p-") as root:
            cli.write_tree(root, self._tree(case))
            logging.disable(logging.CRITICAL)
            try:
                with cli.chdir(root):
                    project = Project.from_directory(root)
                    for rnd, order in enumerate(orders):
                        for k in order:
                            path = files[k][0]
                            anc, _, _ = self._truth(case, path)
                            infos = project.reuse_info_of(os.path.join(root, path))
                            items = set()
                            for info in infos:
                                st = info.source_type.value if info.source_type else None
                                sp = info.source_path
                                if st == "reuse-toml" and sp and sp.endswith("REUSE.toml") and os.path.dirname(sp) in anc:
                                    label = "toml:%d" % anc.index(os.path.dirname(sp))
                                elif (sp, st) == (path, "file-header"):
                                    label = "own"
                                else:
                                    label = "bad-src:%s:%s" % (sp, st)
                                if info.path != path:
                                    label = "bad-path:%s" % info.path
                                for c in info.copyright_lines:
                                    items.add(("C", label, c))
                                for e in info.spdx_expressions:
                                    items.add(("L", label, str(e)))
                            answers.append((rnd, k, canon(items)))
            finally:
                logging.disable(logging.NOTSET)
        answers.sort()
        return " || ".join("%d:%d=%s" % a for a in answers)

    def model_lines(self, case):
        dirs, tomls, files, orders = self._gen(case)
        lines = []
        for path, own in files:
            anc, levels, own_truth = self._truth(case, path)
            fields = ["precedence", enc_list(own_truth[0]), enc_list(own_truth[1])]
            for lv in levels:
                fields += ["-", "~", "~"] if lv is None else [lv[0], enc_list(lv[1]), enc_list(lv[2])]
            lines.append("\t".join(fields))
        return lines

    def model_out(self, case, outs):
        per = [" ".join(sorted(x for x in o.split(" ") if x)) for o in outs]
        return " || ".join("%d:%d=%s" % (rnd, k, per[k]) for rnd in (0, 1) for k in range(len(per)))

    def oracle(self, case, impl_out):
        if impl_out.startswith("EXC"):
            return "lookup-crash: " + impl_out
        dirs, tomls, files, orders = self._gen(case)
        for part in impl_out.split(" || "):
            head, got = part.split("=", 1)
            rnd, k = map(int, head.split(":"))
            path = files[k][0]
            anc, levels, own_truth = self._truth(case, path)
            want = canon(spec_items(levels, own_truth))
            if got != want:
                def pretty(s):
                    return sorted((x.split("|")[0], x.split("|")[1], dec(x.split("|")[2])) for x in s.split(" ") if x.count("|") == 2)
                return ("attribution-differs-in-project: %s (look-up round %d, order %s): tool attributes %s, specification says %s"
                        % (path, rnd, [files[i][0] for i in orders[rnd]], pretty(got), pretty(want)))
        return None

    def nontrivial(self, case, impl_out):
        return (case["seed"], impl_out) if "|" in impl_out else None

    def show(self, case):
        dirs, tomls, files, orders = self._gen(case)
        return {"files": self._tree(case), "lookup_orders": [[files[i][0] for i in o] for o in orders]}


# --------------------------------------------------------------------------
# the stated observable: files[].copyrights[] / files[].spdx_expressions[] of `reuse lint --json`


def build_dep5_case(own, sib, paras, same=""):
    files, _, own_truth, fpath = build_case([None, None], own, sib, same)
    dep5 = "Format: https://www.debian.org/doc/packaging-manuals/copyright-format/1.0/\n"
    truth = [None]
    c1, c2, c3 = (SAME_COP, SAME_COP, SAME_COP + " II") if "C" in same else ("2001 Dep A", "2002 Dep B", "2003 Dep C")
    l1, l2 = (SAME_LIC, SAME_LIC) if "L" in same else ("MIT", "ISC")
    if paras >= 1:
        dep5 += "\nFiles: a/*\nCopyright: %s\nLicense: %s\n" % (c1, l1)
        truth = [("a", [c1], [l1])]
    if paras >= 2:
        dep5 += "\nFiles: a/f.txt\nCopyright: %s\n %s\nLicense: %s\n" % (c2, c3, l2)
        truth = [("a", [c2, c3], [l2])]
    files[".reuse/dep5"] = dep5
    return files, truth, own_truth, fpath


class LintJsonStream(Stream):
    """What `reuse lint --json` prints per file: every item the specification attributes to the file must be listed, once, with the
    path and the kind of the source that states it — in particular when two sources state the same value in the same words."""
    name = "lintjson"
    rule = ("real trees through the real `reuse lint --json`: the entries files[].copyrights[] / files[].spdx_expressions[] "
            "(value, source, source_type) of one covered file under a chain of 1-3 REUSE.toml levels (17 level shapes) or a "
            ".reuse/dep5 with 0-2 matching paragraphs x own information x .license sibling, with the values stated by the "
            "sources {all different, the same licence everywhere, the same copyright line everywhere, both the same}; oracle: "
            "the item set of the specification (spec_items), each item once, under its own source path and source type; the "
            "model's item set is compared as in stream `tree`; non-trivial = distinct (case) whose answer names two sources")
    SAMES = ["", "L", "C", "CL", "CL", "L"]

    def cases(self, tier, rng):
        opts = level_options()
        own_sib = [(o, s) for o in "nCLBUX" for s in "-eCLB"]
        reported = [i for i, o in enumerate(opts) if o is not None]
        # depth 1: every level shape; deeper: random chains, mostly of levels that state something
        for i in range(len(opts)):
            for o, s in (own_sib if tier == "thorough" else rng.sample(own_sib, 5)):
                yield {"kind": "toml", "chain": [i], "own": o, "sib": s, "same": rng.choice(self.SAMES)}
        for _ in range(2500 if tier == "thorough" else 260):
            depth = rng.choice([2, 2, 2, 3])
            chain = [rng.choice(reported) if rng.random() < 0.8 else 0 for _ in range(depth)]
            yield {"kind": "toml", "chain": chain, "own": rng.choice("nCLBBBUX"), "sib": rng.choice("-----eCLB"), "same": rng.choice(self.SAMES)}
        for o, s in own_sib:
            for paras in (0, 1, 2):
                for same in (["", "L", "C", "CL"] if tier == "thorough" else [rng.choice(self.SAMES), "CL"]):
                    yield {"kind": "dep5", "paras": paras, "own": o, "sib": s, "same": same}

    def _build(self, case):
        if case["kind"] == "dep5":
            return build_dep5_case(case["own"], case["sib"], case["paras"], case["same"])
        opts = level_options()
        return build_case([opts[i] for i in case["chain"]], case["own"], case["sib"], case["same"])

    def impl(self, case):
        import json
        files, truth, own_truth, fpath = self._build(case)
        own_src = (fpath + ".license", "dot-license") if case["sib"] != "-" else (fpath, "file-header")
        with cli.scratch("rv-c04j-") as root:
            cli.write_tree(root, files)
            saved = os.environ.get("_SUPPRESS_DEP5_WARNING")
            os.environ["_SUPPRESS_DEP5_WARNING"] = "1"
            try:
                code, out, exc = cli.run_cli(["--no-multiprocessing", "lint", "--json"], root)
            finally:
                if saved is None:
                    os.environ.pop("_SUPPRESS_DEP5_WARNING", None)
                else:
                    os.environ["_SUPPRESS_DEP5_WARNING"] = saved
            if exc is not None:
                return "EXC:%s:%s" % (type(exc).__name__, str(exc)[:100])
            try:
                rep, _ = json.JSONDecoder().raw_decode(out[out.index("{"):])
            except Exception:
                return "EXC:output:%s" % out[:100]
            rr = os.path.realpath(root)
            entries = [f for f in rep["files"] if os.path.realpath(os.path.join(root, f["path"])) == os.path.join(rr, fpath)]
            if len(entries) != 1:
                return "EXC:entries:%d entries for %s" % (len(entries), fpath)
            items = []
            for kind, key in (("C", "copyrights"), ("L", "spdx_expressions")):
                for it in entries[0][key]:
                    sp, st = it.get("source"), it.get("source_type")
                    if case["kind"] == "dep5" and (sp, st) == (".reuse/dep5", "dep5"):
                        label = "toml:0"
                    elif case["kind"] == "toml" and st == "reuse-toml" and sp and sp.endswith("REUSE.toml") and os.path.dirname(sp) in DIRS:
                        label = "toml:%d" % DIRS.index(os.path.dirname(sp))
                    elif (sp, st) == own_src:
                        label = "own"
                    else:
                        label = "bad-src:%s:%s" % (sp, st)
                    items.append((kind, label, it["value"]))
            # a list, not a set: an item printed twice stays visible
            return " ".join(sorted("%s|%s|%s" % (k, s, enc(v)) for k, s, v in items))

    def model_lines(self, case):
        files, truth, own_truth, fpath = self._build(case)
        fields = ["precedence", enc_list(own_truth[0]), enc_list(own_truth[1])]
        for lv in truth:
            fields += ["-", "~", "~"] if lv is None else [lv[0], enc_list(lv[1]), enc_list(lv[2])]
        return ["\t".join(fields)]

    def model_out(self, case, outs):
        return " ".join(sorted(x for x in outs[0].split(" ") if x))

    def oracle(self, case, impl_out):
        if impl_out.startswith("EXC"):
            return "lintjson-crash: " + impl_out
        files, truth, own_truth, fpath = self._build(case)
        want = canon(spec_items(truth, own_truth))
        if impl_out != want:
            def pretty(s):
                return sorted((x.split("|")[0], x.split("|")[1], dec(x.split("|")[2])) for x in s.split(" ") if x.count("|") == 2)
            g, w = pretty(impl_out), pretty(want)
            return "lint-json-items-differ: %s: `lint --json` lists %s, the specification attributes %s (not listed: %s; listed but not attributed or listed twice: %s)" % (
                fpath, g, w, [x for x in w if x not in g], [x for x in g if x not in w or g.count(x) > 1])
        return None

    def nontrivial(self, case, impl_out):
        labels = {x.split("|")[1] for x in impl_out.split(" ") if x.count("|") == 2}
        return (case["kind"], tuple(case.get("chain", [case.get("paras")])), case["own"], case["sib"], case["same"]) if len(labels) >= 2 else None

    def show(self, case):
        files, truth, own_truth, fpath = self._build(case)
        return {"files": {k: (v if isinstance(v, str) else repr(v)) for k, v in files.items()}, "file": fpath, "same": case["same"]}


import c04s12     # noqa: E402  (needs the helpers above)
import c04s17     # noqa: E402

PROPERTY = Property(
    pid="C04",
    streams=[TreeStream(), Dep5Stream(), ProjectStream(), LintJsonStream()] + c04s12.STREAMS + c04s17.STREAMS,
    assumptions=[
        "glob matching of the [[annotations]] tables is a parameter of the model (decided by C05); the generator knows which tables match",
        "what reading the file's own source yields (tag extraction, binary detection, parse-error drop) is the generator's ground truth here and the subject of C02",
    ],
)
