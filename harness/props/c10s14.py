"""C10, one more region of the input space: headers that are *long*.

The linter reads the first 4096 bytes of a file; nothing says a header has to fit into them.  A file with seventy copyright
holders, a project whose template opens with a page of legal text, a long list of contributors or of licences, one very long
notice: the header `reuse annotate` writes is 4, 8, 16 KiB long — and the second run has to find *that whole block* again
(`_find_first_spdx_comment` → `comment_at_first_character` → the block's closing line), not the part of it that some window shows.
None of C10's other requests comes near 1 KiB.

`longheader`     — add_header_to_file K times on one file: every comment style, single- and multi-line mode, --merge-copyrights,
                   header sizes from just below 4 KiB to beyond 16 KiB reached in six ways (many holders, many contributors,
                   many licences, a long template preamble — plain and pre-commented —, a long trailer, one very long line),
                   bodies with / without shebang, CRLF, a comment of the file's own standing first.
`longheader-cli` — the real command line (many --copyright / --contributor / --license options, `.reuse/templates/long.jinja2`)
                   on files named from the extension table, 3 runs with identical arguments.

Oracle (property text; oracle-only): the bytes after runs 2..K are the bytes after run 1, and every requested line stands exactly
once.  (That `reuse lint` does not *read back* a header beyond its window — finding c07-header-beyond-window — is C07's matter:
here the file must simply not change.)
"""
import io
import json
import os

from core import Stream
import cli
from annotcorr import all_styles, style_by_name
import c10 as base
import c10s11

RUNS = 3

WORDS = ("lorem ipsum dolor sit amet consectetur adipiscing elit sed do eiusmod tempor incididunt ut labore et dolore magna aliqua "
         "enim ad minim veniam quis nostrud exercitation ullamco laboris nisi aliquip ex ea commodo consequat").split()
FIRST = ["Jane", "José", "Alice", "Bob", "Chen", "Dmitri", "Eve", "Fatima", "Grace", "Hiro", "Ines", "Jörg"]
LAST = ["Doe", "Álvarez", "Smith", "Müller", "张", "Ivanov", "Okafor", "Haddad", "Hopper", "Tanaka", "Costa", "Schmidt"]

#: target sizes of the header text (characters): around the linter's window, around twice that, and far beyond
SIZES = [3900, 4050, 4100, 4200, 4600, 6000, 8100, 8300, 9000, 12500, 17000]
WAYS = ["holders", "contributors", "licences", "preamble", "preamble-commented", "trailer", "long-line", "mixed"]


def prose(rng, n_chars, width=72):
    """about n_chars of harmless text in lines of at most `width` characters (no REUSE tags, no comment markers)"""
    lines, cur, total = [], "", 0
    while total < n_chars:
        w = rng.choice(WORDS)
        total += len(w) + 1
        if len(cur) + len(w) + 1 > width:
            lines.append(cur)
            cur = w
        else:
            cur = (cur + " " + w).strip()
    lines.append(cur)
    return lines


def holder(i, rng):
    return "SPDX-FileCopyrightText: %d %s %s (member %04d) <m%04d@example.org>" % (1990 + i % 35, rng.choice(FIRST), rng.choice(LAST), i, i)


def build_request(rng, way, size):
    """-> (copyright lines, licences, contributors, template preamble lines, template trailer lines)"""
    cpr = [holder(0, rng)]
    lic, con, pre, post = ["MIT"], [], [], []
    if way == "mixed":
        parts = rng.sample(["holders", "contributors", "licences", "preamble", "trailer"], 3)
        share = size // 3
    else:
        parts, share = [way], size
    for p in parts:
        if p == "holders":
            n = len(cpr)
            cpr += [holder(n + i, rng) for i in range(share // 75 + 1)]
        elif p == "contributors":
            con += ["%s %s (contributor %04d) <c%04d@example.org>" % (rng.choice(FIRST), rng.choice(LAST), i, i) for i in range(share // 80 + 1)]
        elif p == "licences":
            lic += ["LicenseRef-Project-Component-%04d" % i for i in range(share // 58 + 1)]
        elif p in ("preamble", "preamble-commented"):
            pre += prose(rng, share)
        elif p == "trailer":
            post += prose(rng, share)
        elif p == "long-line":
            cpr[0] = "SPDX-FileCopyrightText: 2020 The " + " ".join(prose(rng, share, width=10 ** 9)) + " Authors"
    return cpr, lic, con, pre, post


def template_text(pre, post, st=None):
    """the default template's loops between a preamble and a trailer of plain text; with `st`: pre-commented in that style"""
    if not pre and not post:
        return None
    t = c10s11.adding_template(pre + [""] if pre else [], "first", None)
    t = t + ("\n" + "".join(l + "\n" for l in post) if post else "")
    if st is None:
        return t
    # comment the whole thing like adding_template does
    out = []
    lit = lambda m: '{{ "%s" }}' % m if "{" in m or "}" in m else m      # noqa: E731
    if st.SINGLE_LINE:
        pre_ = st.SINGLE_LINE + st.INDENT_AFTER_SINGLE
        for l in t.split("\n")[:-1]:
            out.append(l if l.startswith("{%") else (pre_ + l).rstrip())
        return "\n".join(out) + "\n"
    mid = st.INDENT_BEFORE_MIDDLE + st.MULTI_LINE.middle + st.INDENT_AFTER_MIDDLE
    for l in t.split("\n")[:-1]:
        out.append(l if l.startswith("{%") else (mid + l).rstrip())
    return lit(st.MULTI_LINE.start) + "\n" + "\n".join(out) + "\n" + st.INDENT_BEFORE_END + lit(st.MULTI_LINE.end) + "\n"


def probes_of(case):
    return list(case["cpr"]) + ["SPDX-License-Identifier: " + l for l in case["lic"]] + ["SPDX-FileContributor: " + c for c in case["con"]]


def header_chars(case):
    return sum(len(p) + 1 for p in probes_of(case)) + case.get("extra_chars", 0)


def run_k(case, n=RUNS):
    from reuse import ReuseInfo, _LICENSING
    from reuse._annotate import add_header_to_file
    st = style_by_name(case["s"])
    outs = []
    with cli.scratch("rv-c10L-") as root:
        path = os.path.join(root, "f.txt")
        with open(path, "w", encoding="utf-8", newline="") as fp:
            fp.write(case["t"])
        for _ in range(n):
            info = ReuseInfo(spdx_expressions={_LICENSING.parse(x) for x in case["lic"]}, copyright_lines=set(case["cpr"]),
                             contributor_lines=set(case["con"]))
            out = io.StringIO()
            tmpl = c10s11._template(case["tmpl_text"]) if case.get("tmpl_text") else None
            rc = add_header_to_file(path, info, tmpl, bool(case.get("commented")), style=st.SHORTHAND, force_multi=case["multi"],
                                    skip_existing=False, merge_copyrights=case["merge"], replace=True, out=out)
            with open(path, "r", encoding="utf-8", newline="") as fp:
                after = fp.read()
            if rc:
                outs.append("F:" + ("commentCreate" if "Could not create comment" in out.getvalue() else "missingInfo") + ("" if after == case["t"] or outs else "!changed"))
            else:
                outs.append("W:" + after)
    return outs


def judge(outs, probes):
    first = outs[0]
    if not first.startswith("W:"):
        bad = [o for o in outs if o != first]
        return ("unstable-failure: runs give %r" % [o[:60] for o in outs[:3]]) if bad else None
    for i, o in enumerate(outs[1:], 2):
        if o != first:
            a, b = first[2:], o[2:] if o.startswith("W:") else o
            j = next((k for k in range(min(len(a), len(b))) if a[k] != b[k]), min(len(a), len(b)))
            return ("rerun-changes-file: run 1 wrote %d characters, run %d (identical request) left %d; first difference at character %d: "
                    "run 1 %r / run %d %r" % (len(a), i, len(b), j, a[max(0, j - 40):j + 60], i, b[max(0, j - 40):j + 60]))
    text = first[2:]
    for p in probes:
        n = text.count(p)
        if n != 1:
            return "header-count: %r stands %d times in the file after %d runs" % (p[:100], n, len(outs))
    return None


def size_class(n):
    return "<4K" if n < 4096 else "<8K" if n < 8192 else "<16K" if n < 16384 else ">=16K"


BODY_KINDS = ["code", "empty", "shebang", "comment-first", "crlf", "code-nofinal", "shebang-comment"]


class LongHeaderStream(Stream):
    name = "longheader"
    rule = ("add_header_to_file 3 times with an identical request whose header is long: target sizes 3.9-17 KiB (around the linter's "
            "4096-byte window, around 8 KiB, beyond 16 KiB) reached through many holders / many contributors / many licences / a long "
            "template preamble (plain and pre-commented) / a long template trailer / one very long notice / a mixture; every comment "
            "style with a --style shorthand (a sample in quick), single- and multi-line mode, with and without --merge-copyrights, 7 "
            "tag-free bodies (shebang, CRLF, own comment first …); oracle (oracle-only): the bytes after runs 2 and 3 are those after "
            "run 1 and every requested line stands exactly once; a request the tool refuses identically every time is trivial; "
            "non-trivial = distinct (style, line mode, way, size class of the written header, merge)")

    def cases(self, tier, rng):
        thorough = tier == "thorough"
        styles = [s for s in all_styles() if s.SHORTHAND and (s.SINGLE_LINE or s.MULTI_LINE.start)]
        if not thorough:
            must = [s for s in styles if s.__name__ in ("PythonCommentStyle", "CCommentStyle", "HtmlCommentStyle", "CppCommentStyle")]
            styles = must + rng.sample([s for s in styles if s not in must], 6)
        for st in styles:
            modes = ([False] if st.SINGLE_LINE else []) + ([True] if st.MULTI_LINE.start else [])
            combos = [(w, z) for w in WAYS for z in SIZES]
            combos = rng.sample(combos, 40 if thorough else 5)
            for way, size in combos:
                multi = rng.choice(modes)
                cpr, lic, con, pre, post = build_request(rng, way, size)
                commented = way == "preamble-commented"
                ttext = template_text(pre, post, st if commented else None)
                kind = rng.choice(BODY_KINDS)
                yield {"s": st.__name__, "multi": multi, "merge": rng.random() < 0.3, "way": way, "size": size, "cpr": cpr, "lic": lic, "con": con,
                       "tmpl_text": ttext, "commented": commented and ttext is not None, "t": base.BODIES[kind](st), "kind": kind,
                       "extra_chars": sum(len(l) + 1 for l in pre + post)}

    def impl(self, case):
        return json.dumps(run_k(case))

    def oracle(self, case, impl_out):
        if impl_out.startswith("EXC"):
            return "crash: " + impl_out
        return judge(json.loads(impl_out), probes_of(case))

    def nontrivial(self, case, impl_out):
        if impl_out.startswith("EXC"):
            return None
        outs = json.loads(impl_out)
        if not outs[0].startswith("W:"):
            return None
        return (case["s"], case["multi"], case["way"], size_class(len(outs[0]) - 2 - len(case["t"])), case["merge"])

    def show(self, case):
        d = {k: case[k] for k in ("s", "multi", "merge", "way", "size", "kind", "t", "commented")}
        d.update(n_copyright=len(case["cpr"]), n_licences=len(case["lic"]), n_contributors=len(case["con"]), first_copyright=case["cpr"][0][:120],
                 template=(case["tmpl_text"] or "")[:200], header_chars=header_chars(case))
        return d


#: file names for the CLI stream: name -> can --multi-line
CLI_NAMES = [("main.c", True), ("tool.py", False), ("page.html", True), ("lib.cpp", True), ("refs.bib", True), ("view.j2", True), ("doc.tex", False),
             ("Mod.hs", False), ("sim.f90", False), ("run.bat", False), ("index.rst", False), ("mod.ml", True), ("calc.jl", True), ("style.css", True),
             ("init.el", False), ("Makefile", False), ("query.xq", True), ("notes.md", True), ("app.vue", True), ("conf.ini", False)]


class LongHeaderCliStream(Stream):
    name = "longheader-cli"
    rule = ("`reuse annotate` (click entry point, in process) 3 times with identical arguments on a scratch project, the header made long "
            "(4-17 KiB) through many --copyright / --contributor / --license options or a custom template (.reuse/templates/long.jinja2) "
            "with a long preamble / trailer; 20 file names over the extension table, --multi-line where supported, --merge-copyrights, "
            "--force-dot-license, --year / --exclude-year, --copyright-prefix; oracle (oracle-only): the bytes of the whole tree after runs "
            "2 and 3 equal those after run 1 and every holder / licence / contributor stands exactly once; non-trivial = distinct (file "
            "name, options, way, size class)")

    def cases(self, tier, rng):
        thorough = tier == "thorough"
        from reuse import comment
        for name, _m in CLI_NAMES:
            st = comment.EXTENSION_COMMENT_STYLE_MAP_LOWERCASE.get(os.path.splitext(name)[1].lower()) or comment.FILENAME_COMMENT_STYLE_MAP_LOWERCASE[name.lower()]
            can_multi = st.can_handle_multi()
            for _ in range(8 if thorough else 1):
                way = rng.choice([w for w in WAYS if w != "preamble-commented"])
                size = rng.choice(SIZES[2:])
                cpr, lic, con, pre, post = build_request(rng, way, size)
                holders = [c.split(" ", 2)[2] for c in cpr]        # without tag and year: the command line adds them
                argv = ["annotate"]
                for h in holders:
                    argv += ["--copyright", h]
                for l in lic:
                    argv += ["--license", l]
                for c in con:
                    argv += ["--contributor", c]
                opts = []
                if can_multi and rng.random() < 0.4:
                    opts.append("--multi-line")
                if rng.random() < 0.25:
                    opts.append("--merge-copyrights")
                if rng.random() < 0.12 and "--multi-line" not in opts:      # (a line mode cannot be chosen for FILE.license: usage error on run 2)
                    opts.append("--force-dot-license")
                r = rng.random()
                if r < 0.3:
                    opts += ["--year", "2019"]
                elif r < 0.45:
                    opts.append("--exclude-year")
                if rng.random() < 0.3:
                    opts += ["--copyright-prefix", rng.choice(["spdx-c", "string", "spdx-symbol", "symbol", "string-c"])]
                ttext = template_text(pre, post)
                if ttext:
                    opts += ["--template", "long"]
                kind = rng.choice(["code", "empty", "crlf", "code-nofinal"])      # bodies that do not depend on the comment style
                yield {"name": name, "argv": argv + opts, "opts": opts, "holders": holders, "lic": lic, "con": con, "tmpl_text": ttext, "way": way,
                       "size": size, "kind": kind, "t": base.BODIES[kind](None)}

    def impl(self, case):
        with cli.scratch("rv-c10Lc-") as root:
            files = {case["name"]: case["t"]}
            if case["tmpl_text"]:
                files[".reuse/templates/long.jinja2"] = case["tmpl_text"]
            cli.write_tree(root, files)
            snaps = []
            for _ in range(RUNS):
                code, out, exc = cli.run_cli(case["argv"] + [case["name"]], root)
                if exc is not None:
                    return "EXC:%s:%s" % (type(exc).__name__, str(exc)[:80])
                snaps.append(("rc:%d" % code, [x for x in c10s11.snapshot_text(root) if not x[0].startswith(".reuse")]))
            return json.dumps(snaps)

    def oracle(self, case, impl_out):
        if impl_out.startswith("EXC"):
            return "cli-crash: " + impl_out
        snaps = json.loads(impl_out)
        first = snaps[0]
        for i, s in enumerate(snaps[1:], 2):
            if s != first:
                a = "".join(v for k, kind, v in first[1] if kind == "file")
                b = "".join(v for k, kind, v in s[1] if kind == "file")
                j = next((k for k in range(min(len(a), len(b))) if a[k] != b[k]), min(len(a), len(b)))
                return ("rerun-changes-tree: run 1 (%s) left %d characters in %s, run %d (%s, identical arguments) left %d in %s; first "
                        "difference at character %d: %r / %r" % (first[0], len(a), [k for k, _, _ in first[1]], i, s[0], len(b), [k for k, _, _ in s[1]],
                                                                  j, a[max(0, j - 40):j + 60], b[max(0, j - 40):j + 60]))
        if first[0] == "rc:0":
            text = "".join(v for k, kind, v in first[1] if kind == "file")
            for p in case["holders"] + ["SPDX-License-Identifier: " + l for l in case["lic"]] + ["SPDX-FileContributor: " + c for c in case["con"]]:
                if text.count(p) != 1:
                    return "header-count: %r stands %d times in the tree after %d runs" % (p[:100], text.count(p), RUNS)
        return None

    def nontrivial(self, case, impl_out):
        if impl_out.startswith("EXC"):
            return None
        snaps = json.loads(impl_out)
        if snaps[0][0] != "rc:0":
            return None
        n = sum(len(v) for k, kind, v in snaps[0][1] if kind == "file")
        return (case["name"], tuple(case["opts"]), case["way"], size_class(n))

    def show(self, case):
        return {"name": case["name"], "argv": case["argv"][:9] + ["… %d arguments in all …" % len(case["argv"])] + case["opts"] + [case["name"]],
                "template": (case["tmpl_text"] or "")[:200], "t": case["t"], "way": case["way"], "size": case["size"]}


STREAMS = [LongHeaderStream(), LongHeaderCliStream()]
