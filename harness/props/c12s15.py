"""C12, two more regions of the input space.

(1) Snippet markers and ignore blocks in every nesting.  `SPDX-SnippetBegin` / `SPDX-SnippetEnd` lines are plain text as far as
    the ignore filter is concerned: a block runs from its start marker to the next end marker (or to the end of the scanned text),
    whatever snippet boundaries lie in between — a snippet inside a block, a block inside a snippet, a block spanning a snippet
    end (or begin), an unterminated block opened in a snippet, the words `SPDX-SnippetEnd` in the middle of a sentence that shows
    the syntax.
(2) Characters whose length changes under a case or normalisation mapping (`ß`, `İ`, `ŉ`, `ﬁ`, `ΐ` under casefold / upper / lower;
    `ﬁ`, `½`, `㎏` under NFKC; `é` / `e + ´` under NFD / NFC; astral characters in UTF-16; every non-ASCII character in UTF-8)
    before, inside and behind blocks, with tags *directly* behind end markers (same line with and without a blank, next line
    without a comment prefix), and marker look-alikes — other capitalisations (`Reuse-IgnoreStart`, `reuse-ignorestart`,
    `REUSE-IGNORESTART`) and spellings that only equal a marker after case folding or compatibility normalisation
    (`REUSE-Ignoreſtart`, `ＲEUSE-IgnoreStart`) — which are NOT markers: they open and close nothing.

Ground truth is the generator's own: the document is written line by line by a two-state writer (inside / outside) that records
every tag it plants together with its state; every planted value is unique in its file.  Oracle (property text): attributed =
planted outside.  The rendered text is additionally run through C12's two-state scanner (`outside_mask`) and the writer's state
must agree with it for every planted tag, else the generator itself is wrong (assertion, not a violation).

`mixfilter`  — filter_ignore_block on these texts vs the Lean model and the scanner
`mixextract` — extract_reuse_info vs the Lean model (`extract`) and the planted tags
`mixfile`    — reuse_info_of_file on scratch files (some carried by FILE.license)
`mixlint`    — the real `reuse lint --json` over projects of several such files
"""
import json
import logging
import os

from core import Stream, enc, dec, dec_list
import cli
import c12 as base

#: characters that change length under some mapping a scanner could be tempted to apply before searching
LONGER = ["ß", "İ", "ŉ", "ﬁ", "ﬂ", "ΐ", "ǰ", "ẞ", "ǅ", "é", "é", "½", "㎏", "Å", "\U0001F600", "ſ", "ı", "K"]
HEAVY = ["ß", "İ", "ŉ", "ﬁ", "ΐ"]        # longer under casefold (İ also under lower, the others under upper)
WORDS = ["Straße", "Weiß", "Großmann", "İstanbul", "ﬁnal", "ﬂow", "Füße", "Maß", "ŉ Boer", "naïve", "café", "1½", "5㎏", "Ångström", "😀", "Dǅ"]
ASCII_WORDS = ["generated", "code", "do", "not", "edit", "x = x + 1", "return 0;", "see", "below", "example"]

#: not markers: other capitalisations, and spellings that equal a marker only after folding / normalising
LOOKALIKES_START = ["Reuse-IgnoreStart", "reuse-ignorestart", "REUSE-IGNORESTART", "REUSE-ignoreStart", "REUSE-Ignorestart", "Reuse-Ignorestart",
                    "REUSE-Ignoreſtart", "REUſE-IgnoreStart", "ＲEUSE-IgnoreStart", "REUSE－IgnoreStart", "REUSE-IgnoreStar", "REUSE_IgnoreStart",
                    "REUSE-Ignore-Start", "REUSE-İgnoreStart", "REUSE-ıgnoreStart"]
LOOKALIKES_END = ["Reuse-IgnoreEnd", "reuse-ignoreend", "REUSE-IGNOREEND", "REUSE-ignoreEnd", "REUSE-Ignoreend", "Reuse-Ignoreend",
                  "REUſE-IgnoreEnd", "ＲEUSE-IgnoreEnd", "REUSE－IgnoreEnd", "REUSE-IgnoreEn", "REUSE_IgnoreEnd", "REUSE-Ignore-End",
                  "REUSE-İgnoreEnd", "REUSE-IgnoreEnd".replace("E", "Е", 1)]
PRES = ["# ", "// ", "", "  # ", "-- ", " * ", "x = 1  # ", "% ", ";; "]
MARK_TAILS = ["", "", "", " (generated)", " */", " -->"]
SNIP_PROSE = ["a snippet is closed by SPDX-SnippetEnd, see the specification", "SPDX-SnippetEnd closes what SPDX-SnippetBegin opened",
              "`SPDX-SnippetEnd`", "use SPDX-SnippetBegin / SPDX-SnippetEnd around copied code"]
LICS = ["MIT", "0BSD", "Apache-2.0", "GPL-3.0-or-later", "CC0-1.0", "ISC", "Zlib", "MPL-2.0", "BSD-3-Clause", "LGPL-2.1-or-later", "EUPL-1.2", "Unlicense"]
CPR_FORMS = ["SPDX-FileCopyrightText: %d %s", "SPDX-SnippetCopyrightText: %d %s", "Copyright (C) %d %s", "© %d %s", "SPDX-FileCopyrightText: © %d %s",
             "Copyright %d %s"]

PLANS = ["snip-in-block", "block-in-snip", "block-over-snipend", "block-over-snipbegin", "open-in-snip", "prose-in-block", "random-snip",
         "fold-before", "fold-inside", "fold-after", "fold-everywhere", "lookalikes", "tight", "random-fold", "random-both"]


class Writer:
    """the two-state writer: knows whether it is inside a block; records what it plants"""

    def __init__(self, rng, flavour):
        self.rng = rng
        self.uni = flavour in ("fold", "both")
        self.lines = []          # [[kind, text, inside?, glue?]]
        self.inside = False
        self.k = 0
        self.lics = list(LICS)
        rng.shuffle(self.lics)

    def word(self, heavy=False):
        if heavy:
            return "".join(self.rng.choice(HEAVY) for _ in range(self.rng.randint(1, 7)))
        if self.uni and self.rng.random() < 0.7:
            return self.rng.choice(WORDS) if self.rng.random() < 0.6 else "".join(self.rng.choice(LONGER) for _ in range(self.rng.randint(1, 4)))
        return self.rng.choice(ASCII_WORDS)

    def start(self, glue=None):
        self.lines.append(["S", "", self.inside, glue])
        self.inside = True

    def end(self, glue=None):
        self.lines.append(["E", "", self.inside, glue])
        self.inside = False

    def snip(self, which):
        self.lines.append(["SB" if which == "B" else "SE", "", self.inside, None])

    def prose(self):
        self.lines.append(["F", self.rng.choice(SNIP_PROSE), self.inside, None])

    def filler(self, heavy=False):
        self.lines.append(["F", " ".join(self.word(heavy) for _ in range(self.rng.randint(1, 4))), self.inside, None])

    def lookalike(self):
        self.lines.append(["F", self.rng.choice(LOOKALIKES_END if self.rng.random() < 0.4 else LOOKALIKES_START), self.inside, None])

    def tag(self, kind=None, bare=False):
        rng = self.rng
        kind = kind or rng.choice("LLCCN")
        self.k += 1
        if kind == "L":
            v = self.lics.pop() if self.lics and rng.random() < 0.7 else "LicenseRef-t%d" % self.k
            text = "SPDX-License-Identifier: " + v
        elif kind == "C":
            name = "Holder%d" % self.k
            if self.uni and rng.random() < 0.6:
                name += " " + rng.choice(WORDS)
            v = rng.choice(CPR_FORMS) % (1990 + self.k, name)
            text = v
        else:
            v = "Contributor%d" % self.k
            if self.uni and rng.random() < 0.4:
                v += " " + rng.choice(WORDS)
            text = "SPDX-FileContributor: " + v
        self.lines.append([kind, text, self.inside, None, v, bare])

    def some(self, lo, hi, heavy=False):
        for _ in range(self.rng.randint(lo, hi)):
            r = self.rng.random()
            if r < 0.6:
                self.tag()
            else:
                self.filler(heavy)


def write_doc(rng, plan):
    flavour = "snip" if "snip" in plan or plan == "prose-in-block" else "fold"
    if plan == "random-both":
        flavour = "both"
    w = Writer(rng, flavour)
    if plan == "snip-in-block":
        w.some(0, 2); w.start(); w.some(0, 2); w.snip("B"); w.some(0, 2); w.snip("E"); w.some(1, 2); w.end(); w.some(0, 2)
    elif plan == "block-in-snip":
        w.some(0, 2); w.snip("B"); w.some(0, 2); w.start(); w.some(1, 2); w.end(); w.some(0, 2); w.snip("E"); w.some(0, 2)
    elif plan == "block-over-snipend":
        w.some(0, 1); w.snip("B"); w.some(0, 2); w.start(); w.some(0, 2); w.snip("E"); w.some(1, 2); w.end(); w.some(0, 2)
        if rng.random() < 0.4:
            w.snip("B"); w.some(0, 1); w.start(); w.some(0, 1); w.snip("E"); w.tag(); w.end(); w.some(0, 1)
    elif plan == "block-over-snipbegin":
        w.some(0, 1); w.start(); w.some(0, 2); w.snip("B"); w.some(1, 2); w.end(); w.some(0, 2); w.snip("E"); w.some(0, 2)
    elif plan == "open-in-snip":
        w.some(0, 2); w.snip("B"); w.some(0, 2); w.start(); w.some(0, 2); w.snip("E"); w.some(1, 3)
        if rng.random() < 0.3:
            w.snip("B"); w.some(1, 2); w.snip("E")
    elif plan == "prose-in-block":
        w.some(0, 2); w.start(); w.some(0, 2); w.prose(); w.some(1, 2)
        if rng.random() < 0.8:
            w.end(); w.some(0, 2)
    elif plan in ("random-snip", "random-fold", "random-both"):
        for _ in range(rng.randint(4, 16)):
            r = rng.random()
            if r < 0.16:
                w.start()
            elif r < 0.32:
                w.end()
            elif r < 0.48 and flavour != "fold":
                w.snip(rng.choice("BE"))
            elif r < 0.53 and flavour != "fold":
                w.prose()
            elif r < 0.60 and flavour != "snip":
                w.lookalike()
            elif r < 0.85:
                w.tag()
            else:
                w.filler(heavy=flavour != "snip" and rng.random() < 0.4)
    elif plan.startswith("fold-"):
        where = plan[5:]
        heavy_b, heavy_i, heavy_a = (where in ("before", "everywhere")), (where in ("inside", "everywhere")), (where in ("after", "everywhere"))
        for _ in range(rng.randint(1, 3)):
            w.some(0, 2, heavy_b)
            if heavy_b:
                w.filler(True)
            w.start()
            w.some(0, 2, heavy_i)
            if heavy_i:
                w.filler(True)
            if rng.random() < 0.1:
                break
            w.end(glue=rng.choice([None, None, "", " "]))
            if w.lines[-1][3] is not None or rng.random() < 0.7:
                w.tag(bare=rng.random() < 0.7)
            w.some(0, 2, heavy_a)
    elif plan == "lookalikes":
        w.some(0, 2)
        for _ in range(rng.randint(1, 3)):
            r = rng.random()
            if r < 0.5:
                w.lookalike(); w.some(1, 2)                     # a look-alike start: nothing opens
            elif r < 0.8:
                w.start(); w.some(1, 2); w.lookalike(); w.some(1, 2); w.end(); w.some(0, 2)      # a look-alike inside a real block: nothing closes (or nests)
            else:
                w.lookalike(); w.some(0, 1); w.end(); w.some(1, 2)      # a stray real end marker behind a look-alike start
    elif plan == "tight":
        # tags hard against markers, heavy characters in front
        for _ in range(rng.randint(1, 3)):
            w.filler(True)
            if rng.random() < 0.5:
                w.tag()
            w.start(glue=rng.choice([None, "", " "]))
            if w.lines[-1][3] is not None:
                w.tag()
            w.some(0, 1, True)
            w.end(glue=rng.choice(["", " ", None]))
            w.tag(bare=True)
    else:
        raise ValueError(plan)
    return w.lines


def render(case):
    """-> (text, planted [(kind, value, inside, offset)])"""
    st, en = base._markers()
    pre = PRES[case["pre"]]
    tail = MARK_TAILS[case["mtail"]]
    parts, planted, pos = [], [], 0
    glued = False           # the previous line was a marker that shares its line with this one
    for ln in case["lines"]:
        kind, text, inside, glue = ln[:4]
        lead = "" if glued else pre
        if kind == "S":
            body = lead + st
        elif kind == "E":
            body = lead + en
        elif kind == "SB":
            body = lead + "SPDX-SnippetBegin"
        elif kind == "SE":
            body = lead + "SPDX-SnippetEnd"
        elif kind == "F":
            body = lead + text
        else:
            if len(ln) > 5 and ln[5] and not glued:
                lead = ""            # a tag without any comment prefix: it starts at the first character of its line
            body = lead + text
            planted.append((kind, ln[4], inside, pos + len(lead)))
        if kind in ("S", "E") and glue is not None:
            body += glue
            glued = True
        else:
            if kind in ("S", "E", "SB", "SE"):
                body += tail
            body += "\n"
            glued = False
        parts.append(body)
        pos += len(body)
    text = "".join(parts)
    if glued:
        text += "\n"
    return text, planted


def self_check(text, planted):
    """the writer's state against the two-state scanner of the property, on the rendered text"""
    st, en = base._markers()
    mask = base.outside_mask(text, st, en)
    for kind, v, inside, off in planted:
        assert mask[off] == (not inside), ("generator: writer and scanner disagree", text, kind, v, inside)


def norm_lic(v):
    from license_expression import Licensing
    return str(Licensing().parse(v))


def wanted(planted):
    out = {"L": set(), "C": set(), "N": set()}
    ins = {"L": set(), "C": set(), "N": set()}
    for kind, v, inside, _off in planted:
        (ins if inside else out)[kind].add(norm_lic(v) if kind == "L" else v)
    return out, ins


def judge(planted, got, file_level=False, kinds="LCN"):
    out, ins = wanted(planted)
    if file_level and not out["L"] and not out["C"]:
        out["N"] = set()         # nothing is reported for a file without copyright or licensing information
    names = {"L": "licence expression", "C": "copyright notice", "N": "contributor"}
    for k in kinds:
        extra = got[k] - out[k]
        hidden = sorted(extra & ins[k])
        if hidden:
            return "attributed-from-inside-a-block: %s %r stands between a start marker and the next end marker, yet it is attributed" % (names[k], hidden)
    for k in kinds:
        missing = sorted(out[k] - got[k])
        if missing:
            return "outside-not-attributed: %s %r stands outside every block and is not attributed (attributed: %r)" % (names[k], missing, sorted(got[k]))
    for k in kinds:
        if got[k] != out[k]:
            return "attributed-not-planted: %s %r is attributed; outside the blocks stand %r" % (names[k], sorted(got[k] - out[k]), sorted(out[k]))
    return None


def info_key(got):
    return "L=%s|C=%s|N=%s" % tuple(";".join(sorted(got[k])) for k in "LCN")


def parse_key(s):
    parts = dict(p.split("=", 1) for p in s.split("|"))
    return {k: set(x for x in parts[k].split(";") if x) for k in "LCN"}


def looks_binary(text):
    """`reuse lint` does not search files that the binaryornot library (not part of the code under test) takes for binary: it
    judges the first bytes (512 at the time of writing; the library's own constant is used), and a text with many non-ASCII
    characters — or one whose chunk ends in the middle of a multi-byte character — can look binary to it.  Such documents are not
    put into lint projects (which files count as binary is not C12's business)."""
    from binaryornot import helpers
    data = text.encode("utf-8")
    return any(bool(helpers.is_binary_string(data[:n])) for n in {helpers.CHUNK_SIZE, 512, 1024})


def gen_cases(rng, n, plans=PLANS, textual=False):
    out = []
    i = 0
    while len(out) < n:
        plan = plans[i % len(plans)]
        i += 1
        case = {"plan": plan, "lines": write_doc(rng, plan), "pre": rng.randrange(len(PRES)), "mtail": rng.randrange(len(MARK_TAILS))}
        text, planted = render(case)
        if not planted or len(text.encode("utf-8")) > 3800:
            continue
        if textual and looks_binary(text):
            continue
        self_check(text, planted)
        out.append(case)
    return out


def shape(case):
    """what kind of document it is, for the input-distribution record"""
    text, planted = render(case)
    return (case["plan"], sum(1 for p in planted if p[2]), sum(1 for p in planted if not p[2]), "SPDX-SnippetEnd" in text, not text.isascii())


class MixFilterStream(Stream):
    name = "mixfilter"
    rule = ("filter_ignore_block on line-written documents (15 plans: snippet inside a block, block inside a snippet, block spanning a snippet end / "
            "begin, unterminated block in a snippet, the words SPDX-SnippetEnd in prose inside a block, random orders of ignore and snippet "
            "markers; runs of characters that grow under casefold / upper / lower / NFKC / NFD or shrink under NFC, astral characters — "
            "before, inside, behind blocks and everywhere; tags glued to a marker on its line or starting the next line without prefix; "
            "29 marker look-alikes in other capitalisations or equal to a marker only after folding / normalising, which open and close "
            "nothing), 9 line prefixes, marker lines with trailing words: the code vs the Lean model vs the two-state scanner; "
            "non-trivial = distinct (plan, kept text)")

    def cases(self, tier, rng):
        return gen_cases(rng, 6000 if tier == "thorough" else 700)

    def impl(self, case):
        from reuse.extract import filter_ignore_block
        return enc(filter_ignore_block(render(case)[0]))

    def model_lines(self, case):
        return ["filter\t" + enc(render(case)[0])]

    def oracle(self, case, impl_out):
        st, en = base._markers()
        text = render(case)[0]
        want = base.scanner(text, st, en)
        if impl_out != enc(want):
            return "filter-differs-from-scanner: kept %r, property says %r" % (dec(impl_out) if not impl_out.startswith("EXC") else impl_out, want)
        return None

    def nontrivial(self, case, impl_out):
        return (case["plan"], impl_out) if impl_out != enc(render(case)[0]) else None

    def show(self, case):
        return {"plan": case["plan"], "text": render(case)[0]}


class MixExtractStream(Stream):
    name = "mixextract"
    rule = ("extract_reuse_info on the documents of `mixfilter` (every planted value unique in its document: licences incl. LicenseRef-, six "
            "copyright forms incl. SPDX-SnippetCopyrightText and non-ASCII holders, contributors): the code vs the Lean model (`extract`) vs "
            "the tags the two-state writer planted outside blocks; non-trivial = distinct (plan, #hidden, #outside, snippet end present, "
            "non-ASCII present) with at least one tag hidden")

    def cases(self, tier, rng):
        return gen_cases(rng, 6000 if tier == "thorough" else 900)

    def impl(self, case):
        from reuse.extract import extract_reuse_info
        logging.disable(logging.CRITICAL)
        try:
            info = extract_reuse_info(render(case)[0])
        finally:
            logging.disable(logging.NOTSET)
        return info_key({"L": {str(e) for e in info.spdx_expressions}, "C": set(info.copyright_lines), "N": set(info.contributor_lines)})

    def model_lines(self, case):
        return ["extract\t" + enc(render(case)[0])]

    def model_out(self, case, outs):
        parts = dict(p.split("=", 1) for p in outs[0].split("|"))
        lic, cpr, con = (set(dec_list(parts[k])) for k in "LCN")
        return info_key({"L": {norm_lic(x) for x in lic}, "C": cpr, "N": con})

    def oracle(self, case, impl_out):
        if impl_out.startswith("EXC"):
            return "crash: " + impl_out
        return judge(render(case)[1], parse_key(impl_out))

    def nontrivial(self, case, impl_out):
        s = shape(case)
        return s if s[1] else None

    def show(self, case):
        text, planted = render(case)
        return {"plan": case["plan"], "text": text, "planted_outside": [p[1] for p in planted if not p[2]], "planted_inside": [p[1] for p in planted if p[2]]}


class MixFileStream(Stream):
    name = "mixfile"
    rule = ("reuse_info_of_file on scratch files holding the documents of `mixfilter` (below the 4096-byte window; with a snippet marker the "
            "file is read whole; 1 in 6 carried by FILE.license; names .py / .c / .txt / .md): attributed information vs the tags planted "
            "outside blocks (contributors only when there is copyright or licensing information)")
    EXTS = [".py", ".c", ".txt", ".md"]

    def cases(self, tier, rng):
        out = gen_cases(rng, 3000 if tier == "thorough" else 300)
        for c in out:
            c["sib"] = rng.random() < 0.17
            c["ext"] = rng.choice(self.EXTS)
        return out

    def impl(self, case):
        from reuse.extract import reuse_info_of_file
        text = render(case)[0]
        with cli.scratch("rv-c12m-") as root:
            path = os.path.join(root, "f" + case["ext"])
            target = path
            if case.get("sib"):
                with open(path, "w", encoding="utf-8", newline="") as fp:
                    fp.write("x = 1\n")
                target = path + ".license"
            with open(target, "w", encoding="utf-8", newline="") as fp:
                fp.write(text)
            logging.disable(logging.CRITICAL)
            try:
                info = reuse_info_of_file(target, path, root)
            finally:
                logging.disable(logging.NOTSET)
        return info_key({"L": {str(e) for e in info.spdx_expressions}, "C": set(info.copyright_lines), "N": set(info.contributor_lines)})

    def oracle(self, case, impl_out):
        if impl_out.startswith("EXC"):
            return "crash: " + impl_out
        return judge(render(case)[1], parse_key(impl_out), file_level=True)

    def nontrivial(self, case, impl_out):
        s = shape(case)
        return s + (case["sib"],) if s[1] else None

    def show(self, case):
        text, planted = render(case)
        return {"plan": case["plan"], "file": "f" + case["ext"] + (".license" if case.get("sib") else ""), "text": text,
                "planted_outside": [p[1] for p in planted if not p[2]], "planted_inside": [p[1] for p in planted if p[2]]}


class MixLintStream(Stream):
    name = "mixlint"
    rule = ("real `reuse lint --json` (in-process CLI) over projects of 4-8 files holding the documents of `mixfilter` (.py / .c / .txt / .md / "
            ".html / .sh, some carried by FILE.license, some in sub-directories): per file the copyrights / spdx_expressions of the report vs "
            "the tags planted outside blocks")
    EXTS = [".py", ".c", ".txt", ".md", ".html", ".sh"]

    def cases(self, tier, rng):
        n = 150 if tier == "thorough" else 14
        for _ in range(n):
            files = gen_cases(rng, rng.randint(4, 8), plans=rng.sample(PLANS, len(PLANS)), textual=True)
            for i, f in enumerate(files):
                f["name"] = rng.choice(["", "", "src/", "docs/deep/"]) + "f%d%s" % (i, rng.choice(self.EXTS))
                f["sib"] = rng.random() < 0.15
            yield {"files": files}

    def impl(self, case):
        tree = {}
        for f in case["files"]:
            if f.get("sib"):
                tree[f["name"]] = "plain\n"
                tree[f["name"] + ".license"] = render(f)[0]
            else:
                tree[f["name"]] = render(f)[0]
        with cli.scratch("rv-c12n-") as root:
            cli.write_tree(root, tree)
            logging.disable(logging.CRITICAL)
            try:
                code, report, exc = cli.lint_json(root)
            finally:
                logging.disable(logging.NOTSET)
        if exc is not None or report is None:
            return "EXC:%s:%s" % (type(exc).__name__, str(exc)[:100])
        res = {}
        for entry in report["files"]:
            res[entry["path"]] = {"C": sorted(c["value"] for c in entry["copyrights"]), "L": sorted(e["value"] for e in entry["spdx_expressions"])}
        return json.dumps(res, sort_keys=True)

    def oracle(self, case, impl_out):
        if impl_out.startswith("EXC"):
            return "crash: " + impl_out
        res = json.loads(impl_out)
        for f in case["files"]:
            e = res.get(f["name"])
            if e is None:
                return "not-in-report: %s" % f["name"]
            why = judge(render(f)[1], {"C": set(e["C"]), "L": set(e["L"]), "N": set()}, file_level=True, kinds="LC")
            if why:
                head, _, rest = why.partition(": ")
                return "%s: in %s: %s" % (head, f["name"], rest)
        return None

    def nontrivial(self, case, impl_out):
        return impl_out if not impl_out.startswith("EXC") else None

    def show(self, case):
        return {"files": {f["name"] + (".license" if f.get("sib") else ""): render(f)[0] for f in case["files"]}}


STREAMS = [MixFilterStream(), MixExtractStream(), MixFileStream(), MixLintStream()]
