"""C07, one more region of the input space: tags *without a value* — in the file that is annotated and on the command line.

"arbitrary pre-existing file content" includes a header somebody began and never filled in: `# SPDX-License-Identifier: ` with
nothing (or only blanks / a tab) behind the colon, alone or next to complete tags, in every comment style, single-line, inline
(`/* SPDX-License-Identifier: */`) and block form.  Such a line declares nothing (C02: a tag is read "with exactly the value its
author wrote"; an empty value names no licence).  The property demands that after a successful run the linter reads "precisely the
requested copyright notices, licence expressions and contributors, in addition to what the file already declared": nothing may be
invented on account of the empty line.  The same for `--license ""` / `--license " "`: a blank is no licence expression — the
command may refuse it (usage error) or ignore it, but the file must not come to declare a licence nobody named.

`e2e-blank` — real `reuse annotate` + `reuse lint --json` on scratch projects: files of every comment style (one table entry per
              style, more thorough) whose content holds 1-3 tag lines with blank values (licence, contributor; blanks, tabs, several
              blanks, nothing but the terminator) placed before / between / after complete tags, in an own-style comment block at
              the top, below code, or in a FILE.license; requests from the usual grammar, some with a blank --license.
              Oracle = generator ground truth: licences read back after success = normalised(planted ∪ requested non-blank), the
              planted and requested notices are read back; failure => nothing written.
"""
import json

from core import Stream
import annotgen as G
import c07 as base

BLANKS = [" ", "  ", "\t", " \t ", ""]


def blank_body(rng, style_name):
    """(text, planted licences, planted notices, planted contributors): an own-style comment block holding complete tags and tag
    lines with blank values, plus code"""
    st = G.style_class(style_name)
    cpr = rng.choice([[], ["SPDX-FileCopyrightText: 2017 Prev Holder"], ["SPDX-FileCopyrightText: 2016 Someone", "Copyright (C) 2015 Elder & Co."]])
    lic = rng.choice([[], [], ["ISC"], ["MIT OR ISC"]])
    con = rng.choice([[], [], ["Helper"]])
    lines = list(cpr) + ["SPDX-FileContributor: " + c for c in con] + ["SPDX-License-Identifier: " + l for l in lic]
    blanks = []
    for _ in range(rng.randint(1, 3)):
        tag = rng.choice(["SPDX-License-Identifier:"] * 3 + ["SPDX-FileContributor:"])
        blanks.append(tag + rng.choice(BLANKS[:4]))
    for b in blanks:
        lines.insert(rng.randint(0, len(lines)), b)
    inline = st.can_handle_multi() and not st.can_handle_single() or (st.can_handle_multi() and rng.random() < 0.3)
    if st.__name__ in ("UncommentableCommentStyle", "EmptyCommentStyle"):
        block = "\n".join(lines)
    elif inline and rng.random() < 0.5:
        # one inline comment per line: the terminator follows the (missing) value directly
        block = "\n".join("%s %s %s" % (st.MULTI_LINE.start, l.rstrip(" \t") if l.endswith((" ", "\t")) and rng.random() < 0.5 else l, st.MULTI_LINE.end)
                          for l in lines)
    else:
        # create_comment strips nothing from the lines: the blanks behind the colon stay
        block = st.create_comment("\n".join(lines), force_multi=inline)
    code = [rng.choice(G.CODE_LINES[:4]) for _ in range(rng.randint(0, 3))]
    if rng.random() < 0.3 and code:
        text = "\n".join(code) + "\n\n" + block + "\n"
    else:
        text = block + "\n" + ("\n" + "\n".join(code) + "\n" if code else "")
    return text, lic, cpr, con


class BlankTagStream(base.EndToEndStream):
    name = "e2e-blank"
    rule = ("real `reuse annotate` then `reuse lint --json` on single files of every comment style (one table entry per style quick, "
            "four thorough; FILE.license siblings at a low rate) whose content holds 1-3 tag lines with a blank value (SPDX-License-"
            "Identifier / SPDX-FileContributor followed by nothing, blanks, a tab; as single-line comments, one inline comment per line, "
            "block comments) before / between / after 0-4 complete tags, at the top or below code; requests from the grammar, one in five "
            "with an additional blank --license value; options: prefixes, years, --merge-copyrights, --no-replace at a low rate.  "
            "Oracle = generator ground truth (an empty tag declares nothing, a blank is no expression): exit 0 => the licences lint reads "
            "are exactly normalised(planted U requested non-blank), planted and requested notices are read back; exit != 0 => nothing "
            "written; exit 2 is accepted for a blank --license.  non-trivial = distinct (style, shape, outcome)")

    def cases(self, tier, rng):
        entries = G.table_entries()
        by_style = {}
        for e in entries:
            by_style.setdefault(e[2], []).append(e)
        per = 4 if tier == "thorough" else 1
        for style in sorted(by_style):
            if style == "UncommentableCommentStyle":
                continue
            for _ in range(per * 2):
                kind, key, _s = rng.choice(by_style[style])
                text, plic, pcpr, pcon = blank_body(rng, style)
                cpr, lic, con = G.rand_request(rng)
                o = {"prefix": rng.choice(G.PREFIXES), "year": rng.choice([None, "exclude", ["2019"], ["2015", "2021"]]), "tmpl": "default",
                     "merge": rng.random() < 0.1, "no_replace": rng.random() < 0.08}
                blank_opt = rng.random() < 0.2
                if blank_opt:
                    lic = lic + [rng.choice(["", " ", "\t", "  "])]
                f = {"name": G.name_for(kind, key), "body": text, "entry": [kind, key, style], "kind": "table"}
                if rng.random() < 0.1:
                    f = {"name": G.name_for(kind, key), "body": "print(1)\n", "entry": [kind, key, style], "kind": "table",
                         "sib": "\n".join(pcpr + ["SPDX-License-Identifier: " + l for l in plic] + ["SPDX-License-Identifier:" + rng.choice(BLANKS[:4])]) + "\n"}
                    pcon = []
                yield dict(o, files=[f], cpr=cpr, lic=lic, con=con, planted={"lic": plic, "cpr": pcpr, "con": pcon}, blank_opt=blank_opt)
        # nothing but the blank option on plain files
        for v in ["", " ", "\t"]:
            for withc in (True, False):
                yield {"tmpl": "default", "cpr": ["Jane Doe"] if withc else [], "lic": [v], "con": [],
                       "files": [{"name": "plain.py", "body": "print(1)\n", "kind": "table"}], "planted": {"lic": [], "cpr": [], "con": []}, "blank_opt": True}

    def oracle(self, case, impl_out):
        if impl_out.startswith("EXC"):
            return "harness: " + impl_out
        out = json.loads(impl_out)
        rec = out["rec"]
        if rec["exc"]:
            return "traceback: annotate raised %s" % rec["exc"]
        f = case["files"][0]
        name = f["name"]
        mine = (name, name + ".license")
        changed = [k for k in rec["changed"] if k in mine]
        if [k for k in rec["changed"] if k not in mine]:
            return "wrote-elsewhere: %r changed" % (rec["changed"],)
        rc = rec["rc"]
        if rc == 2 and case.get("blank_opt"):
            return None if not changed else "failed-but-wrote: exit 2 yet %r changed" % (changed,)
        if rc != 0:
            return None if not changed else "failed-but-wrote: exit %s yet %r changed" % (rc, changed)
        if not changed:
            return None
        requested = [l for l in case["lic"] if l.strip()]
        want_lic = {G.norm_lic(l) for l in requested} | {G.norm_lic(l) for l in case["planted"]["lic"]}
        got = rec["after"][name]
        got_lic = set(got["lic"])
        if got_lic != want_lic:
            extra, lost = sorted(got_lic - want_lic), sorted(want_lic - got_lic)
            if extra:
                return "invented-licence: after the run the linter reads %r; planted %r, requested %r (blank values declare nothing)" % (
                    extra, case["planted"]["lic"], case["lic"])
            return "readback-licence: %r is not read back; linter reads %r" % (lost, sorted(got_lic))
        if not case.get("merge"):
            year = G.year_text(case.get("year"))
            want_c = {G.expected_notice(h, case.get("prefix"), year) for h in case.get("cpr", [])}
            if not case.get("no_replace") or True:
                want_c |= set(case["planted"]["cpr"])
            lost = sorted(want_c - set(got["cpr"]))
            if lost:
                return "readback-copyright: %r is not read back; linter reads %r" % (lost, got["cpr"])
        return None

    def classify(self, case, failure):
        return None

    def model_lines(self, case):
        return []

    def nontrivial(self, case, impl_out):
        if impl_out.startswith("EXC"):
            return None
        out = json.loads(impl_out)
        f = case["files"][0]
        return (f.get("entry", ["", "", ""])[2], bool(case.get("blank_opt")), "sib" in f, out["rc"], bool(out["rec"]["changed"]))


STREAMS = [BlankTagStream()]
