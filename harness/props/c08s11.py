"""C08, one more region of the input space: files that *talk about* their own header.  A generator script, a test, a shell
script or a README that writes / greps / documents licence tags repeats the characters of its header comment elsewhere: inside a
string constant, a docstring, an `echo` line, behind code on the same line, indented.  The header itself stands below other text
(replace mode looks for it there).  Nothing about where the header is may depend on where else its characters occur.

`quoted`     — add_header_to_file, bytes in / bytes out, every style, replace (4 in 5) and --no-replace; the model is compared;
               oracle = c08.judge in full (every line outside the one replaced / inserted block byte-for-byte and in order).
`quoted-cli` — the real command line on 17 file types.
"""
import os

from core import enc, dec
import cli
import annotcorr
from annotcorr import all_styles, rand_info
import c08 as base

PLAIN = ["import os", "x = 1", "    y = compute(x)", "def f(a, b):", "        return a + b", "value = [1, 2, 3]", "if x: pass", "text with éü张", "\ttabbed = True",
         "done"]
OLD_ONE = ["SPDX-License-Identifier: MIT", "SPDX-License-Identifier: Zlib", "SPDX-FileCopyrightText: 2016 Someone",
           "SPDX-License-Identifier: GPL-3.0-or-later", "Copyright (C) 2011 Old Holder"]
OLD_MANY = ["SPDX-FileCopyrightText: 2017 Prev Holder\n\nSPDX-License-Identifier: ISC",
            "SPDX-FileCopyrightText: 2017 Prev Holder\nSPDX-FileCopyrightText: 2018 Next Holder\n\nSPDX-License-Identifier: ISC",
            "SPDX-FileCopyrightText: 2016 Someone\nSPDX-FileContributor: Helper\n\nSPDX-License-Identifier: MIT OR ISC"]


def header_block(rng, st):
    """(lines of an existing header comment in the file's own style, kind)"""
    r = rng.random()
    if r < 0.6:
        text = rng.choice(OLD_ONE)
        if st.MULTI_LINE.start and (not st.SINGLE_LINE or rng.random() < 0.25):
            # typed by hand on one line: /* SPDX-License-Identifier: MIT */
            return [st.MULTI_LINE.start + " " + text + " " + st.MULTI_LINE.end], "one-typed"
        block = st.create_comment(text).split("\n")
        return block, "one" if len(block) == 1 else "one-framed"
    text = rng.choice(OLD_MANY)
    return st.create_comment(text, force_multi=rng.random() < 0.3 and st.can_handle_multi()).split("\n"), "many"


def quotes_of(rng, block):
    """pieces of the header's own characters a file may repeat: the whole comment, one of its lines, the beginning of a line"""
    whole = "\n".join(block)
    out = [("whole", whole)]
    informative = [l for l in block if base.REUSE_WORDS.search(l)]
    line = rng.choice(informative)
    out.append(("line", line))
    m = base.REUSE_WORDS.search(line)
    out.append(("prefix", line[:rng.randint(m.end(), len(line))]))
    out.append(("first", block[0]))
    return out


def quoting_lines(rng, q):
    """lines (a list: a quoted multi-line comment brings its breaks along) that hold `q` the way sources do; never at a line start"""
    shape = rng.choice(["dq", "sq", "print", "after-code", "indented", "echo", "doc", "call", "tab", "twice"])
    if shape == "dq":
        s = 's = "%s"' % q
    elif shape == "sq":
        s = "TAG = '%s'" % q
    elif shape == "print":
        s = 'print("%s")' % q
    elif shape == "after-code":
        s = "x = 1  %s" % q
    elif shape == "indented":
        s = "    %s" % q
    elif shape == "echo":
        s = 'echo "%s" > "$out"' % q
    elif shape == "doc":
        s = '"""Stamp generated modules with \'%s\' at the top."""' % q
    elif shape == "call":
        s = 'assert text.startswith("%s")' % q
    elif shape == "tab":
        s = "\t%s" % q
    else:
        s = 'pair = ("%s", "%s")' % (q, q)
    return s.split("\n"), shape


def quoted_body(rng, st, le):
    """(text, how): an own-style header below other text; its characters are repeated above and / or below it"""
    block, kind = header_block(rng, st)
    qs = quotes_of(rng, block)
    # the whole comment is the piece a text search for the header would hit: half of the files repeat that one
    pick = lambda: qs[0] if rng.random() < 0.5 else rng.choice(qs)      # noqa: E731
    plain = lambda k: [rng.choice(PLAIN) for _ in range(k)]             # noqa: E731
    where = rng.choice(["above", "above", "above", "both", "below", "top-below"])
    hows = []

    def region():
        out = plain(rng.randint(0, 2))
        for _ in range(rng.choice([1, 1, 2])):
            what, q = pick()
            ls, shape = quoting_lines(rng, q)
            hows.append(what + ":" + shape)
            out += ls + plain(rng.randint(0, 2))
        return out
    lines = []
    if st.SHEBANGS and rng.random() < 0.25:
        lines += [st.SHEBANGS[0] + " first"] + rng.choice([[], [""]])
    if where == "top-below":
        lines += block + rng.choice([[], [""]]) + region()
    else:
        lines += (region() if where in ("above", "both") else plain(rng.randint(1, 3))) + rng.choice([[], [""], ["", ""]]) + block
        if where in ("below", "both"):
            lines += rng.choice([[], [""]]) + region()
        elif rng.random() < 0.6:
            lines += rng.choice([[], [""]]) + plain(rng.randint(1, 2))
    text = "\n".join(lines)
    if rng.random() < 0.8:
        text += "\n"
    text = text.replace("\n", le)
    if rng.random() < 0.05:
        text = base.BOM + text
    return text, "%s/%s/%s" % (kind, where, ",".join(sorted(set(hows))))


class QuotedHeaderStream(base.C08Stream):
    name = "quoted"
    rule = ("add_header_to_file on scratch files, bytes in / bytes out: every style of the table x {replace (4 in 5), --no-replace} x LF / CRLF "
            "/ CR x files whose existing own-style header (one line as the tool writes it, one line typed by hand `/* … */`, framed, several "
            "lines) stands below other text (1 in 6 at the top) and whose characters are repeated above and / or below it — the whole comment, "
            "one of its lines, the beginning of a line — inside a double- / single-quoted constant, a print / echo / assert line, a docstring, "
            "behind code on the same line, indented by blanks or a tab, twice on one line; shebang or none; model = Model.annotateFile; "
            "oracle = c08.judge in full; non-trivial = distinct (style, mode, header kind, placement, quoting shapes)")

    def cases(self, tier, rng):
        k = 60 if tier == "thorough" else 7
        out = []
        for st in all_styles():
            if st.__name__ in ("UncommentableCommentStyle", "EmptyCommentStyle"):
                continue
            for i in range(k):
                le = ["\n", "\r\n", "\r"][i % 3] if i < 3 else rng.choice(["\n", "\n", "\r\n", "\r"])
                t, how = quoted_body(rng, st, le)
                cpr, lic, con = rand_info(rng)
                force = "1" if (st.can_handle_multi() and rng.random() < 0.2) else "0"
                out.append({"s": st.__name__, "f": "0" + force + "0" + rng.choice("11110") + "0", "tmpl": "default", "cpr": cpr, "lic": lic, "con": con,
                            "t": t, "how": how, "le": le})
        return base.attach_bad(out)

    def impl(self, case):
        return annotcorr.run_annotate(case)

    def model_lines(self, case):
        return [base.model_line(case)]

    def nontrivial(self, case, impl_out):
        return (case["s"], case["f"], case["how"]) if impl_out.startswith("W:") else None

    def show(self, case):
        return {k: case[k] for k in ("s", "f", "cpr", "lic", "con", "t", "how") if k in case}


class QuotedHeaderCliStream(base.C08Stream):
    name = "quoted-cli"
    rule = ("`reuse annotate` (click entry point, in process) on scratch files of 17 types built as in stream `quoted`, with --no-replace "
            "(1 in 5) / --multi-line at random; the file is read back as bytes and judged by c08.judge")

    def cases(self, tier, rng):
        from reuse.comment import EXTENSION_COMMENT_STYLE_MAP_LOWERCASE as EXT
        k = 300 if tier == "thorough" else 40
        for i in range(k):
            ext = base.CliStream.EXTS[i % len(base.CliStream.EXTS)]
            st = EXT[ext]
            le = rng.choice(["\n", "\n", "\r\n", "\r"])
            t, how = quoted_body(rng, st, le)
            argv = ["annotate", "--copyright", "Jane Doe", "--license", rng.choice(["MIT", "0BSD"]), "--year", "2020"]
            rep = True
            if rng.random() < 0.2:
                argv.append("--no-replace")
                rep = False
            multi = False
            if st.can_handle_multi() and rng.random() < 0.25:
                argv.append("--multi-line")
                multi = True
            yield {"s": st.__name__, "ext": ext, "argv": argv, "t": t, "f": "0" + ("1" if multi else "0") + "0" + ("1" if rep else "0") + "0",
                   "cpr": ["Jane Doe"], "lic": [argv[4]], "con": [], "how": how, "le": le}

    def impl(self, case):
        with cli.scratch("rv-c08q-") as root:
            name = "f" + case["ext"]
            cli.write_tree(root, {name: case["t"]})
            code, out, exc = cli.run_cli(case["argv"] + [name], root)
            with open(os.path.join(root, name), "r", encoding="utf-8", newline="") as fp:
                after = fp.read()
            extra = sorted(set(os.listdir(root)) - {name})
            if exc is not None:
                return "EXC:%s" % type(exc).__name__
            if extra:
                return "EXTRA:%r" % extra
            if code != 0:
                return "F:%d" % code if after == case["t"] else "F-CHANGED:" + enc(after)
            return "W:" + enc(after)

    def oracle(self, case, impl_out):
        if impl_out.startswith(("EXC", "EXTRA", "F-CHANGED")):
            return "cli: " + impl_out[:80]
        return base.C08Stream.oracle(self, case, impl_out)

    def nontrivial(self, case, impl_out):
        return (case["s"], case["f"], case["how"]) if impl_out.startswith("W:") else None

    def show(self, case):
        return {k: case[k] for k in ("s", "f", "argv", "ext", "t", "how") if k in case}


STREAMS = [QuotedHeaderStream(), QuotedHeaderCliStream()]
