"""C14 — end-to-end machinery: generated project trees, the configurations under which the real
`reuse lint --json` / `reuse spdx` are run, and the normaliser.  Used by c14.py.

This file is also the child program of the hash-seed runs:
    PYTHONHASHSEED=<n> /venv/bin/python c14_runs.py <cwd> <root-argument-or-"-"> <flags>
prints one JSON object with the raw outputs of the three commands.
"""
import json
import os
import random
import subprocess
import sys

HERE = os.path.dirname(os.path.abspath(__file__))
PY = "/venv/bin/python"

# --------------------------------------------------------------------------
# project trees

# comment terminators that the END pattern strips (MULTI_LINE.end of the styles + the special endings)
TERMS = ["*/", "-->", "#}", "*)", "--%>", "--}}", ":)", "=#", "}", "'/", "*#", '">', "'>", '" />', "]::", "] ::"]

LICENCE_TEXT = "Permission is hereby granted.\n"


# how LICENSES/ provides the identifier X of which some files use `X+` and others `X`
PLUS_MODES = ["plus-only", "plain-only", "both", "none"]
PLUS_IDS = ["LGPL-2.1", "Apache-1.0", "EUPL-1.2", "AGPL-3.0", "GPL-1.0", "MPL-1.1", "GFDL-1.3"]
# top-level directory names on either side of '.' and '/' in code-point order (the root REUSE.toml's directory is spelt `.`, a
# nested one `name`, a path `name/…`), and on either side of 'R' (REUSE.toml)
ODD_LOW = [" spaced", "!a", "#tmp", "$d", "%p", "&e", "'q", "(third-party)", "+vendor", ",c", "-x", "+", "-", "!"]
ODD_HIGH = [".dot", "0num", ":c", ";s", "=e", "@at", "Q1", "REUSE", "S1", "Zed", "_u", "a0", "~t", "\u00e9tage"]
TOML_KINDS = ("toml", "toml-partial", "subprojects-root", "git", "git-submodule")


def gen_tree(seed, kind, plus=None):
    """-> (root directory name, {relative path: str|bytes}).  kind: toml | toml-partial | dep5 | plain | subprojects-root | git |
    git-submodule (the files of the submodules come from gen_submodules); plus: one of PLUS_MODES (None: drawn)"""
    name, files = _gen_tree_base(seed, kind)
    # additions drawn from a generator of their own, so that the trees of earlier revisions stay what they were
    rng = random.Random("c14-tree-extra:%s:%s" % (seed, kind))
    mode = plus if plus is not None else rng.choice(PLUS_MODES)
    x = rng.choice(PLUS_IDS)
    if mode in ("plus-only", "both"):
        files["LICENSES/%s+.txt" % x] = LICENCE_TEXT
    if mode in ("plain-only", "both"):
        files["LICENSES/%s.txt" % x] = LICENCE_TEXT
    tags = [x + "+"] * rng.randint(1, 2) + [x] * rng.randint(1, 2)
    rng.shuffle(tags)
    for j, tag in enumerate(tags):
        d = rng.choice(["", "", "src", "src/deep", "lib", "docs"])
        expr = tag if rng.random() < 0.7 else rng.choice(["%s OR MIT", "MIT AND %s", "(%s)"]) % tag
        files["%spf%d.py" % (d + "/" if d else "", j)] = "# SPDX-FileCopyrightText: 2020 Jane Doe\n# SPDX-License-Identifier: %s\n" % expr
    _add_near_duplicate_notices(files, seed, kind)
    if kind in TOML_KINDS:
        odd = [rng.choice(ODD_LOW), rng.choice(ODD_LOW + ODD_HIGH + ODD_HIGH)]
        r = rng.random()
        if r < 0.35:
            odd.append("src/" + rng.choice(ODD_LOW + ODD_HIGH))
        elif r < 0.55:
            odd.append(odd[0] + "/" + rng.choice(ODD_LOW))
        for i, d in enumerate(dict.fromkeys(odd)):
            lic = rng.choice(["MIT", "GPL-3.0-or-later", "Apache-2.0"])
            for f in ("a.txt", "b.txt", "in/c.py"):
                files["%s/%s" % (d, f)] = "no information here\n"
            if kind == "toml-partial":
                half = rng.choice(["cpr", "lic", "both", "both"])
                files[d + "/REUSE.toml"] = (
                    'version = 1\n\n[[annotations]]\npath = "**"\nprecedence = "closest"\n%s%s'
                    % ('SPDX-FileCopyrightText = "2012 Odd %d"\n' % i if half in ("cpr", "both") else "",
                       'SPDX-License-Identifier = "%s"\n' % lic if half in ("lic", "both") else ""))
            else:
                # a.txt: closest here, b.txt: override here - each against whatever the outer REUSE.toml says about **/*.txt
                files[d + "/REUSE.toml"] = (
                    'version = 1\n\n[[annotations]]\npath = "a.txt"\nprecedence = "closest"\n'
                    'SPDX-FileCopyrightText = "2012 Odd %d"\nSPDX-License-Identifier = "%s"\n\n'
                    '[[annotations]]\npath = "b.txt"\nprecedence = "override"\n'
                    'SPDX-FileCopyrightText = "2013 Odd %d"\nSPDX-License-Identifier = "%s"\n\n'
                    '[[annotations]]\npath = "**/*.py"\nprecedence = "%s"\n'
                    'SPDX-FileCopyrightText = "2014 Odd %d"\nSPDX-License-Identifier = "%s"\n'
                    % (i, lic, i, lic, rng.choice(["closest", "aggregate", "override"]), i, lic))
    return name, files


# notices that are the same up to letter case / runs of blanks / a trailing dot: each is a notice of its own in every output
NEAR_DUPLICATES = [
    ("2021 ACME Inc.", "2021 Acme Inc.", "2021 acme inc."),
    ("2020 Example GmbH", "2020 EXAMPLE GmbH"),
    ("2019 Jane  Doe <jane@example.com>", "2019 Jane Doe <jane@example.com>", "2019 Jane Doe  <JANE@example.com>"),
    ("2018 The Foo Authors", "2018 the foo authors", "2018 The  Foo  Authors"),
    ("2017 \u00c9cole Polytechnique", "2017 \u00e9cole polytechnique", "2017 \u00c9COLE POLYTECHNIQUE"),
    ("2016 Stra\u00dfe AG", "2016 STRASSE AG", "2016 Strasse AG"),
]


def _add_near_duplicate_notices(files, seed, kind):
    """two to four files (a header, a .license sibling of a binary, in REUSE.toml trees a list value of one table, in dep5 trees
    one Copyright field) that carry, IN ONE SOURCE, two or three notices equal up to case / inner blanks: which of them a run
    prints must not depend on anything (they live in a set inside the tool)"""
    rng = random.Random("c14-tree-dups:%s:%s" % (seed, kind))
    groups = rng.sample(NEAR_DUPLICATES, 3)
    g = list(groups[0][:rng.randint(2, 3)])
    rng.shuffle(g)
    d = rng.choice(["", "src/", "docs/", "lib/"])
    files[d + "dup_header.py"] = "".join("# SPDX-FileCopyrightText: %s\n" % n for n in g) + "# SPDX-License-Identifier: MIT\n\nx = 1\n"
    g = list(groups[1][:rng.randint(2, 3)])
    rng.shuffle(g)
    d = rng.choice(["", "src/", "src/deep/", "lib/"])
    files[d + "dup_logo.png"] = b"\x89PNG\r\n\x1a\n\x00\x00\x00dup"
    files[d + "dup_logo.png.license"] = "".join("SPDX-FileCopyrightText: %s\n" % n for n in g) + "SPDX-License-Identifier: MIT\n"
    g = list(groups[2][:rng.randint(2, 3)])
    rng.shuffle(g)
    if kind in TOML_KINDS:
        # an own directory with an own REUSE.toml: the outer tables say nothing about *.dat
        files["dupcfg/data.dat"] = "1 2 3\n"
        files["dupcfg/more.dat"] = "# SPDX-FileCopyrightText: %s\n4 5 6\n" % g[0]
        files["dupcfg/REUSE.toml"] = ('version = 1\n\n[[annotations]]\npath = "*.dat"\nprecedence = "%s"\nSPDX-FileCopyrightText = [%s]\n'
                                      'SPDX-License-Identifier = "MIT"\n' % (rng.choice(["closest", "aggregate", "override"]),
                                                                             ", ".join(json.dumps(n) for n in g)))
    elif kind == "dep5" and ".reuse/dep5" in files:
        files["dup5/data.dat"] = "1 2 3\n"
        files[".reuse/dep5"] += "\nFiles: dup5/*\nCopyright: %s\nLicense: MIT\n" % "\n ".join(g)
    else:
        files["dup_both.c"] = "/*\n" + "".join(" * Copyright (C) %s\n" % n for n in g) + " * SPDX-License-Identifier: MIT\n */\n"
    return files


def gen_links(seed, kind, files):
    """-> ([(existing regular file, new name of the same inode)], {further files to write}): hard links.  One to two covered
    files get one or two more names in other directories (existing ones, among them directories with an own REUSE.toml, and new
    ones); for every inode one of its names — not all — has (or gets) a .license sibling, so that the names differ in their REUSE
    information; in REUSE.toml trees an inner REUSE.toml is now and then hard-linked into a new directory that holds files
    without information.  Every name is a regular file and a covered file of its own: each must have its own report whatever
    the order in which the walk meets the names."""
    rng = random.Random("c14-links:%s:%s" % (seed, kind))
    def usable(p):
        parts = p.split("/")
        return (not p.startswith(("LICENSES/", ".reuse/")) and "subprojects" not in parts[:-1] and not p.endswith(".license")
                and parts[-1] != "REUSE.toml" and len(files[p]) > 0)
    cands = sorted(p for p in files if usable(p))
    dirs = sorted({os.path.dirname(p) for p in cands}) + ["img", "doc/figures", "zz last", "0first"]
    links, extra = [], {}
    taken = set(files)
    for n, src in enumerate(rng.sample(cands, min(len(cands), rng.randint(1, 2)))):
        names = [src]
        stem, ext = os.path.splitext(os.path.basename(src))
        for j in range(rng.randint(1, 2)):
            d = rng.choice([x for x in dirs if x != os.path.dirname(src)])
            dst = (d + "/" if d else "") + rng.choice([os.path.basename(src), "%s_ln%d%s" % (stem, j, ext), "ln%d%d%s" % (n, j, ext or ".txt")])
            if dst in taken:
                continue
            taken.add(dst)
            links.append((src, dst))
            names.append(dst)
        if len(names) > 1 and not any(x + ".license" in files for x in names):
            # one name of the inode gets a side-car, the others do not
            x = rng.choice(names)
            if x + ".license" not in taken:
                extra[x + ".license"] = "SPDX-FileCopyrightText: 2023 Linked Sidecar\nSPDX-License-Identifier: MIT\n"
                taken.add(x + ".license")
    inner = sorted(p for p in files if p.endswith("/REUSE.toml") and p.count("/") <= 2 and 'path = "**"' in files[p])
    if kind in TOML_KINDS and inner and rng.random() < 0.6:
        src = rng.choice(inner)
        d = rng.choice(["linkcfg", "0linkcfg", "zz linkcfg", os.path.dirname(src) + "-twin"])
        if not any(p.startswith(d + "/") for p in taken):
            links.append((src, d + "/REUSE.toml"))
            extra[d + "/plain.dat"] = "no information here\n"
            extra[d + "/deep/plain2.dat"] = "no information here either\n"
    return links, extra


def make_links(root, links):
    for src, dst in links:
        full = os.path.join(root, dst)
        os.makedirs(os.path.dirname(full), exist_ok=True)
        os.link(os.path.join(root, src), full)


def _gen_tree_base(seed, kind):
    rng = random.Random("c14-tree:%s:%s" % (seed, kind))
    files = {}
    lic_used = ["MIT", "GPL-3.0-or-later", "Apache-2.0", "LicenseRef-custom"]
    for l in ["MIT", "GPL-3.0-or-later", "LicenseRef-custom", "CC0-1.0"]:  # CC0-1.0 may stay unused, Apache-2.0 missing
        files["LICENSES/%s.txt" % l] = LICENCE_TEXT + l + "\n"
    if rng.random() < 0.5:
        files["LICENSES/GPL-2.0.txt"] = LICENCE_TEXT  # deprecated id
    if rng.random() < 0.4:
        files["LICENSES/ISC"] = LICENCE_TEXT  # no extension
    if rng.random() < 0.4:
        files["LICENSES/nonsense.txt"] = LICENCE_TEXT  # bad
    dirs = ["", "src", "src/deep", "docs", "subprojects", "subprojects/x", "subprojects/x/y", "lib"]
    if kind == "subprojects-root":
        dirs += ["top", "top/in"]
    n = rng.randint(10, 18)
    for i in range(n):
        d = rng.choice(dirs)
        name = "%sf%d.%s" % (d + "/" if d else "", i, rng.choice(["py", "c", "html", "txt", "jl", "ml"]))
        shape = rng.random()
        lic = rng.choice(lic_used)
        t1 = rng.choice(TERMS)
        t2 = rng.choice(TERMS)
        if shape < 0.2:
            body = "# SPDX-FileCopyrightText: 2020 Jane Doe\n# SPDX-License-Identifier: %s\n\ncode\n" % lic
        elif shape < 0.35:
            body = "/* SPDX-FileCopyrightText: 2020 Jane Doe %s\n * SPDX-License-Identifier: %s %s\n */\ncode\n" % (t1, lic, t1)
        elif shape < 0.6:
            # stacked terminators: the order-sensitive shape
            body = "SPDX-FileCopyrightText: 2021 Joe %s%s\nSPDX-License-Identifier: %s %s%s\n" % (t2, t1, lic, t1, t2)
        elif shape < 0.7:
            body = ("# SPDX-FileCopyrightText: 2020 Jane Doe\n# SPDX-FileCopyrightText: 2019 Alpha Ltd\n"
                    "# SPDX-License-Identifier: MIT\n# SPDX-License-Identifier: GPL-3.0-or-later OR Apache-2.0\n"
                    "# SPDX-License-Identifier: %s AND MIT\n" % lic)
        elif shape < 0.78:
            body = "no information here\n"
        elif shape < 0.84:
            body = "# SPDX-FileCopyrightText: 2020 Jane Doe\n# SPDX-License-Identifier: MIT AND\n"  # unparseable
        elif shape < 0.92:
            body = b"\x89PNG\r\n\x1a\n\x00\x00\x00binary" + bytes([i])
            files[name + ".license"] = "SPDX-FileCopyrightText: 2022 Sidecar %s\nSPDX-License-Identifier: %s\n" % (t1, lic)
        else:
            body = "# SPDX-FileCopyrightText: 2020 Jane Doe\n# SPDX-License-Identifier: GPL-2.0+\n"  # plus form
        files[name] = body
    if kind == "toml-partial":
        # closest tables that supply only one half each, so that the other half has to come from an outer table: any state
        # shared between look-ups would make the answer for one file depend on which files were handled before it
        files["REUSE.toml"] = (
            'version = 1\n\n[[annotations]]\npath = "**/*.txt"\nprecedence = "closest"\n'
            'SPDX-FileCopyrightText = "2000 Root Toml"\nSPDX-License-Identifier = "CC0-1.0"\n')
        files["top.txt"] = "text\n"
        for d in ["src", "src/deep", "docs", "lib"]:
            files.setdefault(d + "/keep.txt", "text\n")
            half = rng.choice(["cpr", "lic", "both", "none"])
            if half == "none":
                continue
            files[d + "/REUSE.toml"] = (
                'version = 1\n\n[[annotations]]\npath = "**"\nprecedence = "closest"\n%s%s'
                % ('SPDX-FileCopyrightText = "2010 Inner %s"\n' % d.replace("/", " ") if half in ("cpr", "both") else "",
                   'SPDX-License-Identifier = "%s"\n' % rng.choice(["MIT", "GPL-3.0-or-later"]) if half in ("lic", "both") else ""))
    if kind in ("toml", "subprojects-root", "git", "git-submodule"):
        files["REUSE.toml"] = (
            'version = 1\n\n[[annotations]]\npath = "**/*.txt"\nprecedence = "%s"\n'
            'SPDX-FileCopyrightText = "2000 Root Toml"\nSPDX-License-Identifier = "CC0-1.0"\n\n'
            '[[annotations]]\npath = ["docs/**", "lib/*.ml"]\nprecedence = "%s"\n'
            'SPDX-FileCopyrightText = ["2001 Docs", "2002 Docs Two"]\nSPDX-License-Identifier = "MIT OR Apache-2.0"\n'
            % (rng.choice(["closest", "aggregate", "override"]), rng.choice(["closest", "aggregate", "override"])))
        for d in rng.sample(["src", "src/deep", "docs", "lib"], rng.randint(1, 3)):
            files[d + "/REUSE.toml"] = (
                'version = 1\n\n[[annotations]]\npath = "**"\nprecedence = "%s"\n'
                'SPDX-FileCopyrightText = "2010 Inner %s"\nSPDX-License-Identifier = "%s"\n'
                % (rng.choice(["closest", "aggregate", "override"]), d.replace("/", " "), rng.choice(["MIT", "GPL-3.0-or-later"])))
            files.setdefault(d + "/keep.txt", "text\n")
    elif kind == "dep5":
        files[".reuse/dep5"] = (
            "Format: https://www.debian.org/doc/packaging-manuals/copyright-format/1.0/\n"
            "Upstream-Name: x\nUpstream-Contact: y\nSource: z\n\n"
            "Files: docs/*\nCopyright: 2003 Dep Five\nLicense: MIT\n\n"
            "Files: *.txt src/*.txt\nCopyright: 2004 Dep Txt\nLicense: CC0-1.0\n")
        files.setdefault("docs/readme.txt", "text\n")
    root_name = "subprojects" if kind == "subprojects-root" else "proj"
    return root_name, files


def gen_submodules(seed):
    """-> [(path of the submodule relative to the root, how it is made: "gitfile" | "nested-repo", {relative path: content})]:
    one to three Git submodules (top level, nested below a directory of the project, below another submodule's parent), each with
    files that change the verdict when they are counted (no information, an own licence, an own LICENSES/ and REUSE.toml)."""
    rng = random.Random("c14-submodules:%s" % seed)
    places = rng.sample(["mod", "vendor/lib", "src/third_party", "lib/ext/deep", "docs/theme"], rng.randint(1, 3))
    subs = []
    for i, place in enumerate(places):
        files = {"nolicence_%d.c" % i: "int x;\n",
                 "own_%d.py" % i: "# SPDX-FileCopyrightText: 2015 Submodule Author %d\n# SPDX-License-Identifier: BSD-3-Clause\n" % i}
        if rng.random() < 0.5:
            files["LICENSES/BSD-3-Clause.txt"] = LICENCE_TEXT
        if rng.random() < 0.5:
            files["REUSE.toml"] = ('version = 1\n\n[[annotations]]\npath = "**"\nprecedence = "override"\n'
                                   'SPDX-FileCopyrightText = "2016 Submodule Toml"\nSPDX-License-Identifier = "ISC"\n')
        if rng.random() < 0.5:
            files["deep/er/data_%d.txt" % i] = "text\n"
        subs.append((place, rng.choice(["gitfile", "nested-repo"]), files))
    return subs


# --------------------------------------------------------------------------
# special files: what os.walk lists among the files of a directory but is no regular file


def gen_specials(seed, kind, files):
    """-> [(relative path, "fifo" | "socket" | "chardev", covered?)]: one to three special files next to the files of the tree
    (the first always in the root or in src/, so that at least one is a covered file; now and then one below subprojects/x/,
    which is not covered).  Nothing ever opens them: the tool reports a covered one as a read error without touching it."""
    rng = random.Random("c14-specials:%s:%s" % (seed, kind))
    dirs = sorted({os.path.dirname(p) for p in files if not p.startswith(("LICENSES/", ".reuse/"))} | {"", "src"})
    inside = [d for d in dirs if "subprojects" not in d.split("/")[:-1]]
    names = ["control.fifo", "run.sock", "pipe", "named pipe.py", "null.dev", "\u00fc.fifo", "events", "x.c"]
    out, seen = [], set()
    for i in range(rng.randint(1, 3)):
        d = rng.choice(["", "src"]) if i == 0 else rng.choice(inside + inside + dirs)
        p = (d + "/" if d else "") + rng.choice(names)
        if p in seen or p in files:
            continue
        seen.add(p)
        out.append((p, rng.choice(["fifo", "fifo", "socket", "chardev"]), d in inside))
    return out


def make_special(root, rel, what):
    """create the special file; -> what was made (a character device needs privileges the sandbox may lack: then a FIFO)"""
    import socket
    import stat
    full = os.path.join(root, rel)
    os.makedirs(os.path.dirname(full), exist_ok=True)
    if what == "chardev":
        try:
            os.mknod(full, 0o600 | stat.S_IFCHR, os.makedev(1, 3))
            return what
        except OSError:
            what = "fifo"
    if what == "socket":
        old = os.getcwd()
        os.chdir(os.path.dirname(full))          # the address of a UNIX socket is limited to about a hundred bytes
        try:
            sk = socket.socket(socket.AF_UNIX)
            try:
                sk.bind(os.path.basename(full))
            finally:
                sk.close()
            return what
        except OSError:
            what = "fifo"
        finally:
            os.chdir(old)
    os.mkfifo(full)
    return what


# --------------------------------------------------------------------------
# normaliser


def _norm_path(s, cwd, realroot, root_relative=False):
    """The project-relative path of the file a printed path denotes (printed paths are relative to the
    working directory of the run, or to the root for LICENSES/ entries)."""
    cands = [realroot] if root_relative else [cwd, realroot]
    for base in cands:
        p = os.path.realpath(os.path.join(base, s))
        if (p == realroot or p.startswith(realroot + os.sep)) and (os.path.lexists(p) or base is cands[-1]):
            return os.path.relpath(p, realroot)
    return "RAW:" + s


def norm_lint(out, cwd, realroot):
    try:
        start = 0 if out.startswith("{") else out.index("\n{\n") + 1
        d = json.loads(out[start:])
    except Exception:
        return {"unparsed": out.strip()[-300:]}
    d.pop("reuse_tool_version", None)
    nc = d.get("non_compliant", {})
    P = lambda s: _norm_path(s, cwd, realroot)
    for k in ("missing_copyright_info", "missing_licensing_info", "read_errors"):
        nc[k] = sorted(P(x) for x in nc.get(k, []))
    for k in ("unused_licenses", "deprecated_licenses"):
        nc[k] = sorted(nc.get(k, []))
    for k in ("missing_licenses", "bad_licenses"):
        nc[k] = {i: sorted(P(x) for x in v) for i, v in sorted(nc.get(k, {}).items())}
    nc["licenses_without_extension"] = {i: _norm_path(v, cwd, realroot, True)
                                        for i, v in sorted(nc.get("licenses_without_extension", {}).items())}
    files = []
    for f in d.get("files", []):
        files.append({"path": f["path"],
                      "copyrights": sorted(json.dumps(x, sort_keys=True) for x in f["copyrights"]),
                      "spdx_expressions": sorted(json.dumps(x, sort_keys=True) for x in f["spdx_expressions"])})
    d["files"] = sorted(files, key=lambda f: f["path"])
    d["summary"]["used_licenses"] = sorted(d["summary"].get("used_licenses", []))
    d["recommendations"] = sorted(d.get("recommendations", []))
    return d


def norm_spdx(out):
    blocks = []
    for b in out.strip().split("\n\n"):
        lines = [l for l in b.split("\n")
                 if not l.startswith(("DocumentNamespace:", "Created:", "Creator: Tool:"))]
        blocks.append(sorted(lines))
    return sorted(blocks)


def norm_all(raw, cwd, realroot):
    return {
        "lint_exit": raw["lint"][0], "lint": norm_lint(raw["lint"][1], cwd, realroot),
        "spdx_exit": raw["spdx"][0], "spdx": norm_spdx(raw["spdx"][1]),
        "spdxc_exit": raw["spdxc"][0], "spdxc": norm_spdx(raw["spdxc"][1]),
        "tracebacks": [raw[k][2] for k in ("lint", "spdx", "spdxc") if raw[k][2]],
    }


# --------------------------------------------------------------------------
# running the three commands in this process


def run_three(cwd, root_arg, flags=()):
    """-> {"lint": (exit, stdout, exc-name|None), "spdx": …, "spdxc": …}"""
    sys.path.insert(0, os.path.dirname(HERE))
    import cli
    pre = list(flags) + (["--root", root_arg] if root_arg not in (None, "-") else [])
    res = {}
    for key, args in (("lint", ["lint", "--json"]), ("spdx", ["spdx"]),
                      ("spdxc", ["spdx", "--add-license-concluded", "--creator-person", "Jane"])):
        code, out, exc = _run_cli(pre + args, cwd)
        res[key] = (code, out, type(exc).__name__ + ": " + str(exc)[:200] if exc is not None else None)
    return res


def _run_cli(args, cwd):
    """like cli.run_cli, but returns the standard output stream only (log lines go to stderr)"""
    import warnings
    import cli
    from click.testing import CliRunner
    from reuse.cli.main import main
    with cli.chdir(cwd):
        try:
            runner = CliRunner(mix_stderr=False)
        except TypeError:
            runner = CliRunner()
        with warnings.catch_warnings():
            warnings.simplefilter("ignore")
            res = runner.invoke(main, list(args), catch_exceptions=True)
    exc = res.exception
    if isinstance(exc, SystemExit):
        exc = None
    try:
        out = res.stdout
    except Exception:
        out = res.output
    return res.exit_code, out, exc


def child_main(argv):
    import logging
    logging.disable(logging.CRITICAL)
    cwd, root_arg, flags = argv[0], argv[1], [f for f in argv[2:] if f]
    json.dump(run_three(cwd, root_arg, flags), sys.stdout)


def spawn_seed(cwd, root_arg, flags, hashseed):
    env = dict(os.environ)
    env["PYTHONHASHSEED"] = str(hashseed)
    return subprocess.Popen([PY, os.path.abspath(__file__), cwd, root_arg or "-"] + list(flags),
                            stdout=subprocess.PIPE, stderr=subprocess.DEVNULL, env=env, cwd=cwd, start_new_session=True)


def spawn_cli(cwd, args, hashseed):
    """the genuine entry point: python -m reuse …"""
    env = dict(os.environ)
    env["PYTHONHASHSEED"] = str(hashseed)
    return subprocess.Popen([PY, "-m", "reuse"] + list(args), stdout=subprocess.PIPE, stderr=subprocess.DEVNULL, env=env, cwd=cwd,
                            start_new_session=True)


def collect(proc, deadline):
    """the standard output of a child started by spawn_seed / spawn_cli, or None when it has not finished by `deadline`
    (time.time() value): then its whole process group — the child runs in a session of its own — is killed"""
    import signal
    import time
    try:
        return proc.communicate(timeout=max(deadline - time.time(), 1.0))[0]
    except subprocess.TimeoutExpired:
        try:
            os.killpg(proc.pid, signal.SIGKILL)
        except OSError:
            pass
        try:
            proc.communicate(timeout=10)
        except Exception:
            pass
        return None


def no_result(limit):
    """what a run that was killed after `limit` seconds counts as: an outcome like any other, compared with the other runs"""
    msg = "no result after %d s (process group killed)" % limit
    return {k: (msg, "", None) for k in ("lint", "spdx", "spdxc")}


def run_three_bounded(cwd, root_arg, flags, limit):
    """run_three in a forked child of this process with a time limit (seconds) -> (raw result, timed out?)"""
    sys.path.insert(0, os.path.dirname(HERE))
    import cli
    out = cli.run_bounded(lambda: json.dumps(run_three(cwd, root_arg, flags)), limit)
    if out.startswith("timeout:"):
        return no_result(limit), True
    if out.startswith("EXC"):
        return {k: (99, "", out[:200]) for k in ("lint", "spdx", "spdxc")}, False
    return json.loads(out), False


if __name__ == "__main__":
    child_main(sys.argv[1:])
