"""C13 — every lint output format and lint-file tell the same story as the exit status."""
import json
import os
import re

import cli
from core import Property, Stream, dec_list, enc_list
import reports_common as rc
from se2e import LintFileE2EStream

JCATS = ("bad", "deprecated", "noext", "missing", "unused", "readerr", "nocop", "nolic")
PCATS = ("bad", "deprecated", "noext", "missing", "unused", "readerr", "noboth", "nocoponly", "noliconly")
LCATS = JCATS
FCATS = ("missing", "readerr", "nolic", "nocop")
ALLCATS = ("bad", "deprecated", "noext", "missing", "unused", "readerr", "nocop", "nolic", "noboth", "nocoponly", "noliconly")


def empty(cats=ALLCATS):
    return {c: [] for c in cats}


# ---- parsers of the real outputs (format-specific, written from src/reuse/lint.py's documented layout)

PLAIN_SECTIONS = {
    "BAD LICENSES": "bad", "DEPRECATED LICENSES": "deprecated", "LICENSES WITHOUT FILE EXTENSION": "noext",
    "MISSING LICENSES": "missing", "UNUSED LICENSES": "unused", "READ ERRORS": "readerr",
    "MISSING COPYRIGHT AND LICENSING INFORMATION": "percopy",
}
PLAIN_SUB = {
    "The following files have no copyright and licensing information:": "noboth",
    "The following files have no copyright information:": "nocoponly",
    "The following files have no licensing information:": "noliconly",
}


def parse_plain(root, text):
    out = empty()
    sec = None
    sub = None
    cur = None
    for line in text.split("\n"):
        if line.startswith("# "):
            title = line[2:].strip()
            if title in ("SUMMARY", "RECOMMENDATIONS"):
                break
            sec = PLAIN_SECTIONS.get(title, "?" + title)
            sub = cur = None
            continue
        if sec is None or not line.strip():
            continue
        if sec in ("bad", "missing"):
            m = re.match(r"^'(.*)' found in:$", line)
            if m:
                cur = m.group(1)
            elif line.startswith("* ") and cur is not None:
                out[sec].append([cur, rc.rel(root, line[2:])])
            else:
                out.setdefault("unparsed", []).append(line)
        elif sec == "percopy":
            if line in PLAIN_SUB:
                sub = PLAIN_SUB[line]
            elif line.startswith("* ") and sub:
                out[sub].append([rc.rel(root, line[2:]), ""])
            else:
                out.setdefault("unparsed", []).append(line)
        elif sec in ("deprecated", "noext", "unused", "readerr"):
            if line.startswith("* "):
                v = line[2:]
                out[sec].append([rc.rel(root, v) if sec == "readerr" else v, ""])
            elif not line.endswith(":"):
                out.setdefault("unparsed", []).append(line)
        else:
            out.setdefault("unparsed", []).append(line)
    return {k: sorted(v) for k, v in out.items()}


LINE_FORMS = [
    (re.compile(r"^(.*): bad license (\S+)$"), "bad", True),
    (re.compile(r"^(.*): missing license (\S+)$"), "missing", True),
    (re.compile(r"^(.*): deprecated license$"), "deprecated", False),
    (re.compile(r"^(.*): license without file extension$"), "noext", False),
    (re.compile(r"^(.*): unused license$"), "unused", False),
    (re.compile(r"^(.*): read error$"), "readerr", False),
    (re.compile(r"^(.*): no license identifier$"), "nolic", False),
    (re.compile(r"^(.*): no copyright notice$"), "nocop", False),
]


def parse_lines(root, text):
    out = empty()
    for line in text.split("\n"):
        if not line:
            continue
        for rx, cat, two in LINE_FORMS:
            m = rx.match(line)
            if m:
                out[cat].append([m.group(2), rc.rel(root, m.group(1))] if two else [rc.rel(root, m.group(1)), ""])
                break
        else:
            out.setdefault("unparsed", []).append(line)
    return {k: sorted(v) for k, v in out.items()}


def parse_json(root, text):
    rep, _ = json.JSONDecoder().raw_decode(text[text.index("{"):])
    nc = rep["non_compliant"]
    out = empty()
    out["missing"] = [[i, rc.rel(root, p)] for i, ps in nc["missing_licenses"].items() for p in ps]
    out["bad"] = [[i, rc.rel(root, p)] for i, ps in nc["bad_licenses"].items() for p in ps]
    out["noext"] = [[i, rc.rel(root, p)] for i, p in nc["licenses_without_extension"].items()]
    out["unused"] = [[i, ""] for i in nc["unused_licenses"]]
    out["deprecated"] = [[i, ""] for i in nc["deprecated_licenses"]]
    out["readerr"] = [[rc.rel(root, p), ""] for p in nc["read_errors"]]
    out["nocop"] = [[rc.rel(root, p), ""] for p in nc["missing_copyright_info"]]
    out["nolic"] = [[rc.rel(root, p), ""] for p in nc["missing_licensing_info"]]
    s = rep["summary"]
    summ = {"files": sorted(f["path"] for f in rep["files"]), "total": s["files_total"], "cop": s["files_with_copyright_info"],
            "lic": s["files_with_licensing_info"], "compliant": s["compliant"], "used": sorted(s["used_licenses"])}
    # raw list lengths, for the counters (a duplicate inside a list would be visible here)
    summ["len"] = {"nocop": len(nc["missing_copyright_info"]), "nolic": len(nc["missing_licensing_info"]), "files": len(rep["files"])}
    return {k: sorted(v) for k, v in out.items()}, summ


def strip_warning(text):
    """CliRunner mixes the dep5 PendingDeprecationWarning (stderr) into the output"""
    return re.sub(r"/[^\s:]+\.py:\d+: PendingDeprecationWarning:[^\n]*\n  warnings\.warn\(\n", "", text)


# ---- model side

def parse_model(out, tags):
    d = {}
    for part in out.split("|"):
        k, v = part.split("=", 1)
        d[k] = v
    res = {}
    for t in tags:
        cats = empty()
        for c in ALLCATS:
            l = dec_list(d["%s.%s" % (t, c)])
            cats[c] = sorted({(l[i], l[i + 1]) for i in range(0, len(l), 2)})
            cats[c] = [list(x) for x in cats[c]]
        res[t] = cats
    return d, res


class FormatsStream(Stream):
    name = "formats"
    rule = ("the C01 tree generator (0-5 simultaneous defects of 20 kinds, names with spaces, colon, non-ASCII; REUSE.toml hierarchies / dep5 with wildcard paragraphs / Git): "
            "the real `reuse lint --json`, `--plain`, `--lines`, `--quiet` on one tree, each output parsed back by its own parser into "
            "(category, item) sets, compared with the model's four formatters fed from the generator's records; oracle = same exit status, "
            "same sets per category across formats (licence-level lines items mapped to LICENSES/ paths through the generator's records), "
            "silence when compliant, summary counters = sizes of the JSON's own lists; non-trivial = distinct outcomes")

    def cases(self, tier, rng):
        for i, c in enumerate(rc.tree_cases(tier, rng)):
            if tier == "quick" and i % 2:
                continue        # four command runs per tree: the quick tier takes half of the shared tree cases
            if rc.dup_free(c):
                yield c
        for c in rc.product_cases("quick", rng):
            if rc.dup_free(c) and c["cell"][3] in ("ID", "ID+.txt", "sub/ID.txt"):
                yield c

    def impl(self, case):
        with cli.scratch("rv-c13-") as root:
            rc.build_tree(root, case)
            res = {"exit": []}
            for fmt in ("--json", "--plain", "--lines", "--quiet"):
                code, out, exc = cli.run_cli(["--no-multiprocessing", "lint", fmt], root)
                if exc is not None:
                    return "EXC:%s:%s" % (type(exc).__name__, str(exc)[:100])
                out = strip_warning(out)
                res["exit"].append(code)
                if fmt == "--json":
                    res["J"], res["S"] = parse_json(root, out)
                elif fmt == "--plain":
                    res["P"] = parse_plain(root, out)
                elif fmt == "--lines":
                    res["L"] = parse_lines(root, out)
                else:
                    res["Q"] = empty() if out == "" else {"unparsed": [out[:80]]}
            return json.dumps(res, sort_keys=True)

    def model_lines(self, case):
        return ["lint\t" + "\t".join(rc.model_fields(case))]

    def model_out(self, case, outs):
        if outs[0].startswith("error"):
            return "EXC:RuntimeError"
        d, res = parse_model(outs[0], ("J", "P", "L", "Q"))
        res["exit"] = [int(x) for x in d["exit"].split(",")]
        files = dec_list(d["S.files"])
        res["S"] = {"files": sorted(files), "total": int(d["S.total"]), "cop": int(d["S.cop"]), "lic": int(d["S.lic"]),
                    "compliant": d["S.compliant"] == "1", "used": sorted(set(dec_list(d["S.used"]))),
                    "len": {"files": len(files), "nocop": len(res["J"]["nocop"]), "nolic": len(res["J"]["nolic"])}}
        return json.dumps(res, sort_keys=True)

    def oracle(self, case, impl_out):
        if impl_out.startswith("EXC"):
            return "crash: " + impl_out
        r = json.loads(impl_out)
        for t in ("J", "P", "L", "Q"):
            if r[t].get("unparsed"):
                return "unparsed-output: %s %r" % (t, r[t]["unparsed"][:2])
        if len(set(r["exit"])) != 1:
            return "exit-differs: json/plain/lines/quiet exit %s" % r["exit"]
        e = r["exit"][0]
        J, P, L, S = r["J"], r["P"], r["L"], r["S"]
        anyj = any(J[c] for c in JCATS)
        if (e != 0) != anyj:
            return "exit-vs-lists: exit %d with %s JSON lists" % (e, "non-empty" if anyj else "empty")
        if any(r["Q"][c] for c in ALLCATS):
            return "quiet-not-silent:"
        if e == 0:
            if any(P[c] for c in ALLCATS) or any(L[c] for c in ALLCATS):
                return "compliant-but-named: plain/lines name offenders of a compliant project"
        else:
            # plain vs json
            pn = dict(P)
            pn["nocop"] = sorted(P["noboth"] + P["nocoponly"])
            pn["nolic"] = sorted(P["noboth"] + P["noliconly"])
            for c in JCATS:
                want = sorted([[i, ""] for i, p in J[c]]) if c == "noext" else J[c]
                if pn[c] != want:
                    return "plain-differs: %s: plain %s json %s" % (c, pn[c][:4], want[:4])
            if set(map(tuple, P["noboth"])) != set(map(tuple, J["nocop"])) & set(map(tuple, J["nolic"])):
                return "plain-differs: files without both"
            # lines vs json; licence-level items name the LICENSES/ entry (generator's records)
            prov = {}
            for n in case["lic"]:
                last = n.rsplit("/", 1)[-1]
                if last.endswith(".license") and last != ".license":
                    continue
                prov["LICENSES/" + n] = True
            for c in JCATS:
                if c in ("deprecated", "unused", "noext"):
                    if len(L[c]) != len(J[c]) or any(p not in prov for p, _ in L[c]):
                        return "lines-differs: %s: lines %s json %s" % (c, L[c][:4], J[c][:4])
                    if c == "noext" and sorted(p for p, _ in L[c]) != sorted(p for _, p in J[c]):
                        return "lines-differs: noext paths: lines %s json %s" % (L[c][:4], J[c][:4])
                elif L[c] != J[c]:
                    return "lines-differs: %s: lines %s json %s" % (c, L[c][:4], J[c][:4])
        # counters against the JSON's own lists
        if S["total"] != S["len"]["files"]:
            return "counter: files_total %d but %d file records" % (S["total"], S["len"]["files"])
        if S["cop"] != S["total"] - S["len"]["nocop"] or S["lic"] != S["total"] - S["len"]["nolic"]:
            return "counter: with_copyright %d / with_licensing %d of %d vs lists of %d / %d" % (
                S["cop"], S["lic"], S["total"], S["len"]["nocop"], S["len"]["nolic"])
        if S["compliant"] != (not anyj):
            return "counter: summary.compliant=%s with %s lists" % (S["compliant"], "non-empty" if anyj else "empty")
        return None

    def nontrivial(self, case, impl_out):
        return None if impl_out.startswith("EXC") else impl_out


def selectors(rng, case):
    """F: covered files (relative, absolute, ./-prefixed, repeated), non-covered files, directories"""
    cov = [f["p"] for f in case["files"]]
    if case.get("git"):
        cov.append(".gitignore")
    non = ["LICENSES/" + n for n in case["lic"]] + [x["p"] for x in case.get("extra", []) if x["k"] in ("plain", "empty", "gitignored")]
    non += [f["p"] + ".license" for f in case["files"] if f["how"] == "dotlicense"]
    # the global licensing files themselves: REUSE.toml (excluded by name, at any depth), .reuse/dep5 (excluded through its directory)
    non += {"toml": ["REUSE.toml"], "dep5": [".reuse/dep5"]}.get(case["glob"], [])
    non += [(t["dir"] + "/" if t["dir"] else "") + "REUSE.toml" for t in case.get("tomls", [])]
    dirs = sorted({os.path.dirname(p) for p in cov if os.path.dirname(p)}) + ["LICENSES"] + [x["p"] for x in case.get("extra", []) if x["k"] == "dir"]
    if not case["lic"]:
        dirs.remove("LICENSES")
    shape = rng.choice(["all", "none", "one", "some", "some", "some+non", "some+dirs", "only-non", "dups"])
    pick = []
    if shape == "all":
        pick = list(cov)
    elif shape == "one":
        pick = [rng.choice(cov)]
    elif shape in ("some", "some+non", "some+dirs", "dups"):
        pick = rng.sample(cov, rng.randint(1, len(cov)))
    if shape in ("some+non", "only-non") and non:
        pick += rng.sample(non, min(len(non), rng.randint(1, 3)))
    if shape == "some+dirs" and dirs:
        pick += rng.sample(dirs, min(len(dirs), rng.randint(1, 2)))
    if shape == "dups":
        pick += pick[:2]
    sel = [{"p": p, "form": rng.choice(["rel", "rel", "abs", "dot"])} for p in pick]
    rng.shuffle(sel)
    return sel


class LintFileStream(Stream):
    name = "lintfile"
    rule = ("the same trees; F drawn from: all / none / one / some covered files, plus non-covered files (LICENSES/ entries, LICENSE, empty "
            "files, symlinks, git-ignored files, .license siblings), directories, repetitions; each given relative to the working "
            "directory, ./-prefixed, absolute, or (with --root) relative to a sub-directory used as working directory; real `reuse "
            "lint-file F…` and `reuse lint --lines` on one tree vs the model; oracle = lint-file's lines are exactly lint's per-file "
            "lines for the covered files among F, exit 1 iff any")

    def cases(self, tier, rng):
        for c in rc.tree_cases(tier, rng):
            if rc.dup_free(c):
                c = dict(c)
                c["F"] = selectors(rng, c)
                c["cwd"] = rng.choice(["", "", "", "sub"])
                yield c

    def named(self, case):
        return sorted({s["p"] for s in case["F"]})

    def impl(self, case):
        with cli.scratch("rv-c13f-") as root:
            rc.build_tree(root, case)
            code, out, exc = cli.run_cli(["--no-multiprocessing", "lint", "--lines"], root)
            if exc is not None:
                return "EXC:lint:%s" % type(exc).__name__
            L = parse_lines(root, strip_warning(out))
            cwd = root
            pre = ["--no-multiprocessing"]
            if case.get("cwd"):
                cwd = os.path.join(root, "cwd-dir")
                os.makedirs(cwd)  # an empty directory is not a covered file
                pre += ["--root", root]
            args = []
            for s in case["F"]:
                full = os.path.join(root, s["p"])
                if s["form"] == "abs":
                    args.append(full)
                elif s["form"] == "dot" and cwd == root:
                    args.append("./" + s["p"])
                else:
                    args.append(os.path.relpath(full, cwd))
            code2, out2, exc2 = cli.run_cli(pre + ["lint-file"] + args, cwd)
            if exc2 is not None:
                return "EXC:lint-file:%s:%s" % (type(exc2).__name__, str(exc2)[:80])
            F = parse_lines(root, strip_warning(out2))
            res = {"exit": code2, "F": {c: F[c] for c in ALLCATS}, "L": {c: L[c] for c in FCATS}, "lexit": code}
            if F.get("unparsed"):
                res["unparsed"] = F["unparsed"][:2]
            return json.dumps(res, sort_keys=True)

    def model_lines(self, case):
        fields = rc.model_fields(case)
        return ["lintfile\t%s\t%s\t%s" % (fields[0], enc_list(self.named(case)), "\t".join(fields[1:])),
                "lint\t" + "\t".join(fields)]

    def model_out(self, case, outs):
        if outs[0].startswith("error"):
            return "EXC:RuntimeError"
        d, res = parse_model(outs[0], ("F",))
        d2, res2 = parse_model(outs[1], ("L",))
        return json.dumps({"exit": int(d["exit"]), "F": res["F"], "L": {c: res2["L"][c] for c in FCATS},
                           "lexit": int(d2["exit"].split(",")[2])}, sort_keys=True)

    def oracle(self, case, impl_out):
        if impl_out.startswith("EXC"):
            return "crash: " + impl_out
        r = json.loads(impl_out)
        if r.get("unparsed"):
            return "unparsed-output: %r" % r["unparsed"]
        named = set(self.named(case))
        for c in ALLCATS:
            got = r["F"][c]
            if c not in FCATS:
                if got:
                    return "lint-file-other-category: %s %s" % (c, got[:3])
                continue
            want = [x for x in r["L"][c] if (x[1] if c == "missing" else x[0]) in named]
            if got != want:
                extra = [x for x in got if x not in want]
                if extra and all((x[1] if c == "missing" else x[0]) not in named for x in extra):
                    return "lint-file-reports-unnamed-file: %s: %s is not among F=%s" % (c, extra[:3], sorted(named)[:6])
                return "lint-file-differs: %s: lint-file %s, lint restricted to F %s" % (c, got[:4], want[:4])
        anyf = any(r["F"][c] for c in FCATS)
        if (r["exit"] == 1) != anyf or r["exit"] not in (0, 1):
            return "lint-file-exit: exit %d with %s output" % (r["exit"], "some" if anyf else "no")
        return None

    def nontrivial(self, case, impl_out):
        return None if impl_out.startswith("EXC") else impl_out


class LintFileMonoStream(LintFileStream):
    """C13_lint_file_mono on the real tool: for one tree, F a sub-list of F', every line `reuse lint-file F` prints is printed by
    `reuse lint-file F'`, and the exit status can only go from 0 to 1."""
    name = "lintfile-mono"
    rule = ("the same trees; F' drawn as in `lintfile`, F a random sub-list of F'; real `reuse lint-file F` and `reuse lint-file F'` on one "
            "tree; oracle = lines(F) is a subset of lines(F') per category and exit(F) <= exit(F'); the model is asked both and must "
            "agree with both; non-trivial = F' prints something F does not")

    def cases(self, tier, rng):
        n = 0
        for c in rc.tree_cases(tier, rng):
            if not rc.dup_free(c):
                continue
            n += 1
            if tier != "thorough" and n % 3:
                continue
            c = dict(c)
            big = selectors(rng, c)
            c["F2"] = big
            c["F"] = [s for s in big if rng.random() < 0.5]
            c["cwd"] = ""
            yield c

    def _run(self, root, sel):
        args = []
        for s in sel:
            full = os.path.join(root, s["p"])
            args.append(full if s["form"] == "abs" else ("./" + s["p"] if s["form"] == "dot" else s["p"]))
        code, out, exc = cli.run_cli(["--no-multiprocessing", "lint-file"] + args, root)
        if exc is not None:
            return None, "EXC:lint-file:%s:%s" % (type(exc).__name__, str(exc)[:80])
        F = parse_lines(root, strip_warning(out))
        return {"exit": code, "F": {c: F[c] for c in ALLCATS}}, None

    def impl(self, case):
        with cli.scratch("rv-c13m-") as root:
            rc.build_tree(root, case)
            a, err = self._run(root, case["F"])
            if err:
                return err
            b, err = self._run(root, case["F2"])
            if err:
                return err
            return json.dumps({"a": a, "b": b}, sort_keys=True)

    def model_lines(self, case):
        fields = rc.model_fields(case)
        return ["lintfile\t%s\t%s\t%s" % (fields[0], enc_list(sorted({s["p"] for s in case[k]})), "\t".join(fields[1:])) for k in ("F", "F2")]

    def model_out(self, case, outs):
        if outs[0].startswith("error") or outs[1].startswith("error"):
            return "EXC:RuntimeError"
        res = {}
        for k, o in zip(("a", "b"), outs):
            d, r = parse_model(o, ("F",))
            res[k] = {"exit": int(d["exit"]), "F": r["F"]}
        return json.dumps(res, sort_keys=True)

    def agree(self, case, impl_out, model_out):
        if impl_out.startswith("EXC") or model_out.startswith("EXC"):
            return impl_out.split(":")[0] == model_out.split(":")[0]
        i, m = json.loads(impl_out), json.loads(model_out)
        return all(i[k]["exit"] == m[k]["exit"] and all(sorted(map(tuple, i[k]["F"][c])) == sorted(map(tuple, m[k]["F"].get(c, []))) for c in FCATS)
                   for k in ("a", "b"))

    def oracle(self, case, impl_out):
        if impl_out.startswith("EXC"):
            return "crash: " + impl_out
        r = json.loads(impl_out)
        for c in ALLCATS:
            lost = [x for x in r["a"]["F"][c] if x not in r["b"]["F"][c]]
            if lost:
                return "lint-file-not-monotone: %s: %s printed for F=%s but not for the larger F'=%s" % (
                    c, lost[:3], sorted({s["p"] for s in case["F"]})[:6], sorted({s["p"] for s in case["F2"]})[:8])
        if r["a"]["exit"] > r["b"]["exit"]:
            return "lint-file-not-monotone: exit %d for F, %d for the larger F'" % (r["a"]["exit"], r["b"]["exit"])
        return None

    def nontrivial(self, case, impl_out):
        if impl_out.startswith("EXC"):
            return None
        r = json.loads(impl_out)
        return impl_out if any(len(r["b"]["F"][c]) > len(r["a"]["F"][c]) for c in FCATS) else None


import c13t2      # noqa: E402  (needs the classes above)

PROPERTY = Property(
    pid="C13",
    streams=[FormatsStream(), LintFileStream(), LintFileMonoStream(), LintFileE2EStream()] + c13t2.STREAMS,
    table_roundtrip=rc.table_roundtrip,
    assumptions=[
        "stream lintfile-e2e: the composed model (Model/SpdxE2E.lean) receives the tree itself, the working directory and the FILE arguments "
        "as typed; it resolves them on the tree (`.`, `..`, existence, leaving the root), restricts the composed lint model's project to "
        "the covered files they denote, and applies the formatters to the composed report; symlinks as arguments or on the way to one "
        "are outside the model (read as dangling; the tool resolves them to their target)",
        "formatters are modelled as functions to (category, item) entries; wording, ordering, wrapping and the recommendations text are "
        "not compared; the harness parsers turn the real outputs into the same entries",
        "lint-file's path handling (relative / absolute / other working directory, click's existence check) is exercised end to end; the "
        "model receives the set of project-relative names that F denotes, from the generator's records",
        "read errors are provoked with a FIFO (the sandbox runs as root)",
        "translations are not exercised (English catalogue)",
    ],
)
