"""C20, two more regions of the input space.

(1) Holders whose last characters mirror what opens the comment line.  For every comment style of the tool's table (the table
    is read from the live code: every `--style` name, its single-line prefix and the middle of its multi-line form) the holder
    ends in the reversed prefix of the very style the notice is written in — `c … Example Systems Inc`, `! … Yahoo!`,
    `# … Team C#`, `% … 100%`, `; … Jane;`, `-- … Dash--`, ` * … Star*`, `dnl … Randl` `REM … Summer` — glued to the name or set
    off by a blank, also the prefix unreversed, twice, and only its last character.
    `frame-cli`  — `reuse annotate --style S --copyright HOLDER …` (single- and multi-line) then `reuse lint --json`
    `frame-hand` — headers written by hand (the style's prefix, indented, behind code, a boxed line) through extract_reuse_info
                   (compared with the Lean model), reuse_info_of_file and lint
    Oracle (generator ground truth, prefix texts from the manual): the file holds `PREFIX [YEAR ]HOLDER`, lint / the reader
    report exactly that notice, the reader splits it into that prefix, year and holder.  Only holders of the property's grammar
    (`wf_holder` of c20.py: e.g. not ending in a comment terminator such as `*/`) are generated.

(2) Several files in ONE `reuse annotate --merge-copyrights` invocation (paths on the command line in every order, or
    `--recursive` over a directory): files without a header before and after files with one, headers already naming the holder
    with other years, naming other holders, one or two `--copyright` options.
    `multimerge` — oracle: in EVERY file, every holder stated (in its old header or requested) is named on exactly one line
    whose years span every year stated for it in that file and requested; the command exits 0.
"""
import json
import re

from core import Stream, enc, dec_list
import cli
import c20 as base
from c20s11 import PREFIX_TEXT

NAMES_BASE = ["Example Systems In", "Eric Blan", "Yahoo", "Team C", "Jane Doe", "ACME GmbH", "Ünal Öz", "100", "R&D"]


def style_table():
    """[(style name, single-line prefix or None, multi-line (start, middle, end) or None)] from the live code"""
    from reuse.comment import NAME_STYLE_MAP
    out = []
    for name, cls in sorted(NAME_STYLE_MAP.items()):
        single = cls.SINGLE_LINE or None
        multi = None
        ml = getattr(cls, "MULTI_LINE", None)
        if ml is not None and ml.start and ml.end:
            multi = (ml.start, ml.middle, ml.end)
        if single or multi:
            out.append((name, single, multi))
    return out


def tails_for(lead):
    """what a holder may end in so that it mirrors the line's opening"""
    core = lead.strip()
    if not core:
        return []
    rev = core[::-1]
    return [t for t in dict.fromkeys([rev, core, rev + rev, rev[-1], rev[0], rev.lower(), rev.capitalize()]) if t]


def holders_for(lead, rng, k):
    out = []
    tails = tails_for(lead)
    for t in tails:
        for glue in ("", "", " ", "  "):
            h = rng.choice(NAMES_BASE) + glue + t
            if base.wf_holder(h):
                out.append(h)
    rng.shuffle(out)
    if tails:
        first = rng.choice(NAMES_BASE) + tails[0]           # the plain case first: the reversed prefix glued to the name
        if base.wf_holder(first):
            out.insert(0, first)
    seen, res = set(), []
    for h in out:
        if h not in seen:
            seen.add(h)
            res.append(h)
    return res[:k]


def want_notice(p, year, holder):
    return "%s %s%s" % (PREFIX_TEXT[p], (year + " ") if year else "", holder)


def reader_parts(notice):
    m = base.impl_search(notice)
    return None if m is None else (m.groupdict()["prefix"], m.groupdict()["year"], m.groupdict()["statement"])


class FrameCliStream(Stream):
    name = "frame-cli"
    rule = ("real `reuse annotate --style S --copyright HOLDER --copyright-prefix P [--year Y | --exclude-year] --license MIT [--multi-line]` "
            "then `reuse lint --json` (in-process CLI), projects of 8 files: S = every style name of the live table, HOLDER = a name ending "
            "in the reversed line prefix of S (single-line prefix; middle of the multi-line form with --multi-line) — glued to the name "
            "or after one / two blanks; also the prefix unreversed, doubled, its first / last character, other capitalisation — restricted "
            "to the property's holder grammar; P = the ten prefixes; oracle: the file holds `PREFIX [YEAR ]HOLDER`, lint reports exactly "
            "that one notice, the reader splits it into that prefix, year, holder; non-trivial = distinct (style, multi-line, tail kind)")

    def cases(self, tier, rng):
        table = style_table()
        files = []
        per = 8 if tier == "thorough" else 3
        for name, single, multi in table:
            forms = []
            if single:
                forms.append((False, single))
            if multi and multi[1].strip():
                forms.append((True, multi[1]))
            for ml, lead in forms:
                for h in holders_for(lead, rng, per):
                    files.append({"style": name, "ml": ml, "holder": h, "p": rng.choice(list(PREFIX_TEXT)),
                                  "year": rng.choice(["2020", "2020", "2017", None]), "lead": lead})
        rng.shuffle(files)
        for i in range(0, len(files), 8):
            chunk = files[i:i + 8]
            for j, f in enumerate(chunk):
                f["name"] = "d%d/f%d.txt" % (j % 3, j)
            yield {"files": chunk}

    def impl(self, case):
        tree = {"LICENSES/MIT.txt": "MIT\n"}
        for f in case["files"]:
            tree[f["name"]] = "payload\n"
        out = {"lint": {}, "rc": [], "text": {}}
        with cli.scratch("rv-c20f-") as root:
            cli.write_tree(root, tree)
            for f in case["files"]:
                argv = ["annotate", "--style", f["style"], "--copyright", f["holder"], "--copyright-prefix", f["p"], "--license", "MIT"]
                argv += ["--year", f["year"]] if f["year"] else ["--exclude-year"]
                if f["ml"]:
                    argv.append("--multi-line")
                code, o, exc = cli.run_cli(argv + [f["name"]], root)
                if exc is not None:
                    return "EXC:%s:%s" % (type(exc).__name__, str(exc)[:100])
                out["rc"].append([code, (o or "")[-200:] if code else ""])
            code, report, exc = cli.run_cli(["--no-multiprocessing", "lint", "--json"], root)
            try:
                js = json.loads(report[report.index("{"):])
            except Exception as e:      # noqa
                return "EXC:lint:%s:%s" % (exc, e)
            for entry in js["files"]:
                out["lint"][entry["path"]] = sorted(c["value"] for c in entry["copyrights"])
            snap = cli.snapshot(root)
            out["text"] = {k: v[1].decode("utf-8", "replace") for k, v in snap.items() if v[0] == "file" and not k.startswith("LICENSES")}
        return json.dumps(out, sort_keys=True)

    def oracle(self, case, impl_out):
        if impl_out.startswith("EXC"):
            return "cli-crash: " + impl_out
        out = json.loads(impl_out)
        for f, (rc, tail) in zip(case["files"], out["rc"]):
            want = want_notice(f["p"], f["year"], f["holder"])
            where = "style %s%s, line prefix %r" % (f["style"], " --multi-line" if f["ml"] else "", f["lead"])
            if rc != 0:
                return "annotate-failed: --copyright %r (%s): exit status %s: %s" % (f["holder"], where, rc, tail.strip()[-160:])
            text = out["text"].get(f["name"], "")
            if want not in text:
                return "build: --copyright %r (%s): the file should hold %r, it holds %r" % (f["holder"], where, want, text[:300])
            got = out["lint"].get(f["name"])
            if got != [want]:
                return "build-readback: holder %r was written as %r (%s); lint reads %r" % (f["holder"], want, where, got)
            parts = reader_parts(want)
            if parts != (PREFIX_TEXT[f["p"]], f["year"], f["holder"]):
                return "make-parse: built %r, reader sees %r" % (want, parts)
        return None

    def nontrivial(self, case, impl_out):
        if impl_out.startswith("EXC"):
            return None
        return tuple((f["style"], f["ml"], f["holder"].split(" ")[-1]) for f in case["files"])

    def show(self, case):
        return {"files": [{k: f[k] for k in ("name", "style", "ml", "holder", "p", "year")} for f in case["files"]]}


LEAD_WRAPS = ["%s ", "  %s ", "\t%s ", "x = 1  %s ", "%s", "%s   ", "|%s  "]


class FrameHandStream(Stream):
    name = "frame-hand"
    rule = ("headers written by hand: 1-4 notice lines `LEAD PREFIX [YEAR ]HOLDER`, LEAD = a line opening of the live style table (single-line "
            "prefix, middle of a multi-line form; plain, indented, behind code, without a blank, boxed) and each HOLDER ending in the mirror "
            "image of its line's LEAD (as in `frame-cli`), plus a licence tag: extract_reuse_info vs the Lean model vs the notices written "
            "(exactly those, each split by the reader into its prefix, year, holder); every fourth case also through reuse_info_of_file on a "
            "scratch file; non-trivial = distinct (lead, tails)")

    def cases(self, tier, rng):
        leads = []
        for name, single, multi in style_table():
            if single:
                leads.append(single)
            if multi and multi[1].strip():
                leads.append(multi[1])
        leads = sorted(set(l.strip() for l in leads if l.strip()))
        reps = 12 if tier == "thorough" else 2
        k = 0
        for lead in leads:
            for _ in range(reps):
                for wrap in (LEAD_WRAPS if tier == "thorough" else rng.sample(LEAD_WRAPS, 3)):
                    opening = wrap % lead
                    hs = holders_for(opening, rng, rng.randint(1, 4))
                    if not hs:
                        continue
                    lines = [{"p": rng.choice(list(PREFIX_TEXT)), "year": rng.choice(["2020", "2019-2021", "2018 - 2019", None]), "holder": h} for h in hs]
                    k += 1
                    yield {"opening": opening, "lines": lines, "file": k % 4 == 0}

    def text(self, case):
        o = case["opening"]
        return "".join("%s%s\n" % (o, want_notice(l["p"], l["year"], l["holder"])) for l in case["lines"]) + o + "SPDX-License-Identifier: MIT\n\npayload\n"

    def impl(self, case):
        import logging
        import os
        from reuse.extract import extract_reuse_info, reuse_info_of_file
        text = self.text(case)
        info = extract_reuse_info(text)
        res = {"C": sorted(info.copyright_lines)}
        if case["file"]:
            with cli.scratch("rv-c20h-") as root:
                path = os.path.join(root, "f.txt")
                with open(path, "w", encoding="utf-8", newline="") as fp:
                    fp.write(text)
                logging.disable(logging.CRITICAL)
                try:
                    res["F"] = sorted(reuse_info_of_file(path, path, root).copyright_lines)
                finally:
                    logging.disable(logging.NOTSET)
        return json.dumps(res, sort_keys=True)

    def model_lines(self, case):
        return ["extract\t" + enc(self.text(case))]

    def model_out(self, case, outs):
        parts = dict(p.split("=", 1) for p in outs[0].split("|"))
        return json.dumps({"C": sorted(set(dec_list(parts["C"])))}, sort_keys=True)

    def agree(self, case, impl_out, model_out):
        return json.loads(impl_out)["C"] == json.loads(model_out)["C"]

    def oracle(self, case, impl_out):
        if impl_out.startswith("EXC"):
            return "crash: " + impl_out
        res = json.loads(impl_out)
        want = sorted({want_notice(l["p"], l["year"], l["holder"]) for l in case["lines"]})
        for key, what in (("C", "extract_reuse_info"), ("F", "reuse_info_of_file")):
            if key in res and res[key] != want:
                odd = [(w, g) for w, g in zip(want, res[key]) if w != g][:1] if len(want) == len(res[key]) else []
                return "build-readback: %s reads %r where %r stands behind the line opening %r" % (
                    what, odd[0][1] if odd else res[key], odd[0][0] if odd else want, case["opening"])
        for l in case["lines"]:
            w = want_notice(l["p"], l["year"], l["holder"])
            if reader_parts(w) != (PREFIX_TEXT[l["p"]], l["year"], l["holder"]):
                return "make-parse: %r: reader sees %r" % (w, reader_parts(w))
        return None

    def nontrivial(self, case, impl_out):
        return (case["opening"], tuple(l["holder"].split(" ")[-1] for l in case["lines"]))

    def show(self, case):
        return {"text": self.text(case)}


HOLDERS = ["Jane Doe <jane@example.com>", "Example Corp", "Ünal Öz", "The Foo Authors", "A. N. Other"]
EXTS = [".py", ".c", ".html", ".sh", ".rs", ".tex"]


class MultiMergeStream(Stream):
    name = "multimerge"
    rule = ("ONE `reuse annotate --merge-copyrights -c H [-c H2] --year Y [--copyright-prefix P] -l MIT` over 2-6 files (six types; paths on "
            "the command line in a random order, or --recursive over their directory; one in four runs with --no-multiprocessing ahead): "
            "each file either has no header, or a header the tool wrote before (same holder with one / two other years, another holder, "
            "both), written by an earlier non-merging annotate; oracle: exit 0 and in EVERY file each holder stated there or requested is "
            "named on exactly one line whose years span every year stated for it in that file and the requested one (text of the file and "
            "`reuse lint --json`); non-trivial = distinct (kinds of the files in command-line order, number of holders, recursive)")
    KINDS = ["bare", "bare", "bare", "same", "same2", "other", "both"]

    def cases(self, tier, rng):
        for _ in range(400 if tier == "thorough" else 40):
            n = rng.randint(2, 6)
            hs = rng.sample(HOLDERS, 3)
            req = hs[:rng.choice([1, 1, 2])]
            files = []
            for i in range(n):
                kind = rng.choice(self.KINDS)
                old = []
                if kind in ("same", "same2", "both"):
                    old.append([req[0], rng.choice(["2016", "2012"])])
                if kind == "same2":
                    old.append([req[0], "2019"])
                if kind in ("other", "both"):
                    old.append([hs[2], "2014"])
                files.append({"name": "src/%s%d%s" % (rng.choice("abz"), i, rng.choice(EXTS)), "kind": kind, "old": old})
            if not any(f["kind"] == "bare" for f in files):
                files[rng.randrange(n)].update(kind="bare", old=[])
            order = list(range(n))
            rng.shuffle(order)
            yield {"files": files, "order": order, "req": req, "year": rng.choice(["2021", "2023", "2010"]), "p": rng.choice([None] + list(PREFIX_TEXT)),
                   "recursive": rng.random() < 0.3, "nomp": rng.random() < 0.25}

    def argv(self, case):
        argv = (["--no-multiprocessing"] if case["nomp"] else []) + ["annotate", "--merge-copyrights", "--year", case["year"], "--license", "MIT"]
        for h in case["req"]:
            argv += ["--copyright", h]
        if case["p"]:
            argv += ["--copyright-prefix", case["p"]]
        if case["recursive"]:
            return argv + ["--recursive", "src"]
        return argv + [case["files"][i]["name"] for i in case["order"]]

    def impl(self, case):
        tree = {"LICENSES/MIT.txt": "MIT\n"}
        for f in case["files"]:
            tree[f["name"]] = "payload\n"
        out = {}
        with cli.scratch("rv-c20m-") as root:
            cli.write_tree(root, tree)
            for f in case["files"]:
                for h, y in f["old"]:
                    code, o, exc = cli.run_cli(["annotate", "--copyright", h, "--year", y, "--license", "MIT", f["name"]], root)
                    if exc is not None or code:
                        return "EXC:setup:%s:%s" % (code, exc)
            code, o, exc = cli.run_cli(self.argv(case), root)
            if exc is not None:
                return "EXC:%s:%s" % (type(exc).__name__, str(exc)[:100])
            out["rc"] = code
            out["out"] = (o or "")[-300:] if code else ""
            code, report, exc = cli.run_cli(["--no-multiprocessing", "lint", "--json"], root)
            try:
                js = json.loads(report[report.index("{"):])
            except Exception as e:      # noqa
                return "EXC:lint:%s:%s" % (exc, e)
            out["lint"] = {entry["path"]: sorted(c["value"] for c in entry["copyrights"]) for entry in js["files"]}
            snap = cli.snapshot(root)
            out["text"] = {k: v[1].decode("utf-8", "replace") for k, v in snap.items() if v[0] == "file" and not k.startswith("LICENSES")}
        return json.dumps(out, sort_keys=True)

    def oracle(self, case, impl_out):
        if impl_out.startswith("EXC"):
            return "cli-crash: " + impl_out
        out = json.loads(impl_out)
        cmd = "reuse " + " ".join(self.argv(case))
        if out["rc"] != 0:
            return "annotate-failed: `%s` exit status %s: %s" % (cmd, out["rc"], out["out"].strip()[-200:])
        for f in case["files"]:
            stated = [(h, y) for h, y in f["old"]] + [(h, case["year"]) for h in case["req"]]
            pos = [case["files"][i]["name"] for i in case["order"]].index(f["name"]) + 1
            where = "%s (%s, path %d of %d in `%s`)" % (f["name"], "no header before" if not f["old"] else "header before: %r" % f["old"], pos, len(case["files"]), cmd)
            why = base.judge_merged(out["text"].get(f["name"], ""), stated, where)
            if why:
                return why
            why = base.judge_merged("\n".join(out["lint"].get(f["name"], [])), stated, "what lint reads from " + where)
            if why:
                return why
        return None

    def nontrivial(self, case, impl_out):
        if impl_out.startswith("EXC"):
            return None
        return (tuple(case["files"][i]["kind"] for i in case["order"]), len(case["req"]), case["recursive"])

    def show(self, case):
        return {"argv": self.argv(case), "files": [{"name": f["name"], "header_before": f["old"]} for f in case["files"]]}


STREAMS = [FrameCliStream(), FrameHandStream(), MultiMergeStream()]
