"""C19, two more regions of the input space.

`existing` — the pre-existing state "LICENSES/ already containing the target" with *every kind of content*: the target (and an
existing --output file, and the text inside a --source directory) is a regular file of 0 bytes (a placeholder, what an earlier
`reuse download LicenseRef-x` leaves), one blank, one newline, a single character, the very text the download would bring, a
long text.  Whatever it holds, an existing file is never replaced or altered: the snapshot compares content, and additionally
the inode and the modification time of every file that existed (set to a date in the past before the command runs), so that a
rewrite with the same bytes, a replacement through rename and a `touch` are seen.

`history` — sequences of 2-4 `reuse download` invocations on the same project (the quantifier's "histories"): the state an
earlier invocation leaves — an empty LicenseRef- text, downloaded texts, a LICENSES/ that did not exist before — is the
pre-existing state of the next.  Every step is judged by C19's whole-tree oracle against the tree the previous step left.

Ground truth: the generator's tree and outcome vector; the oracle is CmdStream's (property text), applied unchanged.
"""
import json
import os
import urllib.request

import cli
import c19 as base

OLD = 978307200          # 2001-01-01: the modification time given to everything that exists before the command


def contents_for(t):
    return ["", "", "", " ", "\n", "x", base.text_of(t), "pre-existing %s, must stay\n" % t, ("long text line of %s\n" % t) * 200]


def age(top):
    """give every regular file below top an old modification time; -> {relpath: (inode, mtime_ns)}"""
    seen = {}
    for dp, dn, fn in os.walk(top):
        if "/.git" in dp or dp.endswith("/.git"):
            continue
        for f in fn:
            p = os.path.join(dp, f)
            if os.path.islink(p):
                continue
            os.utime(p, (OLD, OLD))
            st = os.stat(p)
            seen[os.path.relpath(p, top)] = (st.st_ino, st.st_mtime_ns)
    return seen


def touched(top, seen):
    out = []
    for rel, (ino, mt) in sorted(seen.items()):
        p = os.path.join(top, rel)
        if os.path.islink(p) or not os.path.isfile(p):
            continue                 # a vanished / replaced-by-something-else file shows in the content snapshot
        st = os.stat(p)
        if st.st_ino != ino:
            out.append("%s is another file now (inode changed)" % rel)
        elif st.st_mtime_ns != mt:
            out.append("%s was written to or touched (modification time changed)" % rel)
    return out


class ExistingStream(base.CmdStream):
    name = "existing"
    rule = ("`reuse download` of 1-4 identifiers {valid, deprecated, with '+', LicenseRef-} x {no --source, --source file, --source "
            "directory} x {no --output, --output naming an existing regular file} where each target (with probability 0.6), the --output "
            "file and the texts in the --source directory already exist as REGULAR FILES holding: nothing (0 bytes), one blank, one "
            "newline, one character, exactly the text the download would bring, a short other text, a 5 KiB text; network outcome per "
            "identifier as in `cmd`; from root / sub-directory / inside LICENSES/, with and without Git: whole-tree snapshot plus inode "
            "and modification time of everything that existed; compared with the model; non-trivial = distinct (exit, sizes of the "
            "existing targets, created paths, fetched set)")
    N = {"quick": 300, "thorough": 2500}

    def gen(self, rng):
        git, where, cwd, root, licdir, tree, state = self.layout(rng)
        n = rng.choice([1, 1, 2, 3, 4])
        pool = base.VALID + base.DEPRECATED + base.PLUS + base.REFS + base.REFS
        ids = [rng.choice(pool) for _ in range(n)]
        targets = sorted({base.strip_plus(i) for i in ids})
        if not any(p == licdir for p, k, c in tree):
            tree.append([licdir, "d", ""])
        tree.append([licdir + "/Unrelated-1.0.txt", "f", rng.choice(["", "unrelated, must stay\n"])])
        for t in targets:
            if rng.random() < 0.6:
                tree.append(["%s/%s.txt" % (licdir, t), "f", rng.choice(contents_for(t))])
        # the --source directory holds texts for the LicenseRef- targets, some of them empty
        for t in targets:
            if base.is_ref(t) and t != "LicenseRef-a" and rng.random() < 0.6:
                tree.append(["proj/lics/%s.txt" % t, "f", rng.choice(["", "text of %s from lics\n" % t])])
        net = {t: ("ok" if rng.random() < 0.75 else rng.choice(["404", "http", "url"])) for t in targets}
        source = None
        r = rng.random()
        if r < 0.25:
            source = os.path.relpath("proj/foo.txt", cwd)
        elif r < 0.5:
            source = os.path.relpath("proj/lics", cwd)
        output = None
        if rng.random() < 0.2:
            ids = ids[:1]
            tree.append([cwd + "/out-existing.txt", "f", rng.choice(contents_for(base.strip_plus(ids[0])))])
            output = "out-existing.txt"
        return {"tree": tree, "git": git, "cwd": cwd, "root": root, "licdir": licdir, "ids": ids, "all": False,
                "output": output, "source": source, "net": net, "used": {}}

    def cases(self, tier, rng):
        for _ in range(self.N[tier]):
            yield self.gen(rng)

    def impl(self, case):
        with cli.scratch("rv-c19e-") as top:
            self.build(top, case)
            before = self.snap(top)
            seen = age(top)
            stub = base.Stub(case["net"])
            orig = urllib.request.urlopen
            urllib.request.urlopen = stub
            try:
                code, out, exc = cli.run_cli(self.root_argv(case, top) + self.argv(case), os.path.join(top, case["cwd"]))
            finally:
                urllib.request.urlopen = orig
            after = self.snap(top)
            res = {"exit": code, "exc": type(exc).__name__ if exc is not None else None, "after": after,
                   "calls": sorted(u[len(base.BASE):] if u.startswith(base.BASE) else u for u in stub.calls)}
            t = touched(top, seen)
            if t:
                res["touched"] = t
            if before != self.snap_of_case(case):
                res["harness"] = "tree was not built as described"
            return json.dumps(res, sort_keys=True)

    def agree(self, case, impl_out, model_out):
        r = json.loads(impl_out)
        r.pop("touched", None)
        return json.dumps(r, sort_keys=True) == model_out

    def oracle(self, case, impl_out):
        why = base.CmdStream.oracle(self, case, impl_out)
        if why:
            return why
        r = json.loads(impl_out)
        if r.get("touched"):
            return "overwrite: an existing file was altered: %s (exit status %s)" % ("; ".join(r["touched"]), r["exit"])
        return None

    def nontrivial(self, case, impl_out):
        r = json.loads(impl_out)
        before = {p: (k, c) for p, k, c in case["tree"]}
        sizes = sorted((t, len(before["%s/%s.txt" % (case["licdir"], t)][1])) for t in self.targets(case) if "%s/%s.txt" % (case["licdir"], t) in before)
        return json.dumps([r["exit"], sizes, sorted(p for p, k, c in r["after"] if p not in before), r["calls"], case["output"] is not None])


class HistoryStream(base.CmdStream):
    name = "history"
    rule = ("2-4 `reuse download` invocations one after the other on the same project (identifiers from a pool of 7 so that they recur: "
            "`download LicenseRef-x` then `download --source FILE|DIR LicenseRef-x`, `download MIT` twice, `MIT` then `MIT+`, a failed "
            "download tried again with the network back; LICENSES/ absent at the start in half of the cases; root / sub-directory / "
            "inside LICENSES/, Git or not): each step judged by the whole-tree oracle against the tree the step before left (nothing "
            "that exists by then is replaced or altered — content, inode, modification time —, exactly the missing texts are "
            "supplied, exit status); oracle only; non-trivial = distinct sequence of (exit, created paths)")
    N = {"quick": 120, "thorough": 1200}
    IDS = ["MIT", "MIT+", "0BSD", "GPL-3.0", "LicenseRef-a", "LicenseRef-b.c", "LicenseRef-none"]

    def gen(self, rng):
        git, where, cwd, root, licdir, tree, state = self.layout(rng)
        if state != "absent":
            tree.append([licdir, "d", ""])
            if rng.random() < 0.5:
                tree.append([licdir + "/Unrelated-1.0.txt", "f", "unrelated, must stay\n"])
        tree.append(["proj/lics/LicenseRef-b.c.txt", "f", rng.choice(["", "text of b.c from lics\n"])])
        steps = []
        for _ in range(rng.randint(2, 4)):
            ids = [rng.choice(self.IDS) for _ in range(rng.choice([1, 1, 2, 3]))]
            targets = sorted({base.strip_plus(i) for i in ids})
            r = rng.random()
            source = os.path.relpath("proj/foo.txt", cwd) if r < 0.25 else os.path.relpath("proj/lics", cwd) if r < 0.5 else None
            steps.append({"ids": ids, "source": source,
                          "net": {t: ("ok" if rng.random() < 0.7 else rng.choice(["404", "http", "url", "reset"])) for t in targets}})
        return {"tree": tree, "git": git, "cwd": cwd, "root": root, "licdir": licdir, "steps": steps, "used": {}}

    def cases(self, tier, rng):
        for _ in range(self.N[tier]):
            yield self.gen(rng)

    def step_case(self, case, i, tree):
        s = case["steps"][i]
        return {"tree": tree, "git": case["git"], "cwd": case["cwd"], "root": case["root"], "licdir": case["licdir"], "ids": s["ids"],
                "all": False, "output": None, "source": s["source"], "net": s["net"], "used": {}}

    def impl(self, case):
        results = []
        with cli.scratch("rv-c19h-") as top:
            self.build(top, case)
            if self.snap(top) != self.snap_of_case(case):
                return json.dumps([{"harness": "tree was not built as described"}])
            for i in range(len(case["steps"])):
                before = self.snap(top)
                seen = age(top)
                sc = self.step_case(case, i, before)
                stub = base.Stub(sc["net"])
                orig = urllib.request.urlopen
                urllib.request.urlopen = stub
                try:
                    code, out, exc = cli.run_cli(self.argv(sc), os.path.join(top, case["cwd"]))
                finally:
                    urllib.request.urlopen = orig
                res = {"before": before, "exit": code, "exc": type(exc).__name__ if exc is not None else None, "after": self.snap(top),
                       "calls": sorted(u[len(base.BASE):] if u.startswith(base.BASE) else u for u in stub.calls)}
                t = touched(top, seen)
                if t:
                    res["touched"] = t
                results.append(res)
        return json.dumps(results, sort_keys=True)

    def model_lines(self, case):
        return []

    def oracle(self, case, impl_out):
        if impl_out.startswith("EXC"):
            return "harness: " + impl_out
        results = json.loads(impl_out)
        for i, r in enumerate(results):
            if "harness" in r:
                return "harness: " + r["harness"]
            sc = self.step_case(case, i, r["before"])
            why = base.CmdStream.oracle(self, sc, json.dumps(r))
            if not why and r.get("touched"):
                why = "overwrite: an existing file was altered: %s (exit status %s)" % ("; ".join(r["touched"]), r["exit"])
            if why:
                head, _, rest = why.partition(": ")
                return "%s: invocation %d of %d (`reuse %s`): %s" % (head, i + 1, len(results), " ".join(self.argv(sc)), rest)
        return None

    def classify(self, case, failure):
        return None

    def nontrivial(self, case, impl_out):
        if impl_out.startswith("EXC"):
            return None
        results = json.loads(impl_out)
        if any("harness" in r for r in results):
            return None
        return json.dumps([[r["exit"], sorted(p for p, k, c in r["after"] if [p, k, c] not in r["before"])] for r in results])

    def show(self, case):
        return {"invocations": [self.argv(self.step_case(case, i, [])) for i in range(len(case["steps"]))],
                "net": [s["net"] for s in case["steps"]], "cwd": case["cwd"], "git": case["git"],
                "tree": [[p, k, c[:60]] for p, k, c in case["tree"]]}


STREAMS = [ExistingStream(), HistoryStream()]
