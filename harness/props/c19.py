"""C19 — download never overwrites and supplies exactly the missing licences.

The real CLI runs in-process on a scratch tree with `urllib.request.urlopen` (the name
reuse/download.py calls) replaced by a stub that is driven by the case's outcome vector and
keeps a call log.  The compared behaviour is: exit status, the whole tree after the command
(every path, kind, content / link target), the set of identifiers fetched — and for `--all`
the missing-licence keys of a following real `reuse lint --json`.
"""
import itertools
import json
import os
import posixpath
import subprocess
import urllib.request
from urllib.error import HTTPError, URLError

from core import Property, Stream, enc, dec, enc_list, dec_list, enc_bool, enc_opt
import cli

BASE = "https://raw.githubusercontent.com/spdx/license-list-data/master/text/"


def strip_plus(i):
    return i[:-1] if i.endswith("+") else i


def is_ref(i):
    # written from the property text / the SPDX spec: LicenseRef-[idstring], idstring = letters, digits, '-', '.'
    if not i.startswith("LicenseRef-"):
        return False
    body = i[len("LicenseRef-"):]
    return body != "" and all(c.isascii() and (c.isalnum() or c in "-.") for c in body)


def text_of(i):
    return "Licence text of %s — ü\n second line\n" % i


def norm(cwd, rel):
    return posixpath.normpath(posixpath.join(cwd, rel))


# --------------------------------------------------------------------------
# identifier helpers


class IdentStream(Stream):
    name = "ident"
    exhaustive = True
    rule = ("every string 'LicenseRef-'+w and every w, |w| <= 3 (quick) / 4 (thorough) over {a Z 0 - . + \\n / _ e-acute}, plus "
            "damaged prefixes: _strip_plus_from_identifier and _LICENSEREF_PATTERN.match against the model; "
            "non-trivial = one distinct (stripped, is-LicenseRef) answer per string")
    A = ["a", "Z", "0", "-", ".", "+", "\n", "/", "_", "é"]

    def cases(self, tier, rng):
        n = 4 if tier == "thorough" else 3
        for k in range(n + 1):
            for w in itertools.product(self.A, repeat=k):
                w = "".join(w)
                yield "LicenseRef-" + w
                if k <= 3:
                    yield w
        for s in ["LicenseRef", "licenseref-a", "LicenseRef-a b", " LicenseRef-a", "xLicenseRef-a", "LicenseRef--", "MIT+", "MIT++", "+",
                  "LicenseRef-a\n\n", "LicenseRef-\n"]:
            yield s

    def impl(self, case):
        from reuse._util import _strip_plus_from_identifier
        from reuse.extract import _LICENSEREF_PATTERN
        return "%s|%s" % (enc(_strip_plus_from_identifier(case)), enc_bool(bool(_LICENSEREF_PATTERN.match(case))))

    def model_lines(self, case):
        return ["stripplus\t" + enc(case), "islicenseref\t" + enc(case)]

    def model_out(self, case, outs):
        return "%s|%s" % (outs[0], outs[1])

    def oracle(self, case, impl_out):
        s, r = impl_out.split("|")
        if dec(s) != strip_plus(case):
            return "plus: %r stripped to %r" % (case, dec(s))
        # a final newline is tolerated by Python's `$`; it cannot occur in a file name the command is asked for
        if "\n" not in case and (r == "1") != is_ref(case):
            return "licenseref-class: %r classified %s" % (case, r)
        return None

    def nontrivial(self, case, impl_out):
        return (case,)


# --------------------------------------------------------------------------
# whole commands


class Stub:
    def __init__(self, net):
        self.net = net
        self.calls = []

    class Resp:
        def __init__(self, text, code, reset=False):
            self.text, self.code, self.reset = text, code, reset

        def __enter__(self):
            return self

        def __exit__(self, *a):
            return False

        def read(self):
            if self.reset == "incomplete":
                import http.client
                raise http.client.IncompleteRead(b"Licence te", 40)
            if self.reset == "timeout":
                raise TimeoutError("The read operation timed out")
            if self.reset:
                raise ConnectionResetError("connection reset during transfer")
            return self.text.encode("utf-8")

        def getcode(self):
            return self.code

    def __call__(self, url, *a, **k):
        url = url if isinstance(url, str) else url.full_url
        self.calls.append(url)
        name = url[len(BASE):] if url.startswith(BASE) else url
        ident = name[:-4] if name.endswith(".txt") else name
        out = self.net.get(ident, self.net.get("*", "404"))
        if out == "ok":
            return Stub.Resp(text_of(ident), 200)
        if out == "404":
            return Stub.Resp("Not Found", 404)
        if out == "http":
            raise HTTPError(url, 404, "Not Found", {}, None)
        if out == "url":
            raise URLError("connection refused")
        if out in READ_FAILURES:
            return Stub.Resp(None, 200, reset=out)
        raise AssertionError(out)


#: the transfer breaks while the body is read, after the 200 status: connection reset, short body, time-out
READ_FAILURES = ("reset", "incomplete", "timeout")


VALID = ["MIT", "0BSD", "GPL-3.0-or-later", "Apache-2.0", "CC0-1.0"]
DEPRECATED = ["GPL-3.0", "GPL-2.0+", "eCos-2.0"]
UNKNOWN = ["Foo-1.0", "does-not-exist"]
PLUS = ["MIT+", "EUPL-1.2+", "Foo-1.0+", "Apache-2.0+"]
REFS = ["LicenseRef-a", "LicenseRef-b.c", "LicenseRef-a+", "LicenseRef-none"]
POOL = VALID + DEPRECATED + UNKNOWN + PLUS + REFS
# "unknown" identifiers that are not even a file name: with a path separator they would name a place outside LICENSES/
# ("ABS:" stands for the scratch directory of the run); and identifiers whose <identifier>.txt no file system accepts
PATHY = ["../evil", "sub/x", "../text/MIT", "a/../b", "./MIT", "../../outside/evil", "ABS:outside/abs-evil", "LicenseRef-a/b", "../LicenseRef-up"]
LONG = ["LicenseRef-" + "a" * 300, "Long" + "-x" * 150]


def pathy(i):
    return "/" in i or i.startswith("ABS:")


def too_long(i):
    return len((i + ".txt").encode("utf-8")) > 255
TAGS = "# SPDX-FileCopyrightText: 2020 Jane Doe\n"


def tagged(ids):
    return TAGS + "".join("# SPDX-License-Identifier: %s\n" % i for i in ids)


def gt_missing(tree, root, used_by_file):
    """Ground truth of lint's missing licences for a tree given as [[path, kind, content]]: identifiers used by
    the tagged files the project covers, minus those (or their '+'-less form) LICENSES/ provides."""
    lic = root + "/LICENSES/"
    present = {posixpath.basename(p)[:-4] for p, k, c in tree if p.startswith(lic) and k == "f" and p.endswith(".txt")
               and "/" not in p[len(lic):]}
    used = set()
    for p, ids in used_by_file.items():
        if p.startswith(root + "/") and not p.startswith(lic) and any(q == p for q, k, c in tree):
            used.update(ids)
    return sorted(u for u in used if u not in present and strip_plus(u) not in present)


class CmdStream(Stream):
    name = "cmd"
    rule = ("generated `reuse download` invocations: 1-5 identifiers from {valid, deprecated, unknown, with '+', duplicates, "
            "LicenseRef-, now and then a name with a path separator or one too long for a file name} x network outcome per identifier {200+text, status 404, HTTPError, URLError, and after the 200 status: connection reset / short body / time-out while the body is read} x LICENSES/ {absent, empty, "
            "holding targets as file / dangling link / link to a file / directory} x invocation directory {root, sub-directory, "
            "inside LICENSES/} x {no VCS, Git} x --source {none, file, directory, missing} x --output {none, new, existing file, "
            "dangling link, directory, new parent, missing grandparent, with two identifiers}; whole-tree snapshot before/after, "
            "stub call log; non-trivial = distinct (exit, created paths, fetched set)")

    N = {"quick": 220, "thorough": 2500}

    # -- generation ---------------------------------------------------------
    def layout(self, rng, want_all=False, finding_shape=False):
        git = rng.random() < 0.4
        where = rng.choice(["root", "root", "sub", "lic"])
        if finding_shape:
            git, where = False, "lic"
        cwd = {"root": "proj", "sub": "proj/sub", "lic": "proj/LICENSES"}[where]
        root = "proj" if git else cwd
        # the directory the property calls LICENSES/ of the project
        if where == "lic" and not git:
            licdir = cwd
        else:
            licdir = root + "/LICENSES"
        tree = [["outside", "d", ""], ["outside/keep.txt", "f", "outside\n"], ["proj", "d", ""], ["proj/sub", "d", ""],
                ["proj/src", "d", ""], ["proj/foo.txt", "f", "custom licence text\n"], ["proj/lics", "d", ""],
                ["proj/lics/LicenseRef-a.txt", "f", "text of a from lics\n"], ["proj/README", "f", "readme\n"]]
        state = rng.choice(["absent", "empty", "some", "some", "some"])
        if where == "lic":
            if state == "absent":
                state = "empty"
            if licdir != "proj/LICENSES":
                tree.append(["proj/LICENSES", "d", ""])
        return git, where, cwd, root, licdir, tree, state

    def populate(self, rng, tree, licdir, state, targets, plain_only=False):
        if state == "absent":
            return
        tree.append([licdir, "d", ""])
        tree.append([licdir + "/Unrelated-1.0.txt", "f", "unrelated, must stay\n"])
        if state == "empty":
            return
        for t in targets:
            r = rng.random()
            p = "%s/%s.txt" % (licdir, t)
            if pathy(t) or too_long(t):
                continue
            if r < 0.35:
                kind = "f" if plain_only else rng.choice(["f", "f", "dangling", "tofile", "dir"])
                if kind == "f":
                    tree.append([p, "f", "pre-existing %s, must stay\n" % t])
                elif kind == "dangling":
                    tree.append([p, "l", os.path.relpath("outside/written-through-%s.txt" % t, licdir)])
                elif kind == "tofile":
                    tree.append([p, "l", os.path.relpath("outside/keep.txt", licdir)])
                else:
                    tree.append([p, "d", ""])

    def gen(self, rng):
        git, where, cwd, root, licdir, tree, state = self.layout(rng)
        n = rng.choice([1, 1, 2, 3, 4, 5])
        ids = [rng.choice(POOL) for _ in range(n)]
        if rng.random() < 0.12:
            ids[rng.randrange(len(ids))] = rng.choice(PATHY + LONG)
        if n > 1 and rng.random() < 0.3:
            ids.append(rng.choice(ids))
        if rng.random() < 0.15:
            ids.append(ids[0] + "+" if not ids[0].endswith("+") else ids[0][:-1])
        targets = sorted({strip_plus(i) for i in ids})
        self.populate(rng, tree, licdir, state, targets)
        net = {}
        for t in targets:
            good = 0.25 if t in ("Foo-1.0", "does-not-exist") else 0.65
            net[t] = "ok" if rng.random() < good else rng.choice(["404", "http", "url", "url"] + list(READ_FAILURES))
        if any(pathy(t) for t in targets):
            net["*"] = "ok"       # whatever URL such an "identifier" turns into, the server answers
        source = None
        r = rng.random()
        if r < 0.15:
            source = os.path.relpath("proj/foo.txt", cwd)
        elif r < 0.3:
            source = os.path.relpath("proj/lics", cwd)
        elif r < 0.34:
            source = "no-such-source"
        elif r < 0.38 and state != "absent":
            source = os.path.relpath(licdir, cwd)
        output = None
        if rng.random() < 0.22:
            kind = rng.choice(["new", "new", "file", "dangling", "dir", "newparent", "nogrand", "two"])
            if kind != "two":
                ids = ids[:1]
            elif len(ids) < 2:
                ids = ids + [ids[0] + "+"]
            if kind in ("new", "two"):
                output = "out.txt"
            elif kind == "file":
                output = os.path.relpath("proj/README", cwd)
            elif kind == "dangling":
                tree.append([cwd + "/dangling-out", "l", os.path.relpath("outside/written-through-output.txt", cwd)])
                output = "dangling-out"
            elif kind == "dir":
                output = os.path.relpath("proj/src", cwd)
            elif kind == "newparent":
                output = "newdir/out.txt"
            elif kind == "nogrand":
                output = "nodir/deeper/out.txt"
        return {"tree": tree, "git": git, "cwd": cwd, "root": root, "licdir": licdir, "ids": ids, "all": False,
                "output": output, "source": source, "net": net, "used": {}}

    def cases(self, tier, rng):
        # hand-written corners first
        base = [["outside", "d", ""], ["proj", "d", ""], ["proj/sub", "d", ""]]
        yield {"tree": base, "git": False, "cwd": "proj", "root": "proj", "licdir": "proj/LICENSES", "ids": [], "all": False,
               "output": None, "source": None, "net": {}, "used": {}}
        yield {"tree": base, "git": False, "cwd": "proj", "root": "proj", "licdir": "proj/LICENSES", "ids": ["MIT"], "all": True,
               "output": None, "source": None, "net": {"MIT": "ok"}, "used": {}}
        yield {"tree": base, "git": False, "cwd": "proj", "root": "proj", "licdir": "proj/LICENSES", "ids": [], "all": True,
               "output": "x.txt", "source": None, "net": {}, "used": {}}
        for k in range(4):  # failure at each position of a batch of four
            ids = ["MIT", "0BSD", "Apache-2.0", "CC0-1.0"]
            yield {"tree": base, "git": False, "cwd": "proj", "root": "proj", "licdir": "proj/LICENSES", "ids": ids, "all": False,
                   "output": None, "source": None, "net": {i: ("ok" if j != k else ["404", "http", "url", "404"][k]) for j, i in enumerate(ids)},
                   "used": {}}
            for bad in READ_FAILURES:   # ... and a transfer that breaks while the body is read
                yield {"tree": base, "git": False, "cwd": "proj", "root": "proj", "licdir": "proj/LICENSES", "ids": ids, "all": False,
                       "output": None, "source": None, "net": {i: ("ok" if j != k else bad) for j, i in enumerate(ids)}, "used": {}}
        for _ in range(self.N[tier]):
            yield self.gen(rng)

    # -- running the real command --------------------------------------------
    def build(self, top, case):
        for p, k, c in sorted(case["tree"], key=lambda e: (e[0].count("/"), e[0])):
            full = os.path.join(top, p)
            if k == "d":
                os.makedirs(full, exist_ok=True)
            elif k == "f":
                os.makedirs(os.path.dirname(full), exist_ok=True)
                with open(full, "w", encoding="utf-8", newline="") as fp:
                    fp.write(c)
            else:
                os.makedirs(os.path.dirname(full), exist_ok=True)
                os.symlink(c, full)
        if case["git"]:
            subprocess.run(["git", "init", "-q", os.path.join(top, "proj")], check=True, capture_output=True)

    @staticmethod
    def snap(top):
        out = []
        for p, (k, c) in cli.snapshot(top).items():
            if p == "proj/.git" or p.startswith("proj/.git/"):
                continue
            kind = {"file": "f", "dir": "d", "link": "l"}[k]
            out.append([p, kind, c.decode("utf-8", "surrogateescape") if isinstance(c, bytes) else c])
        return sorted(out)

    def root_argv(self, case, top="<top>"):
        """the global --root option of a case: "rootarg" is the project root relative to the scratch top, "rootspell" how it is
        written (relative to the working directory / absolute / relative with ./ and a trailing slash)"""
        if case.get("rootarg") is None:
            return []
        rel = os.path.relpath(case["rootarg"], case["cwd"])
        spell = case.get("rootspell", "rel")
        return ["--root", os.path.join(top, case["rootarg"]) if spell == "abs" else "./" + rel + "/" if spell == "slash" else rel]

    def argv(self, case):
        args = ["download"]
        if case["all"]:
            args.append("--all")
        if case["output"] is not None:
            args += ["--output", case["output"]]
        if case["source"] is not None:
            args += ["--source", case["source"]]
        return args + list(case["ids"])

    def impl(self, case):
        with cli.scratch("rv-c19-") as top:
            self.build(top, case)
            before = self.snap(top)
            stub = Stub(case["net"])
            orig = urllib.request.urlopen
            urllib.request.urlopen = stub
            try:
                argv = [os.path.join(top, a[4:]) if a.startswith("ABS:") else a for a in self.argv(case)]
                code, out, exc = cli.run_cli(self.root_argv(case, top) + argv, os.path.join(top, case["cwd"]))
            finally:
                urllib.request.urlopen = orig
            after = self.snap(top)
            res = {"exit": code, "exc": type(exc).__name__ if exc is not None else None, "after": after,
                   "calls": sorted(u[len(BASE):] if u.startswith(BASE) else u for u in stub.calls)}
            if before != self.snap_of_case(case):
                res["harness"] = "tree was not built as described"
            if case["all"] and code == 0:
                if case.get("rootarg") is None:
                    lcode, rep, lexc = cli.lint_json(os.path.join(top, case["cwd"]))
                else:
                    lcode, lout, lexc = cli.run_cli(self.root_argv(case, top) + ["lint", "--json"], os.path.join(top, case["cwd"]))
                    try:
                        rep = json.loads(lout[lout.index("{"):]) if lexc is None else None
                    except ValueError as e:
                        rep, lexc = None, e
                res["lint_missing"] = sorted(rep["non_compliant"]["missing_licenses"]) if rep else "lint failed: %r" % (lexc,)
            return json.dumps(res, sort_keys=True)

    @staticmethod
    def snap_of_case(case):
        return sorted([p, k, c] for p, k, c in case["tree"])

    # -- the model -------------------------------------------------------------
    def missing_in(self, case):
        return gt_missing(case["tree"], case["root"], case["used"]) if case["all"] else []

    def model_lines(self, case):
        tree = [["", "d", ""]] + list(case["tree"])
        cwd = case["cwd"]
        ok = sorted(i for i, o in case["net"].items() if o == "ok")
        if any(pathy(i) or too_long(strip_plus(i)) for i in case["ids"]):
            return []          # the model's identifiers are file names the file system accepts
        f = [
            "download",
            enc_list(p for p, k, c in tree), enc_list(k for p, k, c in tree), enc_list(c for p, k, c in tree),
            enc(cwd), enc(case["root"]), enc_bool(case.get("novcs", not case["git"])),
            enc_list(case["ids"]), enc_bool(case["all"]),
            enc_opt(None if case["output"] is None else norm(cwd, case["output"])),
            enc_opt(None if case["source"] is None else norm(cwd, case["source"])),
            enc_list(self.missing_in(case)),
            enc_list(ok), enc_list(text_of(i) for i in ok),
        ]
        return ["\t".join(f)]

    def model_out(self, case, outs):
        o = outs[0]
        if o == "usage":
            return json.dumps({"exit": 2, "exc": None, "after": self.snap_of_case(case), "calls": []}, sort_keys=True)
        ex, paths, kinds, contents, calls, _outcomes = o.split("|")
        after = sorted([p, k, c] for p, k, c in zip(dec_list(paths), dec_list(kinds), dec_list(contents)) if p != "")
        res = {"exit": int(ex), "exc": None, "after": after, "calls": sorted(c + ".txt" for c in dec_list(calls))}
        if case["all"] and int(ex) == 0:
            res["lint_missing"] = gt_missing(after, case["root"], case["used"])
        return json.dumps(res, sort_keys=True)

    # -- the property, stated on what was observed -----------------------------
    def targets(self, case):
        ids = self.missing_in(case) if case["all"] else case["ids"]
        return sorted({strip_plus(i) for i in ids})

    def is_usage(self, case):
        before = {p: (k, c) for p, k, c in case["tree"]}
        cwd = case["cwd"]
        if case["all"] and (case["ids"] or case["output"] is not None):
            return True
        if case["output"] is not None:
            if len(case["ids"]) > 1:
                return True
            if before.get(norm(cwd, case["output"]), ("", ""))[0] == "d":
                return True
        if case["source"] is not None and before.get(norm(cwd, case["source"]), ("", ""))[0] not in ("f", "d"):
            return True
        return False

    def oracle(self, case, impl_out):
        if impl_out.startswith("EXC"):
            return "harness: " + impl_out
        r = json.loads(impl_out)
        if "harness" in r:
            return "harness: " + r["harness"]
        before = {p: (k, c) for p, k, c in case["tree"]}
        after = {p: (k, c) for p, k, c in r["after"]}
        cwd = case["cwd"]
        # 1. never replaces or alters anything that existed
        for p, v in before.items():
            if after.get(p) != v:
                return "overwrite: %s was %r and is %r" % (p, v, after.get(p))
        new = {p: v for p, v in after.items() if p not in before}
        if self.is_usage(case):
            if r["exit"] != 2 or new or r["calls"]:
                return "usage: exit %s, created %s, fetched %s" % (r["exit"], sorted(new), r["calls"])
            return None
        targets = self.targets(case)
        if case["output"] is not None:
            dest = {t: norm(cwd, case["output"]) for t in targets}
        else:
            dest = {t: "%s/%s.txt" % (case["licdir"], t) for t in targets}
        src = None if case["source"] is None else norm(cwd, case["source"])
        expect = {}  # target -> expected content, or None when the command must not supply it
        for t in targets:
            d = dest[t]
            par = posixpath.dirname(d)
            can_place = d not in before and (before.get(par, ("", ""))[0] == "d" or (
                par not in before and before.get(posixpath.dirname(par), ("", ""))[0] == "d"))
            if not can_place or pathy(t) or (too_long(t) and case["output"] is None):
                # (an "identifier" with a path separator names no LICENSES/<identifier>.txt; one that is too long for a file name cannot be
                # stored there -- under --output the file name is the output's, whatever the length of the identifier)
                expect[t] = None
            elif is_ref(t):
                if src is None:
                    expect[t] = ""
                else:
                    s = src + "/" + t + ".txt" if before[src][0] == "d" else src
                    expect[t] = before[s][1] if before.get(s, ("", ""))[0] == "f" else None
            else:
                expect[t] = text_of(t) if case["net"].get(t, "404") == "ok" else None
        # 2. writes only LICENSES/<id>.txt (or --output) and the directory that holds it
        allowed_files = {d for t, d in dest.items() if not pathy(t)}
        allowed_dirs = {posixpath.dirname(d) for t, d in dest.items() if not pathy(t)}
        for p, (k, c) in sorted(new.items()):
            if k == "f" and p in allowed_files:
                continue
            if k == "d" and p in allowed_dirs:
                continue
            return "write-set: created %s (%s) which is neither a requested LICENSES/<id>.txt / the --output path nor its directory" % (p, k)
        # 3./4. exactly the expected files, with the expected text; nothing (no partial file) for a failed one
        for t in targets:
            d = dest[t]
            if expect[t] is None:
                if d in new:
                    kind = "debris" if (not is_ref(t) and case["net"].get(t, "404") != "ok") else "unexpected-file"
                    return "%s: %s was created although %s could not be supplied" % (kind, d, t)
            else:
                if d not in new:
                    return "not-supplied: %s was not created for %s" % (d, t)
                if new[d] != ("f", expect[t]):
                    return "content: %s holds %r, expected %r" % (d, new[d][1][:40], expect[t][:40])
        # 5. exit status
        failed = [t for t in targets if expect[t] is None]
        if r["exc"] is not None:
            return "crash: `reuse download` ended in an unhandled %s (network outcomes %s)" % (r["exc"], case["net"])
        if failed and r["exit"] == 0:
            return "exit-status: exit 0 although %s failed" % failed
        if not failed and r["exit"] != 0:
            return "exit-status: exit %s although everything succeeded" % r["exit"]
        if r["exit"] not in (0, 1):
            return "exit-status: exit %s" % r["exit"]
        # 6. no network for LicenseRef-, '+' fetched as the bare identifier, nothing fetched that was not requested
        for c in r["calls"]:
            ident = c[:-4] if c.endswith(".txt") else c
            if is_ref(ident) or ident.startswith("LicenseRef-"):
                return "licenseref-network: %s was requested from the network" % c
            if ident not in targets:
                return "fetched-unrequested: %s (targets %s)" % (c, targets)
            if pathy(ident):
                return "fetched-non-identifier: %s was requested from the network" % c
        # 7. --all closes the gap
        if case["all"] and r["exit"] == 0 and r.get("lint_missing") != []:
            return "all-not-closed: download --all exited 0 and lint still reports missing %s" % (r.get("lint_missing"),)
        return None

    def classify(self, case, failure):
        if failure.startswith("all-not-closed") and case.get("novcs", not case["git"]) and case["cwd"].endswith("/LICENSES") \
                and case.get("rootarg") is None:
            return "all-inside-licenses-without-vcs"
        return None

    def nontrivial(self, case, impl_out):
        if impl_out.startswith("EXC"):
            return None
        r = json.loads(impl_out)
        before = {p for p, k, c in case["tree"]}
        return json.dumps([r["exit"], sorted(p for p, k, c in r["after"] if p not in before), r["calls"]])

    def show(self, case):
        return {"argv": self.root_argv(case) + self.argv(case), "cwd": case["cwd"], "git": case["git"], "net": case["net"],
                "tree": [[p, k, c[:60]] for p, k, c in case["tree"]]}


class AllStream(CmdStream):
    name = "all"
    rule = ("`reuse download --all` on generated trees whose tagged files use 1-5 identifiers (with '+', deprecated, unknown, "
            "LicenseRef-) of which LICENSES/ provides a random subset, every network outcome per identifier, from root / "
            "sub-directory / inside LICENSES/, with and without Git, with and without --source; followed by the real "
            "`reuse lint --json`; non-trivial = distinct (exit, created paths, fetched set)")
    N = {"quick": 70, "thorough": 600}

    def gen(self, rng, finding_shape=False):
        git, where, cwd, root, licdir, tree, state = self.layout(rng, finding_shape=finding_shape)
        used = {}
        files = ["proj/src/a.py", "proj/sub/b.py"]
        if where == "lic" and not git:
            files = ["proj/LICENSES/x.py"] if (finding_shape or rng.random() < 0.3) else []
        for f in files:
            used[f] = sorted({rng.choice(POOL) for _ in range(rng.choice([1, 2, 3]))})
        if rng.random() < 0.2 and used:
            f = sorted(used)[0]
            used[f] = sorted(set(used[f]) | {"EUPL-1.2", "EUPL-1.2+"})
        targets = sorted({strip_plus(i) for ids in used.values() for i in ids})
        self.populate(rng, tree, licdir, state, targets, plain_only=True)
        for f, ids in used.items():
            tree.append([f, "f", tagged(ids)])
        net = {}
        for t in targets:
            net[t] = "ok" if rng.random() < 0.8 else rng.choice(["404", "http", "url"])
        source = None
        r = rng.random()
        if r < 0.15:
            source = os.path.relpath("proj/foo.txt", cwd)
        elif r < 0.3:
            source = os.path.relpath("proj/lics", cwd)
        return {"tree": tree, "git": git, "cwd": cwd, "root": root, "licdir": licdir, "ids": [], "all": True,
                "output": None, "source": source, "net": net, "used": used}

    def cases(self, tier, rng):
        for _ in range(self.N[tier]):
            yield self.gen(rng)
        for _ in range(3):
            yield self.gen(rng, finding_shape=True)


class RootCwdStream(CmdStream):
    """Working directory x --root x VCS, as a product: where the text must land is the property's "LICENSES/<identifier>.txt under
    the project root" -- the root being --root when given, else the top of the Git work tree, else the working directory (inside
    whose LICENSES/ means: in it)."""
    name = "rootcwd"
    CWDS = ["proj", "proj/sub", "proj/LICENSES", "proj/vendor/x/LICENSES", "outside/LICENSES", "elsewhere"]
    rule = ("the product working directory {project root, a sub-directory, <root>/LICENSES, a vendored component's "
            "<root>/vendor/x/LICENSES, the LICENSES/ of an unrelated directory outside, an unrelated directory} x {--root given "
            "(relative, absolute, ./x/), not given} x {the project is a Git repository, no VCS} x {`download <ids>`, `download "
            "--all` followed by the real lint with the same --root} with LICENSES/ absent / empty / partly filled and every network "
            "outcome, plus --root naming a directory that is itself called LICENSES from four other working directories: the same whole-tree snapshot oracle (text only in LICENSES/<id>.txt under the project root, nothing else "
            "created anywhere -- in particular not in the working directory's LICENSES/ --, --all closes the gap) and the same "
            "model (Env cwd / root / vcsNone); quick: every cell twice, thorough: 12 times")

    def gen_cell(self, rng, cwd, rootgiven, git, want_all, rootdir="proj"):
        inside = cwd == "proj" or cwd.startswith("proj/")
        if rootgiven and rootdir != "proj":
            # a project whose own directory is called LICENSES (never a repository here), named with --root from another directory
            root, novcs, git = rootdir, True, False
        elif rootgiven:
            root, novcs = "proj", not git
        elif git and inside:
            root, novcs = "proj", False
        else:
            root, novcs = cwd, True
        if rootgiven or not novcs:
            licdir = root + "/LICENSES"
        else:
            licdir = cwd if posixpath.basename(cwd) == "LICENSES" else cwd + "/LICENSES"
        tree = [["outside", "d", ""], ["outside/keep.txt", "f", "outside\n"], ["outside/LICENSES", "d", ""],
                ["outside/LICENSES/Unrelated-2.0.txt", "f", "another project's licence, must stay\n"], ["elsewhere", "d", ""],
                ["proj", "d", ""], ["proj/sub", "d", ""], ["proj/src", "d", ""], ["proj/README", "f", "readme\n"],
                ["proj/vendor", "d", ""], ["proj/vendor/x", "d", ""], ["proj/vendor/x/LICENSES", "d", ""],
                ["proj/vendor/x/LICENSES/Unrelated-3.0.txt", "f", "the vendored component's licence, must stay\n"],
                ["proj/lics", "d", ""], ["proj/lics/LicenseRef-a.txt", "f", "text of a from lics\n"]]
        state = rng.choice(["absent", "empty", "some", "some"])
        if cwd == "proj/LICENSES" and state == "absent":
            state = "empty"   # the working directory exists
        if licdir in ("outside/LICENSES", "proj/vendor/x/LICENSES"):
            state = "present"  # already in the tree
        used = {}
        if want_all:
            ids = []
            for f in ["proj/src/a.py", "proj/sub/b.py"]:
                used[f] = sorted({rng.choice(POOL) for _ in range(rng.choice([1, 2, 3]))})
            targets = sorted({strip_plus(i) for v in used.values() for i in v})
        else:
            ids = [rng.choice(POOL) for _ in range(rng.choice([1, 2, 3]))]
            targets = sorted({strip_plus(i) for i in ids})
        if rootdir != "proj":
            if want_all:
                used = {rootdir + "/tagged.py": sorted({i for v in used.values() for i in v})}
            else:
                tree.append([rootdir + "/tagged.py", "f", tagged(["MIT"])])
        if state == "present":
            for t in targets:
                if rng.random() < 0.2:
                    tree.append(["%s/%s.txt" % (licdir, t), "f", "pre-existing %s, must stay\n" % t])
        else:
            self.populate(rng, tree, licdir, state, targets, plain_only=want_all)
        if cwd == "proj/LICENSES" and not any(p == cwd for p, k, c in tree):
            tree.append([cwd, "d", ""])
        for f, v in used.items():
            tree.append([f, "f", tagged(v)])
        net = {t: ("ok" if rng.random() < 0.8 else rng.choice(["404", "http", "url"])) for t in targets}
        source = os.path.relpath("proj/lics", cwd) if rng.random() < 0.15 else None
        case = {"tree": tree, "git": git, "novcs": novcs, "cwd": cwd, "root": root, "licdir": licdir, "ids": ids, "all": want_all,
                "output": None, "source": source, "net": net, "used": used}
        if rootgiven:
            case.update(rootarg=rootdir, rootspell=rng.choice(["rel", "rel", "abs", "slash"]))
        return case

    def cases(self, tier, rng):
        for _ in range(12 if tier == "thorough" else 2):
            for cwd in self.CWDS:
                for rootgiven in (True, False):
                    for git in (True, False):
                        for want_all in (False, True):
                            yield self.gen_cell(rng, cwd, rootgiven, git, want_all)
            # --root names a directory that is itself called LICENSES, from every other working directory
            for cwd in ["elsewhere", "proj", "proj/LICENSES", "outside"]:
                for want_all in (False, True):
                    yield self.gen_cell(rng, cwd, True, False, want_all, rootdir="outside/LICENSES")


class TransferStream(CmdStream):
    """One identifier whose transfer breaks while the body is read (an exception urllib does not wrap): no partial file,
    nothing overwritten, the failure in the exit status, no traceback; compared with the model like any other failure."""
    name = "transfer"
    rule = ("single identifier, the stub's response raises ConnectionResetError in read(): no file may appear, the exit "
            "status is 1, no traceback (the model: a failed transfer); non-trivial = distinct (exit, created paths)")
    N = {"quick": 6, "thorough": 30}

    def gen(self, rng):
        c = CmdStream.gen(self, rng)
        c["ids"] = [rng.choice(VALID)]
        c["net"] = {c["ids"][0]: "reset"}
        if c["output"] is not None and len(c["ids"]) < 2 and self.is_usage(c):
            c["output"] = None
        return c

    def cases(self, tier, rng):
        for _ in range(self.N[tier]):
            yield self.gen(rng)


import c19s15     # noqa: E402  (needs the classes above)

PROPERTY = Property(
    pid="C19",
    streams=[IdentStream(), CmdStream(), AllStream(), RootCwdStream(), TransferStream()] + c19s15.STREAMS,
    assumptions=[
        "paths are resolved lexically in the model: a LICENSES/ (or --output parent, or --source) reached through a symbolic "
        "link to a directory is not generated; links met at the destination itself (dangling, to a file) are",
        "the model's identifiers are file names the file system accepts: an 'identifier' with a path separator ('../evil', 'sub/x', an "
        "absolute path) or one too long for a file name is generated for the real command only (it must be refused: no request, nothing "
        "written, exit status 1 — fixes/download-identifier-is-a-file-name.diff), not for the model",
        "the network oracle has two outcomes, text or failure (status != 200, HTTPError, connection error, and — since "
        "fixes/download-transfer-breaks-while-reading.diff — a connection reset / short body / time-out while the body is read, "
        "which download_license turns into the URLError the command reports); no traceback is accepted for any of them",
        "a --output below a regular file and a directory named <id>.txt inside --source (uncaught OSError subclasses) are not generated",
        "`--all`: the missing-licence set is an input of the model (ground truth of the generated tree); that lint computes it "
        "and reads the new files back is checked by running the real lint after the real download",
    ],
)
