"""Streams `spdx-e2e` (C18) and `lintfile-e2e` (C13): the composed models of `reuse spdx`, `reuse lint-file` and the formats of
`reuse lint` (lean/ReuseVerif/Model/SpdxE2E.lean) against the real commands on the generated projects of the C01 stream
`e2e-model` (harness/props/c01_e2e.py: generator, serialisation, ground truth).

spdx-e2e      case = {"proj": PROJECT, "name": root directory name, "person", "org", "runs": [[optset, cwd, rootform]...]}
lintfile-e2e  case = {"proj": PROJECT, "cwd": directory below the root ("" = the root), "rootform": "abs"|"rel", "args": [[tree path, form]...]}

The oracles are generator ground truth (`c01_e2e.truth`: covered files by c03.spec_covered, attribution by c04.spec_items and
c05.denotes, LICENSES/ names) and hashlib; the tag-value reader and the truth-table comparison of licence expressions are the
independent ones of harness/props/c18.py, the parsers of the lint outputs those of harness/props/c13.py.
"""
import hashlib
import json
import os
import re
import warnings

from core import Stream, enc, dec, enc_list, dec_list, enc_bool, enc_opt, run_driver
import cli
import reports_common as rc
import c01_e2e as e2e

# ----------------------------------------------------------------------------
# running the real tool (stdout only: log records and warnings go to stderr)


def run_cli(args, cwd):
    from click.testing import CliRunner
    from reuse.cli.main import main

    saved = os.environ.get("_SUPPRESS_DEP5_WARNING")
    os.environ["_SUPPRESS_DEP5_WARNING"] = "1"
    try:
        with cli.chdir(cwd):
            try:
                runner = CliRunner()
                with warnings.catch_warnings():
                    warnings.simplefilter("ignore")
                    res = runner.invoke(main, list(args), catch_exceptions=True)
            except BaseException as e:  # noqa
                return 99, "", "", e
    finally:
        if saved is None:
            os.environ.pop("_SUPPRESS_DEP5_WARNING", None)
        else:
            os.environ["_SUPPRESS_DEP5_WARNING"] = saved
    exc = res.exception
    if isinstance(exc, SystemExit):
        exc = None
    try:
        err = res.stderr
    except Exception:
        err = ""
    return res.exit_code, res.stdout, err, exc


def flag_opts(flags):
    return (["--include-submodules"] if flags[0] == "1" else []) + (["--include-meson-subprojects"] if flags[1] == "1" else [])


def status_of(code, err, exc):
    """ok | config-error | duplicate | usage | EXC:…"""
    if exc is not None:
        if isinstance(exc, RuntimeError) and "Multiple licenses" in str(exc):
            return "duplicate"
        return "EXC:%s:%s" % (type(exc).__name__, str(exc)[:100])
    if code == 2:
        return "config-error" if ("could not be parsed" in err or "REUSE.toml" in err or "dep5" in err) else "usage"
    return "ok"


# ----------------------------------------------------------------------------
# the project part of the driver ops (c01_e2e's serialisation; a fifth column in the expression table)

_BASE = {}


def case_key(proj):
    return json.dumps(proj, sort_keys=True)


def base_fields(proj):
    k = case_key(proj)
    if k not in _BASE:
        _BASE[k] = e2e.model_fields(proj, [])
    return _BASE[k]


def expr_rows5(texts):
    """license-expression's answers: parses?, keys, str(), and a representative of the `==` class"""
    return [(t, ok, ks, r, e2e.canon_expr_text(t) if ok else "") for t, ok, ks, r in e2e.expr_rows(texts)]


def project_fields(proj, rows):
    f = base_fields(proj)
    table = " ".join("%s/%s/%s/%s/%s" % (enc(t), "1" if ok else "0", enc_list(ks), enc(r), enc(k)) for t, ok, ks, r, k in rows)
    return f[1:6] + [table, f[7]], f[8:]


def simplify(joined):
    """the question `FileReport.generate` asks boolean.py"""
    from reuse import _LICENSING
    try:
        return _LICENSING.parse(joined).simplify().render()
    except Exception as e:  # noqa
        return "simplify-failed: %s" % type(e).__name__


def run_rounds(n, build):
    """build(i, rows, simp) -> driver line.  Up to three rounds: the first answer names the expressions license-expression has
    to be asked about, the second (with --add-license-concluded) the conjunctions boolean.py has to simplify."""
    rows = [[] for _ in range(n)]
    simp = [{} for _ in range(n)]
    outs = run_driver([build(i, rows[i], simp[i]) for i in range(n)])
    for _ in range(3):
        again = [i for i, o in enumerate(outs) if o.startswith(("need:", "needsimp:"))]
        if not again:
            break
        for i in again:
            o = outs[i]
            if o.startswith("need:"):
                rows[i] = expr_rows5(dec_list(o[len("need:"):]))
            else:
                for q in dec_list(o[len("needsimp:"):]):
                    simp[i][q] = simplify(q)
        outs2 = run_driver([build(i, rows[i], simp[i]) for i in again])
        for i, o in zip(again, outs2):
            outs[i] = o
    return outs


def recs(pairs):
    return "|".join("%s!%s" % (enc(a), enc(b)) for a, b in pairs) if pairs else "~"


def regular_files(tree):
    return [(p, e2e.body_bytes(node[1])) for p, node in e2e.walk_nodes(tree) if node[0] == "f"]


def fold_newlines(b):
    """a text file read with universal newlines, undecodable bytes replaced"""
    return b.decode("utf-8", "replace").replace("\r\n", "\n").replace("\r", "\n")


# ----------------------------------------------------------------------------
# spdx-e2e

NONADD = ["plain", "person", "org", "both"]
ADD = ["add-person", "add-org", "add-both"]
LICREF_TEXTS = [
    {"t": "raw", "s": "single line"}, {"t": "raw", "s": "multi\nline\n\ntext\n"}, {"t": "raw", "s": "ünïcode © text\n"},
    {"t": "raw", "s": "windows\r\nline ends\r\n"}, {"t": "raw", "s": "old mac\rline ends\r"}, {"t": "raw", "s": "mixed\r\n\rtwo\n\r"},
    {"t": "hex", "h": "6c6174696e31ff20e9e82062797465730a"}, {"t": "hex", "h": "c328e2828020f09f98800a80"}, {"t": "empty"},
    {"t": "raw", "s": "Tag: value\nFileName: ./fake\n"}, {"t": "raw", "s": "\n\nleading blank lines\n"},
]


_A, _B = ["AND", ["K", "MIT"], ["K", "0BSD"]], ["AND", ["K", "0BSD"], ["K", "MIT"]]
FIXED_SPDX = [
    # expressions that license-expression holds equal are one element of the set of a source; the same identifier from
    # several sources is listed once per source; a blank REUSE.toml string is no notice; a string of two lines
    {"flags": "00", "tree": [
        ["a.py", ["f", {"t": "text", "style": "py", "cop": ["SPDX-FileCopyrightText: 2020 X", "SPDX-FileCopyrightText: 2020 X"], "lic": [_A, _B, ["K", "MIT"]]}]],
        ["b.py", ["f", {"t": "text", "style": "py", "cop": [], "lic": []}]],
        ["REUSE.toml", ["f", {"t": "toml", "tables": [
            {"globs": ["**"], "prec": "aggregate", "cop": ["SPDX-FileCopyrightText: 2020 X", "", "2019 Y", "two\nlines"], "lic": [_B, _A, ["K", "MIT"]]}]}]],
        ["LICENSES", ["d", [["MIT.txt", ["f", {"t": "raw", "s": "x\n"}]], ["0BSD.txt", ["f", {"t": "raw", "s": "x\n"}]],
                            ["LicenseRef-a.txt", ["f", {"t": "raw", "s": "no line end"}]]]]]]},
    # a sibling replaces the file as the source of information but never as the object of the checksum; an unreadable sibling
    {"flags": "00", "tree": [
        ["img.png", ["f", {"t": "bin", "tags": True}]],
        ["img.png.license", ["f", {"t": "text", "style": "txt", "cop": ["SPDX-FileCopyrightText: 2001 Z"], "lic": [["K", "LicenseRef-a"]]}]],
        ["c.txt", ["f", {"t": "text", "style": "txt", "cop": ["SPDX-FileCopyrightText: 2001 Z"], "lic": [["K", "MIT"]]}]],
        ["c.txt.license", ["d", [["inner.txt", ["f", {"t": "raw", "s": "x\n"}]]]]],
        ["LICENSES", ["d", [["MIT.txt", ["f", {"t": "raw", "s": "x\n"}]], ["sub", ["d", [["LicenseRef-a.txt", ["f", {"t": "hex", "h": "ff0d0a0dfe"}]]]]]]]]]},
]


def mirror(e):
    return [e[0], e[2], e[1]] if e[0] in ("AND", "OR") else e


def spdx_variant(rng, proj):
    """the e2e-model project with LicenseRef- texts worth reading: several lines, CR / CRLF, bytes that are not UTF-8, empty;
    a LicenseRef- text no file uses"""
    tree = proj["tree"]
    # the same expression written with its operands the other way round: one element of the source's set of expressions
    for p, node in e2e.walk_nodes(tree):
        if node[0] == "f" and node[1]["t"] == "text" and rng.random() < 0.15:
            node[1]["lic"] = list(node[1].get("lic", [])) + [mirror(e) for e in node[1].get("lic", []) if e[0] in ("AND", "OR")]
        if node[0] == "f" and node[1]["t"] == "toml" and rng.random() < 0.3:
            for t in node[1]["tables"]:
                if t.get("lic"):
                    t["lic"] = list(t["lic"]) + [mirror(e) for e in t["lic"] if e[0] in ("AND", "OR")]
    ln = e2e.node_at(tree, "LICENSES")
    if ln is not None and ln[0] == "d":
        for p, node in e2e.walk_nodes(ln[1]):
            if node[0] == "f" and os.path.basename(p).startswith("LicenseRef-") and rng.random() < 0.7:
                node[1] = dict(rng.choice(LICREF_TEXTS))
        if rng.random() < 0.35:
            e2e.add_path(tree, "LICENSES/" + rng.choice(["", "sub/"]) + "LicenseRef-nobody-uses-%d.txt" % rng.randint(0, 9),
                         ["f", dict(rng.choice(LICREF_TEXTS))])
    if rng.random() < 0.35:
        odd_names(rng, proj)
    if rng.random() < 0.35:
        twin_notices(rng, proj)
    return proj


def odd_names(rng, proj):
    """files (and directories) whose names are not in Unicode normal form C, NFC / NFD twins and case twins side by side, other
    names outside ASCII (c18.UNI_GROUPS), at the top level or below a directory of the project; their bodies like any other file's"""
    import c18
    tree = proj["tree"]
    dirs = [""] + [p for p, node in e2e.walk_nodes(tree) if node[0] == "d" and not p.startswith((".", "LICENSES"))
                   and "/." not in p and "LICENSES" not in p.split("/")]
    for grp in rng.sample(c18.UNI_GROUPS, rng.choice([1, 1, 2])):
        members = list(grp) if rng.random() < 0.6 else rng.sample(grp, rng.randint(1, len(grp)))
        d = rng.choice(dirs) if rng.random() < 0.4 else ""
        shared = e2e.rand_text_body(rng, ["MIT", "0BSD"], "txt") if rng.random() < 0.3 else None
        for m in members:
            body = json.loads(json.dumps(shared)) if shared else e2e.rand_text_body(rng, ["MIT", "0BSD"], rc.style_for(m))
            e2e.add_path(tree, (d + "/" if d else "") + m, ["f", body])


def twin_notices(rng, proj):
    """one notice reaches a file in two or three spellings (c18.spellings: another tag, no tag, the holder in another case, a comma
    after the year): two lines of one header, or a header / .license line beside a REUSE.toml table (aggregate, sometimes another
    precedence) or a .reuse/dep5 paragraph that names the file"""
    import c18
    tree = proj["tree"]
    texts = [(p, node) for p, node in e2e.walk_nodes(tree) if node[0] == "f" and node[1]["t"] == "text" and not p.endswith(".license")
             and not p.startswith((".", "LICENSES/")) and "/." not in p]
    root_toml, dep5 = e2e.node_at(tree, "REUSE.toml"), e2e.node_at(tree, ".reuse/dep5")
    any_toml = any(os.path.basename(p) == "REUSE.toml" for p, node in e2e.walk_nodes(tree))
    for p, node in rng.sample(texts, min(len(texts), rng.choice([1, 1, 2]))):
        b = node[1]
        sib = e2e.node_at(tree, p + ".license")
        own = sib[1] if sib is not None and sib[0] == "f" and sib[1]["t"] == "text" else b
        shape = rng.choice(["own-pair", "global+own", "global+own", "global+own"])
        if shape == "own-pair":
            own["cop"] = list(own.get("cop", [])) + c18.spellings(rng, rng.choice([2, 3]), False)
            continue
        ls = c18.spellings(rng, rng.choice([2, 2, 3]), True)
        tagged = [l for l in ls if not l[0].isdigit()]
        glob_side = [l for l in ls if l not in tagged[:1]]
        own["cop"] = list(own.get("cop", [])) + tagged[:1]
        if dep5 is not None and dep5[0] == "f" and dep5[1]["t"] == "dep5":
            if " " in p:          # (blanks separate the patterns of a Files field)
                continue
            dep5[1]["paras"].append({"globs": [p.replace("\\", "\\\\").replace("*", "\\*").replace("?", "\\?")],
                                     "cop": glob_side, "lic": ["K", "MIT"]})
        else:
            table = {"globs": [rc.glob_escape(p)], "prec": "aggregate" if rng.random() < 0.85 else rng.choice([None, "closest", "override"]),
                     "cop": glob_side if len(glob_side) > 1 or rng.random() < 0.5 else glob_side[0],
                     "lic": None if rng.random() < 0.6 else [["K", "0BSD"]]}
            if root_toml is not None and root_toml[0] == "f" and root_toml[1]["t"] == "toml" and not root_toml[1].get("broken"):
                root_toml[1]["tables"].append(table)
            elif root_toml is None and not any_toml:
                e2e.add_path(tree, "REUSE.toml", ["f", {"t": "toml", "tables": [table]}])
                root_toml, any_toml = e2e.node_at(tree, "REUSE.toml"), True


def opt_args(case, key):
    a = []
    if key.startswith("add"):
        a.append("--add-license-concluded")
    if key in ("person", "both", "add-person", "add-both"):
        a += ["--creator-person", case["person"]]
    if key in ("org", "both", "add-org", "add-both"):
        a += ["--creator-organization", case["org"]]
    return a


def opt_creators(case, key):
    person = case["person"] if key in ("person", "both", "add-person", "add-both") else None
    org = case["org"] if key in ("org", "both", "add-org", "add-both") else None
    return person, org


def some_dir(rng, tree):
    dirs = [p for p, node in e2e.walk_nodes(tree) if node[0] == "d"]
    return rng.choice(dirs) if dirs else ""


class SpdxE2EStream(Stream):
    name = "spdx-e2e"
    rule = ("the generated projects of C01's e2e-model stream (nested REUSE.toml / dep5 / .license siblings / binaries / windows / "
            "excluded material / LICENSES with sub-directories and hidden names), a third of them with 1-2 groups of names outside ASCII / outside Unicode normal form C "
            "(c18.UNI_GROUPS: NFD names and directories, NFC / NFD twins, case twins, Hangul jamo, ANGSTROM SIGN ...) at the top level or in a directory, a third with 1-2 files that one notice "
            "reaches in 2-3 spellings (two header lines; header or .license line beside an aggregate REUSE.toml table / a dep5 paragraph naming the file; tag variants, no tag, case, comma, year range), their LicenseRef- texts replaced by texts with several "
            "lines, CR / CRLF line ends, bytes that are not UTF-8, no text at all, plus a LicenseRef- text no file uses; real `reuse spdx` "
            "twice per project (one of plain / --creator-person / --creator-organization / both, one of --add-license-concluded with a "
            "creator, one in twelve without: usage error), run from the root or from a sub-directory with an absolute or relative --root; "
            "compared with the document of the composed Lean model (driver op spdxe2e, up to three rounds: license-expression, then "
            "boolean.py's simplify, answer as oracle tables; sha1 / md5 from hashlib): every line, LicenseConcluded up to truth-table "
            "equivalence; where the model's docOk holds the real document must be read by the tag-value reader; oracle = generator ground "
            "truth: File sections <-> readable covered files (FileName = ./ + the path as stored, code point for code point), checksum and SPDXID recomputed, licence identifiers and copyright lines = "
            "what the sources-and-precedence rules attribute AND what `reuse lint --json` (run on the same tree) attributes to the file, one DESCRIBES relationship per file, LicenseRef sections <-> LicenseRef- "
            "files below LICENSES/ with their decoded text, LicenseConcluded equivalent to the AND of the attributed expressions; "
            "non-trivial = distinct documents")

    def __init__(self):
        self._model = {}
        self._pending = []

    def cases(self, tier, rng):
        import c18
        n = {"quick": 150, "thorough": 1700}[tier]
        out = []
        for k in range(n):
            proj = json.loads(json.dumps(FIXED_SPDX[k])) if k < len(FIXED_SPDX) else spdx_variant(rng, e2e.gen_case(rng))
            runs = []
            for key in (rng.choice(NONADD), "add-alone" if rng.random() < 0.08 else rng.choice(ADD)):
                cwd = some_dir(rng, proj["tree"]) if rng.random() < 0.4 else ""
                runs.append([key, cwd, rng.choice(["abs", "rel"])])
            out.append({"proj": proj, "name": rng.choice(["proj", "my project", "prøj"]), "person": rng.choice(c18.CREATORS),
                        "org": rng.choice(c18.CREATORS), "runs": runs})
        self._pending = list(out)
        return out

    # -- the real tool
    def impl(self, case):
        import c18
        import reuse
        proj = case["proj"]
        res = {"version": reuse.__version__, "runs": []}
        with cli.scratch("rv-se2e-") as top:
            root = os.path.join(top, case["name"])
            os.makedirs(root)
            e2e.materialise(root, proj["tree"])
            # what `reuse lint --json` attributes to every file (the property's wording for the copyright lines and identifiers)
            code, out, err, exc = run_cli(["--no-multiprocessing"] + flag_opts(proj["flags"]) + ["lint", "--json"], root)
            if status_of(code, err, exc) == "ok" and "{" in out:
                try:
                    rep = json.loads(out[out.index("{"):])
                    res["lint"] = {f["path"]: {"c": sorted(c["value"] for c in f["copyrights"]),
                                               "e": sorted(c["value"] for c in f["spdx_expressions"])} for f in rep["files"]}
                except (ValueError, KeyError, TypeError) as e:
                    res["lint"] = "unreadable: %s" % type(e).__name__
            for key, cwd, rootform in case["runs"]:
                wd = os.path.join(root, cwd) if cwd else root
                pre = ["--no-multiprocessing"] + flag_opts(proj["flags"])
                if cwd:
                    pre += ["--root", root if rootform == "abs" else os.path.relpath(root, wd)]
                code, out, err, exc = run_cli(pre + ["spdx"] + opt_args(case, key), wd)
                st = status_of(code, err, exc)
                run = {"status": st}
                if st == "usage":
                    run["creator-message"] = "--add-license-concluded" in err
                if st == "ok":
                    if code != 0 or not out.endswith("\n\n"):
                        run["status"] = "EXC:exit %d or no echo newline" % code
                    else:
                        run["doc"] = c18.canon_doc(out[:-1])
                res["runs"].append(run)
        return json.dumps(res, sort_keys=True, ensure_ascii=True)

    # -- the model
    def _line(self, case, run, rows, simp):
        proj = case["proj"]
        key = run[0]
        head, tomls = project_fields(proj, rows)
        person, org = opt_creators(case, key)
        files = regular_files(proj["tree"])
        shas = [(p, hashlib.sha1(b).hexdigest()) for p, b in files]
        md5s = [("./" + p + s, hashlib.md5(("./" + p + s).encode("utf-8")).hexdigest()) for p, s in shas]
        import reuse
        return "\t".join(["spdxe2e"] + head + [enc_bool(key.startswith("add")), enc(case["name"]), enc(reuse.__version__),
                                               enc_opt(person), enc_opt(org), recs(shas), recs(md5s), recs(sorted(simp.items()))] + tomls)

    def prepare(self, cases):
        items = [(c, r) for c in cases for r in c["runs"]]
        outs = run_rounds(len(items), lambda i, rows, simp: self._line(items[i][0], items[i][1], rows, simp))
        for (c, r), o in zip(items, outs):
            self._model.setdefault(case_key(c), []).append(o)

    def model_lines(self, case):
        if case_key(case) not in self._model:
            batch, self._pending = [c for c in self._pending + [case] if case_key(c) not in self._model], []
            seen, uniq = set(), []
            for c in batch:
                if case_key(c) not in seen:
                    seen.add(case_key(c))
                    uniq.append(c)
            for i in range(0, len(uniq), 100):
                self.prepare(uniq[i:i + 100])
        return ["licref\t"]

    def model_out(self, case, outs):
        import reuse
        res = {"version": reuse.__version__, "runs": []}
        for o in self._model[case_key(case)]:
            if o == "usage-error":
                res["runs"].append({"status": "usage", "creator-message": True})
            elif o in ("config-error", "duplicate"):
                res["runs"].append({"status": o})
            elif o.startswith("doc:"):
                _, ok, t = o.split(":", 2)
                res["runs"].append({"status": "ok", "doc": dec(t), "docOk": ok[:1] == "1", "keysRespectEq": ok[1:2] == "1"})
            else:
                res["runs"].append({"status": "MODEL:" + o[:200]})
        return json.dumps(res, sort_keys=True, ensure_ascii=True)

    def agree(self, case, impl_out, model_out):
        import c18
        if impl_out.startswith("EXC"):
            return False
        a, b = json.loads(impl_out), json.loads(model_out)
        if len(a["runs"]) != len(b["runs"]):
            return False
        for ra, rb in zip(a["runs"], b["runs"]):
            if ra["status"] != rb["status"]:
                return False
            if ra["status"] == "usage" and ra.get("creator-message") != rb.get("creator-message"):
                return False
            if ra["status"] != "ok":
                continue
            if not rb.get("keysRespectEq"):
                # the oracle hypothesis of C18_e2e_file_report (expressions that license-expression holds equal mention the
                # same identifiers) fails on the library's own answers: the theorem would not speak about this project
                return False
            la, lb = ra["doc"].split("\n"), rb["doc"].split("\n")
            if len(la) != len(lb):
                return False
            for x, y in zip(la, lb):
                if x == y:
                    continue
                # the expressions of one source are a set: the conjunction boolean.py is handed may come in another order
                if x.startswith("LicenseConcluded: ") and y.startswith("LicenseConcluded: "):
                    try:
                        if c18.tt_equiv(c18.parse_expr(x[18:]), c18.parse_expr(y[18:])):
                            continue
                    except ValueError:
                        pass
                return False
            if rb.get("docOk"):
                # theorem-hypothesis tie (C18_e2e_wellformed): the side condition holds on the model's document, so the real
                # one must be read by the tag-value grammar
                try:
                    c18.read_tv(ra["doc"])
                except c18.NotTagValue:
                    return False
        return True

    # -- the oracle: generator ground truth
    def oracle(self, case, impl_out):
        import c18
        if impl_out.startswith("EXC"):
            return "crash: " + impl_out
        res = json.loads(impl_out)
        proj = case["proj"]
        exp = e2e.truth(proj)
        if exp["status"] == "ok" and not isinstance(res.get("lint"), dict):
            return "lint-json: no report for a project that loads (%r)" % (res.get("lint"),)
        for (key, cwd, rootform), run in zip(case["runs"], res["runs"]):
            why = self.check_run(c18, case, proj, exp, key, run, res.get("lint"))
            if why:
                return "%s [options %s, run in %r, --root %s]" % (why, key, cwd or ".", rootform if cwd else "none")
        return None

    def check_run(self, c18, case, proj, exp, key, run, lint=None):
        st = run["status"]
        if st.startswith("EXC"):
            return "crash: " + st
        if key == "add-alone":
            if st != "usage" or not run.get("creator-message"):
                return "creator-requirement: --add-license-concluded without a creator ends with status %s" % st
            return None
        if st != exp["status"]:
            return "status: the tool answers %s, the project is %s" % (st, exp["status"])
        if st != "ok":
            return None
        doc = run["doc"]
        try:
            entries = c18.read_tv(doc)
        except c18.NotTagValue as e:
            return "not-tag-value: %s" % e
        head, fsecs, lsecs = c18.sections(entries)
        add = key.startswith("add")
        hd = {}
        for t, v, x in head:
            hd.setdefault(t, []).append(v)
        if hd.get("DocumentName") != [case["name"]]:
            return "document-name: %r for the project directory %r" % (hd.get("DocumentName"), case["name"])
        person, org = opt_creators(case, key)
        want_creators = ["Person: " + c18_creator(person), "Organization: " + c18_creator(org)]
        if hd.get("Creator", [])[:2] != want_creators:
            return "creator: %r, the options give %r" % (hd.get("Creator"), want_creators)
        # one File section per readable covered file, named relative to the root
        names = [s[0][1] for s in fsecs]
        want_names = sorted("./" + p for p in exp["files"])
        if sorted(names) != want_names:
            a, b = set(names), set(want_names)
            return "file-sections: sections for %s that are not readable covered files; covered files without a section: %s" % (
                sorted(a - b), sorted(b - a))
        if names != sorted(names):
            return "file-sections: not in the order of their names: %r" % names
        ids = []
        for sec in fsecs:
            d = {}
            for t, v, x in sec:
                d.setdefault(t, []).append(v)
            path = sec[0][1][2:]
            for t in ("SPDXID", "FileChecksum", "LicenseConcluded", "FileCopyrightText"):
                if len(d.get(t, [])) != 1:
                    return "file-section: %r has %d %s entries" % (path, len(d.get(t, [])), t)
            data = e2e.body_bytes(e2e.node_at(proj["tree"], path)[1])
            sha = hashlib.sha1(data).hexdigest()
            if d["FileChecksum"][0] != "SHA1: " + sha:
                return "checksum: %r has %s, the file's bytes give %s" % (path, d["FileChecksum"][0], sha)
            want_id = "SPDXRef-" + hashlib.md5(("./" + path + sha).encode("utf-8")).hexdigest()
            if d["SPDXID"][0] != want_id:
                return "spdxid: %r has %s, md5(name + checksum) gives %s" % (path, d["SPDXID"][0], want_id)
            ids.append(d["SPDXID"][0])
            items = exp["files"][path]
            want_keys = sorted({k for kind, src, ks in items if kind == "L" for k in ks})
            got_keys = d.get("LicenseInfoInFile", [])
            if sorted(set(got_keys)) != want_keys:
                return "licence-ids: %r lists %r, the sources and precedence rules attribute %r" % (path, sorted(set(got_keys)), want_keys)
            if got_keys != sorted(got_keys):
                return "licence-ids: %r lists them out of order: %r" % (path, got_keys)
            want_c = sorted({v for kind, src, v in items if kind == "C" and v.strip()})
            cop = d["FileCopyrightText"][0]
            if want_c:
                got_c = cop.split("\n")
                # (a REUSE.toml string may itself hold several lines: compared as the lines of the joined text)
                if sorted(set(got_c)) != sorted({l for v in want_c for l in v.split("\n")}):
                    return "copyright: %r has %r, the sources and precedence rules attribute %r" % (path, cop, want_c)
                if got_c != sorted(got_c) and not any("\n" in v for v in want_c):
                    return "copyright: %r: lines not sorted: %r" % (path, got_c)
            elif cop != "NONE":
                return "copyright: %r has %r but no notice is attributed to it" % (path, cop)
            if lint is not None and path in lint:
                # the property's own wording: the copyright lines and identifiers `reuse lint --json` attributes to the file
                # (a blank REUSE.toml string is listed by lint with an empty value; it is no notice -- as in the ground truth above)
                lint_c = {l for v in lint[path]["c"] if v.strip() for l in v.split("\n")}
                if ({l for l in cop.split("\n")} if cop != "NONE" else set()) != lint_c:
                    return "copyright-vs-lint: %r has %r, `reuse lint --json` attributes %r" % (path, cop, lint[path]["c"])
                lint_k = {k for e in lint[path]["e"] for k in c18.expr_keys(e)}
                if set(got_keys) != lint_k:
                    return "licence-ids-vs-lint: %r lists %r, `reuse lint --json` attributes %r" % (path, got_keys, lint[path]["e"])
            conc = d["LicenseConcluded"][0]
            exprs = exp["exprs"][path]
            if not add:
                if conc != "NOASSERTION":
                    return "concluded: %r has %r without --add-license-concluded" % (path, conc)
            elif not exprs:
                if conc != "NONE":
                    return "concluded: %r has %r without any expression" % (path, conc)
            else:
                try:
                    a = c18.parse_expr(conc)
                    b = c18.conj([c18.parse_expr(rc.expr_text(e)) for e in exprs])
                except ValueError as e:
                    return "concluded-unreadable: %r: %s" % (path, e)
                if not c18.tt_equiv(a, b):
                    return "concluded-not-equivalent: %r: %r vs AND of %r" % (path, conc, [rc.expr_text(e) for e in exprs])
        if len(set(ids)) != len(ids):
            return "spdxid-not-unique: %r" % ids
        rels = hd.get("Relationship", [])
        if sorted(rels) != sorted("SPDXRef-DOCUMENT DESCRIBES " + i for i in ids):
            return "describes: relationships %r do not match the file sections one to one" % rels
        if any(t == "Relationship" for sec in fsecs + lsecs for t, v, x in sec):
            return "describes: relationship outside the document header"
        # LicenseRef- sections <-> LicenseRef- files below LICENSES/
        want = {}
        for n in exp["lic_names"]:
            last = n.rsplit("/", 1)[-1]
            if last.endswith(".license") and last != ".license":
                continue
            ident = rc.carried(last)[0]
            if rc.is_licref(ident):
                want[ident] = fold_newlines(e2e.body_bytes(e2e.node_at(proj["tree"], "LICENSES/" + n)[1]))
        got = {}
        for sec in lsecs:
            d = {}
            for t, v, x in sec:
                d.setdefault(t, []).append(v)
            if len(d.get("ExtractedText", [])) != 1 or sec[0][1] in got:
                return "licenseref: section %r malformed or repeated" % sec[0][1]
            got[sec[0][1]] = d["ExtractedText"][0]
        if got != want:
            return "licenseref: sections %r, the LicenseRef- files below LICENSES/ are %r" % (sorted(got.items()), sorted(want.items()))
        return None

    def classify(self, case, failure):
        if failure.startswith("not-tag-value"):
            return None
        return None

    def nontrivial(self, case, impl_out):
        return None if impl_out.startswith("EXC") else hashlib.sha1(impl_out.encode()).hexdigest()[:12]

    def show(self, case):
        d = e2e.E2EModelStream.show(None, case["proj"])
        d.update({"name": case["name"], "person": case["person"], "org": case["org"], "runs": case["runs"]})
        return d


def c18_creator(c):
    """`format_creator` read off the property text: Anonymous when absent, `NAME (EMAIL)` kept, else `NAME ()`"""
    if c is None:
        return "Anonymous ()"
    if "(" in c and c.endswith(")"):
        return c
    return c + " ()"


# ----------------------------------------------------------------------------
# lintfile-e2e

FCATS = ("missing", "readerr", "nolic", "nocop")


def arg_text(root, cwd, path, form, is_dir=False):
    """the FILE argument for the tree path `path` as typed in the directory `cwd` (both below the root)"""
    wd = os.path.join(root, cwd) if cwd else root
    full = os.path.join(root, path)
    rel = os.path.relpath(full, wd)
    if form == "abs":
        return full
    if form == "dot":
        return "./" + rel
    if form == "updown":        # through the parent directory and back
        d, b = os.path.split(full)
        if d != root and len(d) > len(root):
            return os.path.join(os.path.relpath(d, wd), "..", os.path.basename(d), b)
        return rel
    if form == "absdots":
        d, b = os.path.split(full)
        return os.path.join(d, ".", b)
    if form == "slash" and is_dir:
        return rel + "/"
    return rel


def arg_token(root, arg):
    if os.path.isabs(arg):
        assert arg == root or arg.startswith(root + "/")
        return "a|" + arg[len(root) + 1:]
    return "r|" + arg


def pick_args(rng, proj, exp):
    tree = proj["tree"]
    covered = sorted(exp["files"]) + list(exp["readerr"]) if exp["status"] == "ok" else []
    files, dirs, dangling = [], [], []
    for p, node in e2e.walk_nodes(tree):
        if node[0] == "f":
            files.append(p)
        elif node[0] == "d":
            dirs.append(p)
        elif node[1] == "nowhere":
            dangling.append(p)
    non = [p for p in files if p not in covered]
    shape = rng.choice(["all", "none", "one", "some", "some", "some+non", "some+non", "some+dirs", "only-non", "dups", "everything"])
    pick = []
    if shape == "all":
        pick = list(covered)
    elif shape == "one" and covered:
        pick = [rng.choice(covered)]
    elif shape in ("some", "some+non", "some+dirs", "dups") and covered:
        pick = rng.sample(covered, rng.randint(1, len(covered)))
    elif shape == "everything":
        pick = files + dirs
    if shape in ("some+non", "only-non") and non:
        pick += rng.sample(non, min(len(non), rng.randint(1, 4)))
    if shape == "some+dirs" and dirs:
        pick += rng.sample(dirs, min(len(dirs), rng.randint(1, 3)))
    if shape == "dups":
        pick += pick[:2]
    r = rng.random()
    if r < 0.03 and dangling:
        pick.append(rng.choice(dangling))             # click: the path does not exist
    elif r < 0.05:
        pick.append("no such file.txt")
    args = [[p, rng.choice(["rel", "rel", "abs", "dot", "updown", "absdots", "slash"])] for p in pick]
    rng.shuffle(args)
    return args


class LintFileE2EStream(Stream):
    name = "lintfile-e2e"
    rule = ("the generated projects of C01's e2e-model stream; FILE arguments drawn from every entry of the tree: all / none / one / "
            "some covered files, files that are not covered (inside .hg, LICENSES/, excluded sub-projects, LICENSE, .license siblings, "
            "REUSE.toml, empty files), directories (with and without a trailing slash), repetitions, one in thirty a dangling symlink or "
            "a name that does not exist; each typed relative to the working directory, ./-prefixed, absolute, through `dir/../dir/`, "
            "with a `/./` inside; the working directory is the root or any directory of the tree (also an excluded one) with an absolute "
            "or relative --root; real `reuse lint-file ARGS…`, `reuse lint --json`, `--plain`, `--lines`, `--quiet` on disk vs the "
            "composed Lean model (driver ops lintfilee2e: path resolution, existence, subset report, exit status; lintfmte2e: the four "
            "formatters on the composed report); oracle = generator ground truth: lint-file's lines are the per-file problems of the "
            "covered files among the named entries and of nothing else, exit 1 iff any, 2 for a name that does not exist; the four "
            "formats name the same offenders as the ground-truth report and exit alike; non-trivial = distinct outcomes")

    def __init__(self):
        self._model = {}
        self._pending = []

    def cases(self, tier, rng):
        n = {"quick": 90, "thorough": 1500}[tier]
        out = []
        for _ in range(n):
            proj = e2e.gen_case(rng)
            exp = e2e.truth(proj)
            cwd = some_dir(rng, proj["tree"]) if rng.random() < 0.45 else ""
            out.append({"proj": proj, "cwd": cwd, "rootform": rng.choice(["abs", "rel"]), "args": pick_args(rng, proj, exp)})
        self._pending = list(out)
        return out

    def rel(self, root, wd, p):
        p = os.path.normpath(os.path.join(wd, p))
        for r in (root, os.path.realpath(root)):
            if p.startswith(r + os.sep):
                return p[len(r) + 1:]
        return p

    def parse_lines(self, c13, root, wd, text):
        out = c13.empty()
        for line in text.split("\n"):
            if not line:
                continue
            for rx, cat, two in c13.LINE_FORMS:
                m = rx.match(line)
                if m:
                    out[cat].append([m.group(2), self.rel(root, wd, m.group(1))] if two else [self.rel(root, wd, m.group(1)), ""])
                    break
            else:
                out.setdefault("unparsed", []).append(line)
        return {k: sorted(v) for k, v in out.items()}

    def impl(self, case):
        import c13
        proj = case["proj"]
        with cli.scratch("rv-lfe2e-") as top:
            root = os.path.join(top, "proj")
            os.makedirs(root)
            e2e.materialise(root, proj["tree"])
            pre = ["--no-multiprocessing"] + flag_opts(proj["flags"])
            res = {"exit": []}
            for fmt in ("--json", "--plain", "--lines", "--quiet"):
                code, out, err, exc = run_cli(pre + ["lint", fmt], root)
                st = status_of(code, err, exc)
                if st != "ok":
                    res = {"status": st}
                    break
                res["status"] = "ok"
                res["exit"].append(code)
                try:
                    if fmt == "--json":
                        res["J"], res["S"] = c13.parse_json(root, out)
                    elif fmt == "--plain":
                        res["P"] = c13.parse_plain(root, out)
                    elif fmt == "--lines":
                        res["L"] = c13.parse_lines(root, out)
                    else:
                        res["Q"] = c13.empty() if out == "" else {"unparsed": [out[:80]]}
                except Exception as e:  # noqa
                    return "EXC:output of lint %s: %s: %s" % (fmt, type(e).__name__, out[:80])
            cwd = case["cwd"]
            wd = os.path.join(root, cwd) if cwd else root
            if cwd:
                pre += ["--root", root if case["rootform"] == "abs" else os.path.relpath(root, wd)]
            args = self.arg_texts(case, root)
            code, out, err, exc = run_cli(pre + ["lint-file"] + args, wd)
            st = status_of(code, err, exc)
            lf = {"status": st}
            if st == "ok":
                F = self.parse_lines(c13, root, wd, out)
                lf.update({"exit": code, "F": {c: F[c] for c in c13.ALLCATS}})
                if F.get("unparsed"):
                    lf["unparsed"] = F["unparsed"][:2]
            elif st == "usage":
                lf["missing-path"] = "does not exist" in err
            res["lintfile"] = lf
            return json.dumps(res, sort_keys=True)

    # -- model
    def _lines(self, case, rows):
        proj = case["proj"]
        head, tomls = project_fields(proj, rows)
        root = "/R"
        args = [arg_token(root, a) for a in self.arg_texts(case, root)]
        return ["\t".join(["lintfilee2e"] + head + [enc(case["cwd"]), enc_list(args)] + tomls),
                "\t".join(["lintfmte2e"] + head + tomls)]

    def arg_texts(self, case, root):
        out = []
        for p, form in case["args"]:
            n = e2e.node_at(case["proj"]["tree"], p)
            out.append(arg_text(root, case["cwd"], p, form, n is not None and n[0] == "d"))
        return out

    def prepare(self, cases):
        items = [(c, k) for c in cases for k in (0, 1)]
        outs = run_rounds(len(items), lambda i, rows, simp: self._lines(items[i][0], rows)[items[i][1]])
        for (c, k), o in zip(items, outs):
            self._model.setdefault(case_key(c), []).append(o)

    def model_lines(self, case):
        if case_key(case) not in self._model:
            batch, self._pending = [c for c in self._pending + [case] if case_key(c) not in self._model], []
            seen, uniq = set(), []
            for c in batch:
                if case_key(c) not in seen:
                    seen.add(case_key(c))
                    uniq.append(c)
            for i in range(0, len(uniq), 100):
                self.prepare(uniq[i:i + 100])
        return ["licref\t"]

    def model_out(self, case, outs):
        import c13
        lf_out, fmt_out = self._model[case_key(case)]
        if fmt_out in ("config-error", "duplicate"):
            res = {"status": fmt_out}
        elif fmt_out.startswith("exit="):
            d, res = c13.parse_model(fmt_out, ("J", "P", "L", "Q"))
            res["status"] = "ok"
            res["exit"] = [int(x) for x in d["exit"].split(",")]
            files = dec_list(d["S.files"])
            res["S"] = {"files": sorted(files), "total": int(d["S.total"]), "cop": int(d["S.cop"]), "lic": int(d["S.lic"]),
                        "compliant": d["S.compliant"] == "1", "used": sorted(set(dec_list(d["S.used"]))),
                        "len": {"files": len(files), "nocop": len(res["J"]["nocop"]), "nolic": len(res["J"]["nolic"])}}
        else:
            return "MODEL:" + fmt_out[:200]
        if lf_out == "usage-error":
            lf = {"status": "usage"}
        elif lf_out in ("config-error", "duplicate"):
            lf = {"status": lf_out}
        elif lf_out.startswith("ok|"):
            body, named = lf_out[3:].rsplit("|named=", 1)
            d, r = c13.parse_model(body, ("F",))
            lf = {"status": "ok", "exit": int(d["exit"]), "F": r["F"], "named": sorted(set(dec_list(named)))}
        else:
            return "MODEL:" + lf_out[:200]
        res["lintfile"] = lf
        return json.dumps(res, sort_keys=True)

    def agree(self, case, impl_out, model_out):
        if impl_out.startswith("EXC") or model_out.startswith("MODEL"):
            return False
        a, b = json.loads(impl_out), json.loads(model_out)
        if a["status"] != b["status"]:
            return False
        if a["status"] == "ok":
            for k in ("exit", "J", "P", "L", "Q", "S"):
                if a[k] != b[k]:
                    return False
        # (when the project does not load lint-file ends the same way, except that click rejects a missing path first)
        fa, fb = a["lintfile"], b["lintfile"]
        if fa["status"] != fb["status"]:
            return False
        if fa["status"] == "ok" and (fa["exit"] != fb["exit"] or fa["F"] != fb["F"] or fa.get("unparsed")):
            return False
        return True

    # -- oracle: generator ground truth
    def named(self, case):
        return sorted({p for p, form in case["args"]})

    def oracle(self, case, impl_out):
        import c13
        if impl_out.startswith("EXC"):
            return "crash: " + impl_out
        r = json.loads(impl_out)
        proj = case["proj"]
        exp = e2e.truth(proj)
        if r["status"] != exp["status"]:
            return "status: lint answers %s, the project is %s" % (r["status"], exp["status"])
        if r["status"] != "ok":
            return None
        # the four formats: each against the others (as in the `formats` stream) and against the ground-truth report
        why = c13.FormatsStream.oracle(None, {"lic": exp["lic_names"]}, json.dumps({k: r[k] for k in ("exit", "J", "P", "L", "Q", "S")}))
        if why:
            return why
        for c, key in (("missing", "missing"), ("readerr", "readerr"), ("nolic", "nolic"), ("nocop", "nocop")):
            want = sorted(map(list, exp[key])) if c == "missing" else sorted([p, ""] for p in exp[key])
            if r["J"][c] != want:
                return "lint-json-vs-truth: %s: json %s, the project has %s" % (c, r["J"][c][:4], want[:4])
        lf = r["lintfile"]
        exists = [e2e.node_at(proj["tree"], p) for p, form in case["args"]]
        gone = [p for (p, form), n in zip(case["args"], exists) if n is None or (n[0] == "l" and n[1] == "nowhere")]
        if gone:
            if lf["status"] != "usage":
                return "lint-file-missing-path: %r does not exist and lint-file ends with %s" % (gone, lf["status"])
            return None
        if lf["status"] != "ok":
            return "lint-file-status: %s for arguments that all exist inside the project" % lf["status"]
        if lf.get("unparsed"):
            return "unparsed-output: %r" % lf["unparsed"]
        named = set(self.named(case))
        for c in c13.ALLCATS:
            got = lf["F"][c]
            if c not in FCATS:
                if got:
                    return "lint-file-other-category: %s %s" % (c, got[:3])
                continue
            truth_c = sorted(map(list, exp[c])) if c == "missing" else sorted([p, ""] for p in exp[c])
            want = [x for x in truth_c if (x[1] if c == "missing" else x[0]) in named]
            if got != want:
                extra = [x for x in got if x not in want]
                if extra and all((x[1] if c == "missing" else x[0]) not in named for x in extra):
                    return "lint-file-reports-unnamed-file: %s: %s is not among the named entries %s (run in %r)" % (
                        c, extra[:3], sorted(named)[:6], case["cwd"] or ".")
                return "lint-file-differs: %s: lint-file %s; the named covered files have %s (arguments %s run in %r)" % (
                    c, got[:4], want[:4], self.arg_texts(case, "<root>")[:6], case["cwd"] or ".")
        anyf = any(lf["F"][c] for c in FCATS)
        if (lf["exit"] == 1) != anyf or lf["exit"] not in (0, 1):
            return "lint-file-exit: exit %d with %s output" % (lf["exit"], "some" if anyf else "no")
        return None

    def nontrivial(self, case, impl_out):
        return None if impl_out.startswith("EXC") else hashlib.sha1(impl_out.encode()).hexdigest()[:12]

    def show(self, case):
        d = e2e.E2EModelStream.show(None, case["proj"])
        d.update({"cwd": case["cwd"], "rootform": case["rootform"],
                  "args": self.arg_texts(case, "<root>")})
        return d
