"""Generators and the independent read-back oracle shared by C07 and C09: the option space of
`reuse annotate`, holders / expressions / contributors from a grammar, file names for every entry
of the two style tables, pre-existing file contents, custom templates, and the end-to-end runner
(real `reuse annotate` CLI, then real `reuse lint --json`).

Nothing in here looks at the Lean model.  What was *requested* is the generator's ground truth
(the expected notice is spelled out from the documented prefix table below, not taken from
`make_copyright_line`); what is *declared* is what the tool's own linter reads."""
import datetime
import json
import os
import re

import cli

# --------------------------------------------------------------------------
# documented option values (docs/man/reuse-annotate.rst): option value -> text in front of the notice
PREFIX_TEXT = {
    "spdx": "SPDX-FileCopyrightText:",
    "spdx-c": "SPDX-FileCopyrightText: (C)",
    "spdx-string-c": "SPDX-FileCopyrightText: Copyright (C)",
    "spdx-string": "SPDX-FileCopyrightText: Copyright",
    "spdx-string-symbol": "SPDX-FileCopyrightText: Copyright ©",
    "spdx-symbol": "SPDX-FileCopyrightText: ©",
    "string": "Copyright",
    "string-c": "Copyright (C)",
    "string-symbol": "Copyright ©",
    "symbol": "©",
}
PREFIXES = [None] + list(PREFIX_TEXT)

# holders the property quantifies over: names, organisations, punctuation, e-mail / URL, non-ASCII
HOLDERS = [
    "Jane Doe", "ACME Inc.", "Jane Doe <jane@example.com>", "Free Software Foundation Europe e.V. <https://fsfe.org>",
    "José Álvarez", "张三", "R&D, Ltd.", "O'Reilly & Sons", "Jane (maintainer)", "GmbH & Co. KG", "The FOO Project Developers",
    "Ünïcödé Ltd.", "Jane Doe, John Doe", "x/y contributors", "Jane #1", "Müller + Söhne", "Ιωάννης Π.", "Eric", "Doe; Jane",
    "a.b@c.d", "Team «Rocket»", "J", "Açaí — Coop", "\U0001F600 Smile Corp",
    # holders that begin like a copyright tag glued to more letters: holders like any other (no white space after the tag)
    "Copyrighted Works Ltd.", "©tudio Ñandú GmbH", "(C)ompany & Sons",
]
# holders that are themselves notices (kept verbatim by make_copyright_line)
NOTICE_HOLDERS = ["Copyright 2019 Other Org", "SPDX-FileCopyrightText: 2018 Third Party", "© 2017 Fifth Ltd."]
# holders whose tail is a comment terminator: the reader cuts them, so no header may be reported written
TRICKY_HOLDERS = ["Foo {Bar}", "ends with */", "arrow -->", "Team =#"]
LICENSES = ["MIT", "GPL-3.0-or-later", "Apache-2.0 OR MIT", "0BSD", "ISC", "GPL-2.0-only WITH Classpath-exception-2.0",
            "LicenseRef-custom", "MIT AND (ISC OR 0BSD)", "CC-BY-SA-4.0", "LicenseRef-A.b-1", "EUPL-1.2+", "mit"]
CONTRIBUTORS = ["Alice", "Bob <bob@example.com>", "Team Rocket", "Zoë Ø", "李四", "Dr. K. (review)", "Carol & Dave"]


def terminator_tails():
    """What the comment syntaxes of the live style table end a comment (or begin a comment line) with: a name that ends in one of
    them, set off by a blank, is a name like any other to its author - and the shape the reader is known to cut."""
    from reuse import comment
    tails = []
    for st in vars(comment).values():
        if isinstance(st, type) and issubclass(st, comment.CommentStyle):
            for part in (st.MULTI_LINE.end, st.MULTI_LINE.middle, st.SINGLE_LINE):
                if part and part.strip() and part.strip() not in tails and "\\" not in part:
                    tails.append(part.strip())
    return sorted(tails)


def tricky_names():
    """names whose tail is a comment terminator or a line marker of some style of the table (`Jane :)`, `The other 99 %`, `semi ;`)"""
    return TRICKY_HOLDERS + ["%s %s" % (n, t) for n, t in zip(["Jane", "The other 99", "semi", "Smile", "Team"] * 20, terminator_tails())]

SPLITLINES_BREAKS = "\n\r\x0b\x0c\x1c\x1d\x1e\x85  "


def expected_notice(holder, prefix, year):
    """The notice `reuse annotate --copyright HOLDER` is documented to write."""
    if re.match(r"^(SPDX-(File|Snippet)CopyrightText:|Copyright|©)\s", holder):
        return holder
    p = PREFIX_TEXT[prefix or "spdx"]
    return "%s %s %s" % (p, year, holder) if year else "%s %s" % (p, holder)


def year_text(year_opt):
    """year_opt: None (default: this year) | 'exclude' | [y] | [y1, y2, ...]"""
    if year_opt is None:
        return str(datetime.date.today().year)
    if year_opt == "exclude":
        return None
    if len(year_opt) == 1:
        return year_opt[0]
    return "%s - %s" % (min(year_opt), max(year_opt))


def norm_lic(x):
    """Licence expressions are compared as the SPDX parser normalises them."""
    from license_expression import Licensing
    return str(Licensing().parse(x))


# --------------------------------------------------------------------------
# custom templates (written to .reuse/templates/)
TEMPLATES = {
    "default": None,
    "adds-text": ("adds-text.jinja2", "Header of this file\n{% for c in copyright_lines %}\n{{ c }}\n{% endfor %}\n{% for c in contributor_lines %}\n"
                  "SPDX-FileContributor: {{ c }}\n{% endfor %}\n\n{% for e in spdx_expressions %}\nSPDX-License-Identifier: {{ e }}\n{% endfor %}\nEnd."),
    "drops-licences": ("drops-licences.jinja2", "{% for c in copyright_lines %}\n{{ c }}\n{% endfor %}\n"),
    "drops-copyright": ("drops-copyright.jinja2", "{% for e in spdx_expressions %}\nSPDX-License-Identifier: {{ e }}\n{% endfor %}\n"),
    "drops-both": ("drops-both.jinja2", "nothing to see\n"),
    "drops-first-licence": ("drops-first-licence.jinja2", "{% for c in copyright_lines %}\n{{ c }}\n{% endfor %}\n\n{% for e in spdx_expressions[1:] %}\n"
                            "SPDX-License-Identifier: {{ e }}\n{% endfor %}\n"),
    "drops-first-copyright": ("drops-first-copyright.jinja2", "{% for c in copyright_lines[1:] %}\n{{ c }}\n{% endfor %}\n\n{% for e in spdx_expressions %}\n"
                              "SPDX-License-Identifier: {{ e }}\n{% endfor %}\n"),
    "no-contributors": ("no-contributors.jinja2", "{% for c in copyright_lines %}\n{{ c }}\n{% endfor %}\n\n{% for e in spdx_expressions %}\n"
                        "SPDX-License-Identifier: {{ e }}\n{% endfor %}\n"),
    "commented": ("commented.commented.jinja2", "/*\n{% for c in copyright_lines %}\n * {{ c }}\n{% endfor %}\n{% for c in contributor_lines %}\n"
                  " * SPDX-FileContributor: {{ c }}\n{% endfor %}\n *\n{% for e in spdx_expressions %}\n * SPDX-License-Identifier: {{ e }}\n{% endfor %}\n */\n"),
    "garbles-licence": ("garbles-licence.jinja2", "{% for c in copyright_lines %}\n{{ c }}\n{% endfor %}\n\n{% for e in spdx_expressions %}\n"
                        "SPDX-License-Identifier:{{ e }}\n{% endfor %}\n"),
}
#: templates that render the contributors
RENDERS_CONTRIBUTORS = {"default", "adds-text", "commented"}
#: templates that render everything (so success is to be expected on well-formed input)
COMPLETE = {"default", "adds-text", "no-contributors", "commented"}


# --------------------------------------------------------------------------
# file names for the table entries

def table_entries():
    """[(kind, key, style class name)] for every entry of the two live tables."""
    from reuse import comment
    out = []
    for k, v in comment.EXTENSION_COMMENT_STYLE_MAP.items():
        out.append(("ext", k, v.__name__))
    for k, v in comment.FILENAME_COMMENT_STYLE_MAP.items():
        out.append(("name", k, v.__name__))
    return out


def name_for(kind, key, rng=None):
    """A file name that exercises this table entry."""
    if kind == "name":
        name = key
    else:
        name = "file" + key
    if rng is not None and rng.random() < 0.15:
        name = name.upper() if rng.random() < 0.5 else name.lower()
    return name


UNRECOGNISED = ["data.zzz", "noext", "weird.foo-bar", "archive.tar.unknownext"]

CODE_LINES = ["import os", "    indented = 1", "", "x = 1", "# own comment", "// c comment", "/* block */", "<!-- html -->", "int main() { return 0; }",
              "trailing   ", "\ttabbed", "-- sql", "{# jinja #}", "%% tex", "c fortran", "(* ml *)",
              "text with éü张", "REM batch", ";; lisp"]
OLD_HEADERS = [
    (["SPDX-FileCopyrightText: 2017 Prev Holder"], ["ISC"], []),
    ([], ["Zlib"], []),
    (["SPDX-FileCopyrightText: 2016 Someone", "Copyright (C) 2015 Elder & Co."], ["MIT OR ISC"], ["Helper"]),
    (["© 2014 先人"], ["BSD-3-Clause"], []),
    (["SPDX-FileCopyrightText: 2015 - 2019 Prev Holder"], [], ["Old Hand"]),
]


def style_class(name):
    from reuse import comment
    return getattr(comment, name)


def rand_body(rng, style_name=None, exotic=0.0):
    """Pre-existing content of a text file, and the header planted in it (generator's ground truth)
    as (cpr, lic, con) or None.  `exotic` is the probability of the documented boundary shapes."""
    lines = []
    planted = None
    first = None
    if rng.random() < 0.2:
        first = rng.choice(["#!/bin/sh", "<?xml version=\"1.0\"?>", "% !TEX root = main.tex", "cabal-version: 2.2", "#!/usr/bin/env julia"])
        lines.append(first)
    for _ in range(rng.randint(0, 6)):
        lines.append(rng.choice(CODE_LINES))
    st = style_class(style_name) if style_name else None
    if st is not None and st.__name__ not in ("UncommentableCommentStyle",) and rng.random() < 0.45:
        cpr, lic, con = rng.choice(OLD_HEADERS)
        hdr = "\n".join(cpr + ["SPDX-FileContributor: " + c for c in con] + ([""] if lic else []) + ["SPDX-License-Identifier: " + l for l in lic])
        try:
            block = st.create_comment(hdr, force_multi=rng.random() < 0.3 and st.can_handle_multi())
            pos = rng.choice([0, 0, 0, len(lines), rng.randint(0, len(lines))])
            if first is not None and pos == 0:
                pos = 1
            lines[pos:pos] = block.split("\n")
            planted = (cpr, lic, con)
        except Exception:
            pass
    if first is not None and rng.random() < exotic:
        # the line the header has to go behind (shebang, XML declaration, `% !TEX`, …) is itself longer than the window lint reads
        lines[0] = first + " " + rng.choice(["x", "ab ", "é"]) * rng.choice([2100, 4100, 9000])
    r = rng.random()
    if r < exotic / 3:
        lines.insert(0, "REUSE-IgnoreStart")          # unterminated ignore region in front
    elif r < 2 * exotic / 3:
        lines.append(rng.choice(["SPDX-License-Identifier: (((not an expression", "print('SPDX-License-Identifier: fake')"]))
    elif r < exotic:
        lines[0:0] = ["REUSE-IgnoreStart", "SPDX-License-Identifier: Ignored-1.0", "REUSE-IgnoreEnd"]
    text = "\n".join(lines)
    if text and rng.random() < 0.8:
        text += "\n"
    le = rng.choice(["\n", "\n", "\n", "\n", "\r\n", "\r"])
    if le != "\n":
        text = text.replace("\n", le)
    if rng.random() < 0.04:
        text = "﻿" + text
    return text, planted


BINARY_BODIES = [b"\x89PNG\r\n\x1a\n\x00\x00\x00\rIHDR\x00\x00", b"\x00\x01\x02\x03binary\xff\xfe", b"GIF89a\x01\x00\x01\x00\x80\x00\x00\xff\xff\xff\x00\x00\x00"]


def rand_request(rng, tricky=0.0):
    """(holders, licences, contributors): at least one of them non-empty."""
    pool = HOLDERS + (NOTICE_HOLDERS if rng.random() < 0.15 else [])
    if rng.random() < tricky:
        pool = pool + TRICKY_HOLDERS * 3
    cpr = rng.sample(pool, rng.choice([0, 1, 1, 1, 2, 3]))
    lic = rng.sample(LICENSES, rng.choice([0, 1, 1, 1, 2]))
    con = rng.sample(CONTRIBUTORS, rng.choice([0, 0, 0, 1, 2]))
    if tricky and rng.random() < tricky:
        # contributors are names like holders: the same terminator-tailed shapes, for every style of the table
        con = con[:1] + [rng.choice(tricky_names())]
    if not cpr and not lic and not con:
        cpr = [HOLDERS[0]]
    return cpr, lic, con


# --------------------------------------------------------------------------
# trees for `annotate --recursive DIR`

TREE_DIRS = ["src", "src/pkg", "src/pkg/deep/er", "docs", "my docs/sub dir", "données", "a.d", "lib.py", "x/y/z"]
SIBLINGS = [
    "",                                                                                       # an empty FILE.license
    "SPDX-FileCopyrightText: 2001 Sibling Holder\n\nSPDX-License-Identifier: Zlib\n",
    "SPDX-FileCopyrightText: 2019 Old Owner\n",
    "SPDX-License-Identifier: ISC\n",
    "SPDX-FileContributor: Sibling Hand\n",
    "SPDX-FileCopyrightText: 2001 Sibling Holder\nSPDX-FileContributor: Sibling Hand\n\nSPDX-License-Identifier: Zlib\n",
    "SPDX-FileCopyrightText: 2001 Sibling Holder\r\n\r\nSPDX-License-Identifier: Zlib\r\n",
]


def under(name, path):
    """is the file `name` (posix, relative to the project) below the directory argument `path`, or named by it?"""
    norm = os.path.normpath(path)
    if norm == ".":
        return True
    return os.path.normpath(name) == norm or os.path.normpath(name).startswith(norm + os.sep)


def rand_tree(rng, entries, n_files):
    """A project tree for one recursive run: commentable files of table types, binary files, files of unrecognised and of
    uncommentable types, in nested directories, each with or without an existing FILE.license (empty, or holding
    information).  Returns the list of file records (the `files` of an e2e case)."""
    dirs = rng.sample(TREE_DIRS, rng.randint(1, 3)) + [""]
    files, seen = [], set()
    for _ in range(n_files):
        d = rng.choice(dirs)
        r = rng.random()
        if r < 0.62:
            kind, key, style = rng.choice(entries)
            body, planted = rand_body(rng, style)
            f = {"name": name_for(kind, key), "body": body or "payload = 1\n", "entry": [kind, key, style], "kind": "table"}
        elif r < 0.80:
            kind, key, style = rng.choice(entries)
            f = {"name": name_for(kind, key), "hex": rng.choice(BINARY_BODIES).hex(), "entry": [kind, key, style], "kind": "binary"}
        else:
            body, planted = rand_body(rng, None)
            f = {"name": rng.choice(UNRECOGNISED), "body": body or "payload\n", "kind": "unrecognised"}
        f["name"] = (d + "/" if d else "") + f["name"]
        low = f["name"].lower()
        if low in seen or any(low.startswith(x + "/") or x.startswith(low + "/") for x in seen):
            continue
        seen.add(low)
        if rng.random() < 0.45:
            f["sib"] = rng.choice(SIBLINGS)
        files.append(f)
    return files


def tree_case(rng, entries, n_files=6):
    """One recursive e2e case: a tree, the path arguments (directories, spelled in several ways, now and then a file
    named directly next to them), the options, the request; every file record carries `scope` (generator's ground
    truth: is it named, or below a named directory?)."""
    files = rand_tree(rng, entries, n_files)
    top = sorted({f["name"].split("/")[0] for f in files if "/" in f["name"]})
    dirs = sorted({os.path.dirname(f["name"]) for f in files if "/" in f["name"]})
    r = rng.random()
    if r < 0.25 or not top:
        paths = ["."]
    elif r < 0.55:
        paths = rng.sample(top, rng.randint(1, len(top)))
    else:
        paths = rng.sample(dirs, rng.randint(1, min(2, len(dirs))))
    spell = rng.random()
    if spell < 0.15:
        paths = ["./" + p for p in paths]
    elif spell < 0.3:
        paths = [p + "/" for p in paths]
    elif spell < 0.4 and top:
        paths = [top[0] + "/../" + p for p in paths]
    loose = [f["name"] for f in files if not any(under(f["name"], p) for p in paths)]
    if loose and rng.random() < 0.3:
        paths.append(rng.choice(loose))          # a file named directly, next to the directories
    for f in files:
        f["scope"] = any(under(f["name"], p) for p in paths)
    o = {"prefix": rng.choice(PREFIXES), "year": rng.choice([None, "exclude", ["2019"], ["2015", "2021"]]),
         "tmpl": rng.choice(["default"] * 5 + ["adds-text", "no-contributors", "commented"]),
         "dot": rng.choice([None, "force", "fallback", "fallback", "skip", "skip"]),
         "no_replace": rng.random() < 0.1, "merge": rng.random() < 0.1, "skip_existing": rng.random() < 0.05}
    if all(f["kind"] != "unrecognised" and recognised_name(f["name"]) for f in files if f["scope"]) and rng.random() < 0.5:
        o["dot"] = None
    cpr, lic, con = rand_request(rng)
    return dict(o, files=files, paths=paths, recursive=True, cpr=cpr, lic=lic, con=con)


# --------------------------------------------------------------------------
# headers written by hand (for --merge-copyrights histories) and the ground truth of what a history has stated

#: year forms a person writes by hand and the reader knows: one year, a range with or without a blank on either side of the dash
HAND_YEARS = ["2009-2014", "2009 -2014", "2009- 2014", "2009 - 2014", "2012", "2012,", "1998", "2003-2004", "2016 - 2019", None]
#: holders none of which is part of another
PLAIN_HOLDERS = ["Jane Doe <jane@example.com>", "Example, Inc.", "José Álvarez", "张三", "R&D Ltd.", "The FOO Developers"]


def hand_notices(rng, holders):
    """1-4 notices [[prefix option, year text, holder], ...] as found in a header somebody wrote: several of one holder (as left by
    earlier runs without --merge-copyrights), compact and spaced ranges, single years, any of the ten prefixes."""
    out = []
    for _ in range(rng.choice([1, 2, 2, 3, 3, 4])):
        t = [rng.choice(list(PREFIX_TEXT)), rng.choice(HAND_YEARS), holders[0] if rng.random() < 0.75 else rng.choice(holders)]
        if t not in out:
            out.append(t)
    return out


def notice_line(prefix, year, holder):
    return "%s %s%s" % (PREFIX_TEXT[prefix], (year + " ") if year else "", holder)


def year_option(year_text_):
    """the --year / --exclude-year options that make annotate write this year text, or False when it cannot be said"""
    if year_text_ is None:
        return "exclude"
    if re.fullmatch(r"\d{4}", year_text_):
        return [year_text_]
    m = re.fullmatch(r"(\d{4}) - (\d{4})", year_text_)
    return [m.group(1), m.group(2)] if m else False


def years_of(text):
    return [int(x) for x in re.findall(r"(?<!\d)\d{4}(?!\d)", text or "")]


def uncovered_years(text, stated):
    """Reader-independent: `stated` = {holder: [years]} (generator's ground truth).  Every stated year must lie within the span
    of four-digit years of some line of `text` that names the holder.  Returns a description or None."""
    lines = re.split(r"\r\n|\r|\n", text)
    for h, ys in stated.items():
        named = [l for l in lines if h in l]
        if not named:
            return "holder %r is named nowhere" % (h,)
        for y in sorted(set(ys)):
            if not any(years_of(l) and min(years_of(l)) <= y <= max(years_of(l)) for l in named):
                return "year %d stated for %r is outside every line naming the holder: %r" % (y, h, named)
    return None


# --------------------------------------------------------------------------
# the end-to-end runner

def annotate_args(case):
    args = ["annotate"]
    for h in case.get("cpr", []):
        args += ["--copyright", h]
    for l in case.get("lic", []):
        args += ["--license", l]
    for c in case.get("con", []):
        args += ["--contributor", c]
    if case.get("prefix"):
        args += ["--copyright-prefix", case["prefix"]]
    y = case.get("year")
    if y == "exclude":
        args += ["--exclude-year"]
    elif y:
        for v in y:
            args += ["--year", v]
    if case.get("style"):
        args += ["--style", case["style"]]
    if case.get("line") == "single":
        args += ["--single-line"]
    elif case.get("line") == "multi":
        args += ["--multi-line"]
    dot = case.get("dot")
    if dot == "force":
        args += ["--force-dot-license"]
    elif dot == "fallback":
        args += ["--fallback-dot-license"]
    elif dot == "skip":
        args += ["--skip-unrecognised"]
    if case.get("tmpl", "default") != "default":
        args += ["--template", TEMPLATES[case["tmpl"]][0].split(".")[0]]
    for flag, opt in (("no_replace", "--no-replace"), ("merge", "--merge-copyrights"), ("skip_existing", "--skip-existing"), ("recursive", "--recursive")):
        if case.get(flag):
            args.append(opt)
    return args


def file_bytes(f):
    if "hex" in f:
        return bytes.fromhex(f["hex"])
    return f["body"].encode("utf-8")


def setup_project(root, case):
    tree = {}
    if case.get("tmpl", "default") != "default":
        fn, text = TEMPLATES[case["tmpl"]]
        tree[".reuse/templates/" + fn] = text
    for f in case["files"]:
        tree[f["name"]] = file_bytes(f)
        if f.get("sib") is not None:
            tree[f["name"] + ".license"] = f["sib"].encode("utf-8")
    cli.write_tree(root, tree)


def lint_reading(root, names):
    """{name: {"cpr": [...], "lic": [...], "con": [...], "linted": bool}} as the tool's linter reads the project.
    Copyright notices and licence expressions come from `reuse lint --json`; contributors (which the lint report
    does not show) from the same Project.reuse_info_of that lint uses."""
    from pathlib import Path
    from reuse.project import Project
    code, out_text, exc = cli.run_cli(["--no-multiprocessing", "lint", "--json"], root)
    js = None
    if exc is None:
        try:
            js = json.loads(out_text[out_text.index("{"):])
        except Exception as e:  # noqa
            exc = e
    out = {}
    by_path = {}
    if js is not None:
        for f in js.get("files", []):
            by_path[f["path"]] = f
    try:
        proj = Project.from_directory(Path(root))
    except Exception:
        proj = None
    for n in names:
        e = by_path.get(n)
        rec = {"linted": e is not None, "cpr": [], "lic": [], "con": []}
        if e is not None:
            rec["cpr"] = sorted({c["value"] for c in e["copyrights"]})
            rec["lic"] = sorted({x["value"] for x in e["spdx_expressions"]})
        if proj is not None and os.path.lexists(os.path.join(root, n)):
            try:
                infos = proj.reuse_info_of(Path(root) / n)
                rec["con"] = sorted({c for i in infos for c in i.contributor_lines})
                if e is None:
                    rec["cpr"] = sorted({c for i in infos for c in i.copyright_lines})
                    rec["lic"] = sorted({str(x) for i in infos for x in i.spdx_expressions})
            except Exception as ex:  # noqa
                rec["readerr"] = type(ex).__name__
        if not rec["cpr"] and not rec["lic"] and not rec["con"]:
            # The linter reports contributors only for files that also declare copyright or licensing.  What a file that
            # holds nothing but contributors declares is read from the place the linter would consult (FILE.license if
            # there is one, else FILE), with the same extraction on the same window.
            tgt = n + ".license" if os.path.isfile(os.path.join(root, n + ".license")) else n
            try:
                with open(os.path.join(root, tgt), "rb") as fp:
                    raw = lint_read_bytes(fp.read())
            except OSError:
                raw = None
            if raw is not None and not raw[0] and not raw[1] and raw[2]:
                rec["con"] = sorted(raw[2])
                rec["con_only"] = True
        out[n] = rec
    if exc is not None:
        out["__lint_exc__"] = repr(exc)[:200]
    return out


def snapshot_str(root):
    snap = cli.snapshot(root)
    return {k: (v[0], v[1].hex() if isinstance(v[1], bytes) else v[1]) for k, v in snap.items() if not k.startswith(".reuse")}


def run_in(root, case):
    """One real `reuse annotate` invocation inside the project at `root` (files are left as they are),
    framed by the linter's reading before and after.  Returns a JSON-able record."""
    names = [f["name"] for f in case["files"]]
    before_snap = snapshot_str(root)
    before = lint_reading(root, names)
    from binaryornot.check import is_binary
    binary = {n: bool(is_binary(os.path.join(root, n))) for n in names}
    rc, out, exc = cli.run_cli(annotate_args(case) + list(case.get("paths") or names), root)
    after_snap = snapshot_str(root)
    after = lint_reading(root, names)
    return {"rc": rc, "exc": None if exc is None else "%s: %s" % (type(exc).__name__, str(exc)[:160]),
            "before": before, "after": after, "binary": binary,
            "before_files": {k: v for k, v in before_snap.items() if any(k in (n, n + ".license") for n in names)},
            "changed": sorted(k for k in set(before_snap) | set(after_snap) if before_snap.get(k) != after_snap.get(k)),
            "after_files": {k: v for k, v in after_snap.items() if before_snap.get(k) != v}}


def run_once(case):
    """The same on a fresh scratch project."""
    with cli.scratch("rv-c07-") as root:
        setup_project(root, case)
        return run_in(root, case)


# --------------------------------------------------------------------------
# the property oracle (C07's statement; C09 uses the same per-step judgement)

def holders_years(notices):
    """{holder: set(years)} as the tool's reader splits the notices (used only under --merge-copyrights,
    where the notices themselves are rewritten)."""
    from reuse import extract
    out = {}
    for n in notices:
        for pat in extract._COPYRIGHT_PATTERNS:
            m = pat.search(n)
            if m is not None:
                ys = out.setdefault(m.groupdict()["statement"], set())
                ys.update(re.findall(r"\d{4}", m.groupdict()["year"] or ""))
                break
        else:
            out.setdefault(n, set())
    return out


def _covers(got_years, want_years):
    if not want_years:
        return True
    if not got_years:
        return False
    return min(got_years) <= min(want_years) and max(got_years) >= max(want_years)


def missing(want, got, merged):
    """What of `want` = (cpr, lic, con) is not in the reading `got` = (cpr, lic, con).  (The linter reads contributors
    only for files that declare copyright or licensing; lint_reading supplies those of a contributor-only file.)"""
    w_cpr, w_lic, w_con = want
    g_cpr, g_lic, g_con = got
    out = {}
    if merged:
        wh, gh = holders_years(w_cpr), holders_years(g_cpr)
        m = sorted(h for h in wh if h not in gh or not _covers(gh[h], wh[h]))
    else:
        m = sorted(w_cpr - g_cpr)
    if m:
        out["copyright"] = m
    if not w_lic <= g_lic:
        out["licence"] = sorted(w_lic - g_lic)
    if not w_con <= g_con:
        out["contributor"] = sorted(w_con - g_con)
    return out


def lint_read_bytes(data, window=True):
    """(cpr, lic, con) as reuse_info_of_file reads these bytes, or None when the linter drops the file."""
    from io import BytesIO
    from boolean.boolean import ParseError
    from license_expression import ExpressionError
    from reuse import extract
    text = extract.decoded_text_from_binary(BytesIO(data), size=extract._HEADER_BYTES if window else None)
    try:
        info = extract.extract_reuse_info(text)
    except (ExpressionError, ParseError):
        return None
    return set(info.copyright_lines), {norm_lic(str(x)) for x in info.spdx_expressions}, set(info.contributor_lines)


def _drop_open_ignore(data):
    text = data.decode("utf-8", errors="replace")
    out, pos = [], 0
    while True:
        i = text.find("REUSE-IgnoreStart", pos)
        if i < 0:
            break
        if "REUSE-IgnoreEnd" in text[i:]:
            out.append(text[pos:i + 1])
            pos = i + 1
            continue
        out.append(text[pos:i])
        pos = i + len("REUSE-IgnoreStart")
    out.append(text[pos:])
    return "".join(out).encode("utf-8")


def _drop_bad_expressions(data):
    from reuse import extract, _LICENSING
    text = data.decode("utf-8", errors="replace")
    keep = []
    for line in re.split(r"(?<=[\n\r])", text):
        bad = False
        for v in extract.find_spdx_tag(line, extract._LICENSE_IDENTIFIER_PATTERN):
            try:
                _LICENSING.parse(v)
            except Exception:
                bad = True
        if not bad:
            keep.append(line)
    return "".join(keep).encode("utf-8")


# --------------------------------------------------------------------------
# first-line markers: the committed copy of the style table's SHEBANGS (harness/props/first_line_markers.json).  The property
# lets "a shebang or XML-declaration-like first line" stay in front of the header; which first lines those are is written down
# there, by hand, from the unchanged style table.  A marker the live table has and this list lacks is an ordinary first line to
# the oracle: a header that lands behind such a line — and out of the linter's window — is a violation, not the known finding.

_MARKERS = None


def committed_markers(style_name):
    global _MARKERS
    if _MARKERS is None:
        with open(os.path.join(os.path.dirname(os.path.abspath(__file__)), "first_line_markers.json"), encoding="utf-8") as fp:
            _MARKERS = json.load(fp)["markers"]
    return _MARKERS.get(style_name or "", [])


def style_name_for(case, f, target):
    """class name of the comment style the header in `target` is written in (None: the .license pseudo style / unknown)"""
    from reuse import comment
    if target.endswith(".license") and not f["name"].endswith(".license"):
        return None
    st = comment.NAME_STYLE_MAP.get(case.get("style")) if case.get("style") else None
    if st is None:
        st = comment.get_comment_style(target)
    return None if st is None else st.__name__


WINDOW = 4096
#: a header that starts within this many bytes and holds less than this much information ends inside the window
HALF_WINDOW = 2048


def _leading_marker_bytes(before, markers):
    """bytes taken by the lines at the top of `before` (after a byte order mark) that start with one of `markers`"""
    text = before.decode("utf-8", errors="replace").lstrip("\ufeff")
    n = 0
    for line in re.findall(r"[^\r\n]*(?:\r\n|\r|\n)|[^\r\n]+", text):
        if any(line.startswith(m) for m in markers):
            n += len(line.encode("utf-8"))
        else:
            break
    return n


def beyond_window_is_known(before, want, markers):
    """The documented shapes of `c07-header-beyond-window` — the place the header belongs lies (partly) outside the 4096 bytes
    the linter reads: (a) the first-line declarations the file starts with (committed markers of its style) and the information
    the header must hold (30 bytes of comment frame per line allowed for) together take half the window or more; (b) the file
    already declared REUSE information, none of it within the first half of the window (the header is replaced where it
    stands)."""
    if before is None:
        return True
    info = sum(len(x.encode("utf-8")) + 30 for part in want for x in part)
    if _leading_marker_bytes(before, markers) + info >= HALF_WINDOW:
        return True
    whole = lint_read_bytes(before, window=False)
    if whole is None:
        return True
    if any(whole):
        top = lint_read_bytes(before[:HALF_WINDOW])
        if top is None or not any(top):
            return True
    return False


def obstacle(data, want, merged, before=None, markers=(), holds=None):
    """Key of the known-finding shape this unreadable file belongs to: the linter does not read `want` from `data`,
    but does once exactly one documented obstacle is taken away.  `before`: the bytes of the file before the run
    (None: not known — any header beyond the window counts as the known shape); `holds`: everything the header holds
    (requested and previously declared; default: `want`)."""
    got = lint_read_bytes(data)
    if got is not None and not missing(want, got, merged):
        return None
    got = lint_read_bytes(data, window=False)
    if got is not None and not missing(want, got, merged):
        return "c07-header-beyond-window" if beyond_window_is_known(before, holds or want, markers) else None
    for key, read in OBSTACLES:
        got = read(data)
        if got is not None and not missing(want, got, merged):
            return key
    return None


#: known-finding shapes: the single obstacle whose removal makes the written file readable
OBSTACLES = [
    ("c07-open-ignore-region", lambda d: lint_read_bytes(_drop_open_ignore(d))),
    ("c07-unparseable-expression-elsewhere", lambda d: lint_read_bytes(_drop_bad_expressions(d))),
]


def content_binary(name, data):
    """binaryornot's verdict on a file of this name holding these bytes (what `is_binary` answers: extension list, then the
    first 512 bytes)"""
    from binaryornot.helpers import has_binary_extension, is_binary_string
    return bool(has_binary_extension(name) or is_binary_string(data[:512]))


def sniffer_flip(rec, target, data, want, merged):
    """Known-finding shape `c07-sniffer-verdict-flips`: binaryornot called `target` text before the run (or it did not exist),
    annotate therefore wrote the header into it, and binaryornot calls the result binary — the linter, asking the same
    library, does not open the file although the header is there to be read."""
    had = rec.get("before_files", {}).get(target)
    if had is not None and had[0] == "file" and content_binary(target, bytes.fromhex(had[1])):
        return False
    if not content_binary(target, data):
        return False
    got = lint_read_bytes(data)
    return got is not None and not missing(want, got, merged)


def recognised_name(name):
    """Does the name select a comment style as documented: by the file name, else by the extension (= the last suffix)?
    (An entry such as '.nim.cfg' of the extension table is not an extension in that sense: 'x.nim.cfg' has the extension
    '.cfg'; which names resolve to which entry is the matter of C07's `styleof` stream.)"""
    from reuse import comment
    base = os.path.basename(name).lower()
    if base in {k.lower() for k in comment.FILENAME_COMMENT_STYLE_MAP}:
        return True
    return os.path.splitext(base)[1] in {k.lower() for k in comment.EXTENSION_COMMENT_STYLE_MAP}


def judge_file(case, f, rec, single_rc):
    """The property, for one file of one run.  `single_rc` is the exit status that belongs to this file.
    Returns None or 'kind: description' (with ' {shape=KEY}' appended when the failing input has the shape of a
    documented finding)."""
    name = f["name"]
    mine = (name, name + ".license")
    target_changed = [k for k in rec["changed"] if k in mine]
    other_changed = [k for k in rec["changed"] if k not in mine and not any(k in (g["name"], g["name"] + ".license") for g in case["files"])]
    if other_changed:
        return "wrote-elsewhere: %r changed" % (other_changed,)
    before, after = rec["before"][name], rec["after"][name]
    # a binary file, a file of an uncommentable type and any file under --force-dot-license is never written into
    must_dot = f.get("kind") == "binary" or (f.get("entry") or ["", "", ""])[2] == "UncommentableCommentStyle" or case.get("dot") == "force"
    if must_dot and name in target_changed and not name.endswith(".license"):
        return "wrote-into-file: %r itself was modified although the header belongs in %r" % (name, name + ".license")
    if single_rc != 0:
        if target_changed:
            return "failed-but-wrote: exit %s yet %r changed" % (single_rc, target_changed)
        return None
    tmpl = case.get("tmpl", "default")
    merged = bool(case.get("merge"))
    year = year_text(case.get("year"))
    want = ({expected_notice(h, case.get("prefix"), year) for h in case.get("cpr", [])}, {norm_lic(l) for l in case.get("lic", [])},
            set(case.get("con", [])) if tmpl in RENDERS_CONTRIBUTORS else set())
    got = (set(after["cpr"]), {norm_lic(x) for x in after["lic"]}, set(after["con"]))
    if not target_changed:
        # exit 0, nothing written: a documented skip, or everything requested was there already
        if case.get("skip_existing"):
            # --skip-existing: "files that already contain REUSE information" (any tag, contributors included, anywhere in the file)
            tgt = name + ".license" if name + ".license" in rec.get("before_files", {}) else name
            had = rec.get("before_files", {}).get(tgt)
            info = lint_read_bytes(bytes.fromhex(had[1]), window=False) if had and had[0] == "file" else None
            if info is not None and any(info):
                return None
        if case.get("dot") == "skip" and (f.get("kind") == "unrecognised" or not recognised_name(name)) and not case.get("style"):
            return None
        if not missing(want, got, merged):
            return None
        return "success-without-writing: exit 0, nothing written, requested information %r not declared" % (missing(want, got, merged),)
    # what the file the header lives in already declared
    fresh_sibling = name + ".license" in target_changed and f.get("sib") is None
    prev = ({}, {}, {}) if fresh_sibling else (set(before["cpr"]), {norm_lic(x) for x in before["lic"]},
                                                 set(before["con"]) if tmpl in RENDERS_CONTRIBUTORS else set())
    prev = tuple(set(x) for x in prev)
    target = name + ".license" if name + ".license" in rec["after_files"] or (name + ".license" in target_changed) else name
    data = bytes.fromhex(rec["after_files"][target][1]) if target in rec["after_files"] else b""

    had = rec.get("before_files", {}).get(target)
    before_bytes = bytes.fromhex(had[1]) if had is not None and had[0] == "file" else b""

    def shape(w):
        k = obstacle(data, w, merged, before=before_bytes, markers=committed_markers(style_name_for(case, f, target)),
                     holds=tuple(set(a) | set(b) for a, b in zip(want, prev)))
        if k is None and sniffer_flip(rec, target, data, w, merged):
            k = "c07-sniffer-verdict-flips"
        return " {shape=%s}" % k if k else ""
    m = missing(want, got, merged)
    if m:
        return "readback-%s: exit 0 but requested %r is not read back; linter reads %r%s" % (
            sorted(m)[0], m, {"cpr": sorted(got[0]), "lic": sorted(got[1]), "con": sorted(got[2])}, shape(want))
    m = missing(prev, got, merged)
    if m:
        return "dropped-%s: %r was declared before and is gone; linter reads %r%s" % (
            sorted(m)[0], m, {"cpr": sorted(got[0]), "lic": sorted(got[1]), "con": sorted(got[2])}, shape(prev))
    # "precisely": nothing is invented.  What stood in the file before the run — also beyond the 4096 bytes the linter reads, e.g. an
    # own header below a very long first line that the new header (now at the top) took over — was declared by the file.
    stood = (lint_read_bytes(before_bytes, window=False) if before_bytes else None) or (set(), set(), set())
    if not merged and not got[0] <= (prev[0] | want[0] | stood[0]):
        return "invented-copyright: %r is read back but was neither declared nor requested" % (sorted(got[0] - prev[0] - want[0] - stood[0]),)
    if not got[1] <= (prev[1] | want[1] | stood[1]):
        return "invented-licence: %r is read back but was neither declared nor requested" % (sorted(got[1] - prev[1] - want[1] - stood[1]),)
    return None


def shape_of(failure):
    m = re.search(r"\{shape=([a-z0-9-]+)\}", failure)
    return m.group(1) if m else None
