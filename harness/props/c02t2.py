"""C02, the boundary "value empty" made a judged case: a licence tag *followed by blanks and nothing else* (`# SPDX-License-Identifier: `,
`/* SPDX-License-Identifier: */`, `<!-- SPDX-License-Identifier:\t-->`).

Without the blank the tag pattern does not match at all (`TAG[ \\t]+`); with it the pattern matches and the value is the empty text.
"A tag line is recognised with exactly the value its author wrote": the author wrote none, so the line declares nothing — in
particular not the licence `None` (the library's parser returns None for an empty text, which the reader used to keep as if it were
an expression: fixes/empty-licence-tag-declares-nothing.diff).  The other tags of the file are read as if the line were not there.

`blankvalues` — texts of 1-5 lines in 10 decorations: complete licence / copyright / contributor tags mixed with licence tags whose
                value is empty, read with reuse_info_of_file; the model (`infofile`: Model.infoOfFile) is compared; oracle = the planted
                complete tags, nothing else.
"""
from core import Stream
import c02 as base

DECOR = [("# ", ""), ("// ", ""), ("", ""), (" * ", ""), ("/* ", " */"), ("<!-- ", " -->"), ("{# ", " #}"), ("(* ", " *)"), ("dnl ", ""), ("\t", "")]
BLANKS = [" ", "  ", "\t", " \t "]
LICS = ["MIT", "0BSD", "GPL-3.0-or-later", "Apache-2.0 OR MIT"]


class BlankValueStream(Stream):
    name = "blankvalues"
    rule = ("texts of 1-5 lines x 10 decorations (single-line markers, inline multi-line comments, bare text): complete licence, copyright "
            "and contributor tags mixed with 1-2 licence tags whose value is empty (blanks / tabs behind the colon, then the terminator or "
            "the end of the line), in every order, with LF or CRLF; reuse_info_of_file vs Model.infoOfFile; oracle: exactly the planted "
            "complete tags are read (a file with no copyright and no licence yields nothing)")

    def cases(self, tier, rng):
        n = 2000 if tier == "thorough" else 250
        for _ in range(n):
            pre, post = rng.choice(DECOR)
            lines, L, C, N = [], [], [], []
            for _ in range(rng.randint(0, 3)):
                r = rng.random()
                if r < 0.4:
                    v = rng.choice(LICS)
                    lines.append(pre + "SPDX-License-Identifier: " + v + post)
                    L.append(v)
                elif r < 0.75:
                    v = "SPDX-FileCopyrightText: %d Holder %d" % (rng.randint(1990, 2024), rng.randint(0, 9))
                    lines.append(pre + v + post)
                    C.append(v)
                else:
                    v = "Contributor %d" % rng.randint(0, 9)
                    lines.append(pre + "SPDX-FileContributor: " + v + post)
                    N.append(v)
            for _ in range(rng.randint(1, 2)):
                b = rng.choice(BLANKS)
                line = pre + "SPDX-License-Identifier:" + b + (post.lstrip(" ") if post and rng.random() < 0.5 else post)
                lines.insert(rng.randint(0, len(lines)), line)
            if rng.random() < 0.3:
                lines.append("code()")
            text = "\n".join(lines) + ("\n" if rng.random() < 0.8 else "")
            if rng.random() < 0.2:
                text = text.replace("\n", "\r\n")
            yield {"text": text, "L": sorted(set(L)), "C": sorted(set(C)), "N": sorted(set(N))}

    def impl(self, case):
        return base.impl_info_of_bytes(case["text"].encode("utf-8"))

    def model_lines(self, case):
        data = case["text"].encode("utf-8")
        return ["infofile\t%s\t%s" % (base.enc_bytes(data), base.enc_list(base.bad_values(data)))]

    def model_out(self, case, outs):
        return base.model_info_out(outs[0])

    def oracle(self, case, impl_out):
        if impl_out.startswith("EXC"):
            return "crash: " + impl_out
        want = base.canon([base.parse_expr(l) for l in case["L"]], case["C"], case["N"]) if (case["L"] or case["C"]) else base.canon([], [], [])
        if impl_out != want:
            return "blank-value: %r read as %s, planted %s" % (case["text"], base.show_canon(impl_out), base.show_canon(want))
        return None

    def nontrivial(self, case, impl_out):
        return (impl_out, case["text"][:12])

    def show(self, case):
        return case


STREAMS = [BlankValueStream()]
