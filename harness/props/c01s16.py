"""C01, one more region of the input space: licence tags whose identifier ENDS LIKE ITS COMMENT LINE BEGINS.

`C SPDX-License-Identifier: ISC` (fixed-form Fortran: `c` / `C` in column one), `dnl … LicenseRef-Randlnd` (m4),
`REM … LicenseRef-SUMMER` (batch files), `-- … LicenseRef-foo--` (Haskell, SQL, Lua, AppleScript), `.. … LicenseRef-etc..` (reST):
comment markers made of characters an SPDX identifier may consist of (letters, digits, `.`, `-`), in front of identifiers — SPDX ids
of the bundled list and LicenseRef- — that end in the mirror image of the marker (also the marker unreversed, doubled, its first /
last character, the other capitalisation).  The markers are those of the tool's live style table (single-line prefix, middle of the
multi-line form) that are made of identifier characters, and their upper- / lower-case spellings.  C01's trees write headers in seven
styles (`#`, ` * `, `//`, html, none, `%`, `--`) with identifiers drawn independently of the style.

Projects of 2-5 such files (1-2 licence tags each: a single identifier, `A OR B`, `A AND B` with the mirroring identifier last;
plain, indented, or CRLF lines), every identifier used provided in LICENSES/, a control file in `#` style; real
`reuse lint --json`.  Oracle = clauses (a)-(d) on a project that is compliant by construction: exit 0, compliant, every category
empty, the used licences are exactly the identifiers written, and every file's expressions are read back exactly as written.
Oracle only.
"""
import json
import re

from core import Stream
import cli
import reports_common as rc
import c20  # noqa: F401  (first: c20 and c20s15 import one another)
from c20s15 import style_table, tails_for

ID_CHARS = re.compile(r"[A-Za-z0-9.-]+\Z")
REF_BASE = ["LicenseRef-Acme-In", "LicenseRef-basi", "LicenseRef-x", "LicenseRef-Team.C", "LicenseRef-3rd-party-1"]
PLAIN = ["MIT", "Apache-2.0", "GPL-2.0-or-later", "LicenseRef-plain"]
EXT = {"f": ".f", "f90": ".f90", "m4": ".m4", "bat": ".bat", "haskell": ".hs", "applescript": ".applescript", "rst": ".rst"}


def id_leads():
    """[(style name, line opening)] — openings of the live style table made of identifier characters, in both cases"""
    out = []
    for name, single, multi in style_table():
        for lead in (single, multi[1] if multi else None):
            if lead and lead.strip() and ID_CHARS.match(lead.strip()):
                core = lead.strip()
                for l in dict.fromkeys([core, core.upper(), core.lower()]):
                    out.append((name, l))
    return out


def ids_for(lead, rng, k):
    """current SPDX ids and LicenseRef- identifiers that end like the line begins"""
    spdx = sorted(i for i, dep in rc.spdx_tables()[0].items() if not dep)
    out = []
    for t in tails_for(lead):
        if not ID_CHARS.match(t):
            continue
        hits = [i for i in spdx if i.endswith(t) and i != t]
        rng.shuffle(hits)
        out += hits[:2]
        out += [b + t for b in rng.sample(REF_BASE, 2)]
    first = out[:1] if rng.random() < 0.5 else []
    rng.shuffle(out)
    return list(dict.fromkeys(first + out))[:k]


class MirrorLicenceStream(Stream):
    name = "mirrorlicence"
    rule = ("compliant-by-construction projects of 2-5 files whose headers are written in comment styles whose line opening consists of "
            "identifier characters (live style table: `c`, `dnl`, `REM`, `--`, `..`; also `C`, `DNL`, `rem`), each with a notice and 1-2 "
            "`SPDX-License-Identifier:` tags whose last identifier (SPDX id of the bundled list or LicenseRef-) ENDS IN THE MIRROR IMAGE of "
            "the opening (also unreversed, doubled, first / last character, other case) — alone, or last in `A OR B` / `A AND B`; lines "
            "plain, indented or CRLF; plus a `#` control file; every identifier used has its text in LICENSES/; real `reuse lint --json`; "
            "oracle: exit 0, compliant, no missing / unused / bad / deprecated licences, nothing without extension, copyright, licence, "
            "no read errors, used licences = the identifiers written, each file's expressions read back as written; "
            "non-trivial = distinct (openings, last identifiers)")

    def cases(self, tier, rng):
        leads = id_leads()
        n = 240 if tier == "thorough" else 30
        for k in range(n):
            files = []
            picks = [leads[(k + j) % len(leads)] if j == 0 else rng.choice(leads) for j in range(rng.randint(1, 4))]
            for j, (style, lead) in enumerate(picks):
                ids = ids_for(lead, rng, rng.randint(1, 2))
                exprs = []
                for i in ids:
                    shape = rng.choice(["one", "one", "or", "and"])
                    other = rng.choice(PLAIN)
                    exprs.append(i if shape == "one" or other == i else "%s %s %s" % (other, shape.upper(), i))
                files.append({"name": "src/m%d%s" % (j, EXT.get(style, ".txt")), "lead": lead, "exprs": exprs, "last": ids,
                              "wrap": rng.choice(["%s ", "%s ", "%s ", "%s  ", "  %s ", "%s\t"]), "eol": rng.choice(["\n", "\n", "\n", "\r\n"])})
            files.append({"name": "src/control.py", "lead": "#", "exprs": [rng.choice(PLAIN)], "last": [], "wrap": "%s ", "eol": "\n"})
            yield {"files": files}

    def text(self, f):
        o = f["wrap"] % f["lead"]
        lines = [o + "SPDX-FileCopyrightText: 2021 Jane Doe <jane@example.com>"] + [o + "SPDX-License-Identifier: " + e for e in f["exprs"]]
        return "".join(l + f["eol"] for l in lines) + f["eol"] + "payload" + f["eol"]

    def ids_of(self, e):
        return [w for w in e.split(" ") if w not in ("OR", "AND")]

    def tree(self, case):
        tree = {f["name"]: self.text(f) for f in case["files"]}
        for f in case["files"]:
            for e in f["exprs"]:
                for i in self.ids_of(e):
                    tree["LICENSES/%s.txt" % i] = "text of %s\n" % i
        return tree

    def impl(self, case):
        with cli.scratch("rv-c01m-") as root:
            cli.write_tree(root, self.tree(case))
            code, out, exc = cli.run_cli(["--no-multiprocessing", "lint", "--json"], root)
            if exc is not None:
                return "EXC:%s:%s" % (type(exc).__name__, str(exc)[:120])
            try:
                rep, _ = json.JSONDecoder().raw_decode(out[out.index("{"):])
            except Exception:       # noqa
                return "EXC:output:%s" % out[:120]
            got = rc.canon_json(root, code, rep)
            got["exprs"] = {rc.rel(root, e["path"]): sorted(x["value"] for x in e["spdx_expressions"]) for e in rep["files"]}
        return json.dumps(got, sort_keys=True)

    def oracle(self, case, impl_out):
        if impl_out.startswith("EXC"):
            return "crash: " + impl_out
        got = json.loads(impl_out)
        written = {f["name"]: sorted(set(f["exprs"])) for f in case["files"]}
        show = "; ".join("%s: %r" % (f["name"], [(f["wrap"] % f["lead"]) + "SPDX-License-Identifier: " + e for e in f["exprs"]]) for f in case["files"])
        misread = ["%s carries %r behind the line opening %r, lint reads %r" % (f["name"], written[f["name"]], f["lead"], got["exprs"].get(f["name"]))
                   for f in case["files"] if got["exprs"].get(f["name"]) != written[f["name"]]]
        note = (" [%s]" % "; ".join(misread)) if misread else ""
        for cat in ("missing", "unused", "bad", "deprecated", "noext", "nocop", "nolic", "readerr"):
            if got[cat]:
                return "compliant-project-reported: %s = %r (exit %d) for the compliant project {%s}" % (cat, got[cat], got["exit"], show) + note
        if got["exit"] != 0 or not got["compliant"]:
            return "verdict: exit %d, compliant=%s for the compliant project {%s}" % (got["exit"], got["compliant"], show) + note
        for f in case["files"]:
            seen = got["exprs"].get(f["name"])
            if seen != written[f["name"]]:
                return "misread-licence: %s carries %r behind the line opening %r; lint reads %r" % (f["name"], written[f["name"]], f["lead"], seen)
        used = sorted({i for f in case["files"] for e in f["exprs"] for i in self.ids_of(e)})
        if got["used"] != used:
            return "used-licences: lint names %r, the files use %r" % (got["used"], used)
        return None

    def nontrivial(self, case, impl_out):
        if impl_out.startswith("EXC"):
            return None
        return tuple((f["lead"], tuple(f["last"])) for f in case["files"])

    def show(self, case):
        return {"tree": self.tree(case)}


STREAMS = [MirrorLicenceStream()]
