"""C10 — re-running annotate with the same arguments changes nothing.

Streams: `theorem` (add_header_to_file twice / five times, tied to C10_idem_text_partial through the driver's evaluation
of the theorem's hypotheses), `commentat` / `createcomment` (the shared correspondence of the two functions idempotence
rests on), `styletable` (Spec.StyleIdem per style against the real functions), `cli` (the real command line over the
extension / file-name tables), `seeds` (--merge-copyrights in child interpreters under several hash seeds).
The oracle is the property text itself: the bytes after the second run equal the bytes after the first, and after five
runs the requested notice stands in the file exactly once.
"""
import io
import json
import os
import subprocess
import sys

from core import Property, Stream, enc, dec, enc_list, dec_list, run_driver, REPO
import cli
import annotcorr
from annotcorr import all_styles, style_by_name, TEMPLATES, COMMENTED, jinja_template
import c08

RUNS = 5

# bodies free of REUSE tags: {kind: builder(style) -> text}


def one_comment(st, s):
    if st.SINGLE_LINE:
        return st.SINGLE_LINE + st.INDENT_AFTER_SINGLE + s
    return st.MULTI_LINE.start + " " + s + " " + st.MULTI_LINE.end


def shebang_of(st):
    return (st.SHEBANGS[0] if st.SHEBANGS else "#!") + " first-line"


BODIES = {
    "empty": lambda st: "",
    "code": lambda st: "x = 1\n    y = 2\n",
    "code-nofinal": lambda st: "x = 1\n\ny = 2",
    "blank-first": lambda st: "\n\nx = 1\n",
    "comment-first": lambda st: one_comment(st, "just a note") + "\nx = 1\n",
    "comment-block": lambda st: (st.create_comment("a note\nof two lines") if (st.SINGLE_LINE or st.MULTI_LINE.start) else "note") + "\nx = 1\n",
    "shebang": lambda st: shebang_of(st) + "\nx = 1\n",
    "shebang-comment": lambda st: shebang_of(st) + "\n" + one_comment(st, "note") + "\nx = 1\n",
    "shebang-only": lambda st: shebang_of(st),
    "crlf": lambda st: "x = 1\r\ny = 2\r\n",
    "cr-comment": lambda st: one_comment(st, "note") + "\rx = 1\r",
    "bom": lambda st: "﻿x = 1\n",
    "terminator-line": lambda st: (st.MULTI_LINE.end or "=#") + "\nx = 1\n",
    "opener-line": lambda st: (st.MULTI_LINE.start or "#=") + " not closed\nx = 1\n",
}

INFOS = [
    (["SPDX-FileCopyrightText: 2020 Jane Doe"], ["MIT"], []),
    (["SPDX-FileCopyrightText: 2020 Jane Doe", "SPDX-FileCopyrightText: 2021 ACME Inc. <legal@acme.example>"], ["GPL-3.0-or-later", "MIT"], ["Alice"]),
    (["© 2018 张三"], [], []),
    ([], ["Apache-2.0 OR MIT"], ["Bob <bob@example.com>", "Alice"]),
    (["Copyright (C) 2019 José Álvarez"], ["0BSD"], []),
    (["SPDX-FileCopyrightText: 2020 Jane Doe", "SPDX-FileCopyrightText: 2022 Jane Doe"], ["MIT"], []),
    # the remaining non-empty subsets of {--copyright, --license, --contributor}: each of them alone is a valid request
    ([], [], ["Alice"]),
    ([], [], ["Bob <bob@example.com>", "Alice", "张三"]),
    ([], ["MIT"], []),
    (["SPDX-FileCopyrightText: 2020 Jane Doe"], [], ["Alice"]),
]
#: indices of the requests that hold contributors only
CONTRIBUTOR_ONLY = [i for i, (c, l, n) in enumerate(INFOS) if not c and not l]


def count_blocks(text, case):
    """how often does the requested notice stand in the text (1 = one header block)"""
    probe = (["SPDX-License-Identifier: " + l for l in case["lic"]] + case["cpr"] + ["SPDX-FileContributor: " + c for c in case["con"]])[0]
    return text.count(probe)


def run_n(case, n=RUNS):
    """add_header_to_file n times on one scratch file -> list of outcomes ('W:<text>' / 'F:...' / 'S')"""
    from reuse import ReuseInfo, _LICENSING
    from reuse._annotate import add_header_to_file
    st = style_by_name(case["s"])
    outs = []
    with cli.scratch("rv-c10-") as root:
        path = os.path.join(root, "f" + case.get("ext", ".txt"))
        with open(path, "w", encoding="utf-8", newline="") as fp:
            fp.write(case["t"])
        target = path
        kw = dict(style=st.SHORTHAND or None)
        if st.__name__ == "EmptyCommentStyle":
            kw = dict(style=None, fallback_dot_license=True)
            target = path + ".license"
        for _ in range(n):
            info = ReuseInfo(spdx_expressions={_LICENSING.parse(x) for x in case["lic"]}, copyright_lines=set(case["cpr"]),
                             contributor_lines=set(case["con"]))
            out = io.StringIO()
            rc = add_header_to_file(path, info, jinja_template(case["tmpl"]), case["tmpl"] in COMMENTED, force_multi=case["f"][1] == "1",
                                    skip_existing=False, merge_copyrights=case["f"][2] == "1", replace=True, out=out, **kw)
            if rc:
                outs.append("F:" + ("commentCreate" if "Could not create comment" in out.getvalue() else "missingInfo"))
            else:
                with open(target, "r", encoding="utf-8", newline="") as fp:
                    outs.append("W:" + fp.read())
            if st.__name__ == "EmptyCommentStyle":
                with open(path, "r", encoding="utf-8", newline="") as fp:
                    if fp.read() != case["t"]:
                        outs.append("TOUCHED-ORIGINAL")
    return outs


def judge_runs(outs, case):
    """the property on a list of successive outcomes"""
    first = outs[0]
    if not first.startswith("W:"):
        # nothing was written: every further run must fail the same way
        bad = [o for o in outs if o != first]
        return ("unstable-failure: runs give %r" % outs[:3]) if bad else None
    for i, o in enumerate(outs[1:], 2):
        if o != first:
            return "rerun-changes-file: run %d wrote %r, run 1 wrote %r" % (i, o[2:][:160], first[2:][:160])
    n = count_blocks(first[2:], case)
    if n != 1:
        return "header-count: the requested notice stands %d times in the file after %d runs" % (n, len(outs))
    return None


class TheoremStream(Stream):
    """add_header_to_file twice and five times; the driver evaluates the hypotheses of C10_idem_text_partial (firstRunParts is
    defined, Spec.secondRunOK, no carriage return, no byte order mark) — where they hold the implementation must have
    written, twice, exactly the text the theorem names."""
    name = "theorem"
    rule = ("add_header_to_file run 5 times on a scratch file: every style of the table (and the .license pseudo style) x {default, "
            "--multi-line where supported} x 14 bodies free of REUSE tags (empty, code, blank lines first, same-style comment or comment "
            "block where the header goes, shebang, shebang + comment, CRLF, CR, byte order mark, stray terminator / opener line) x 10 "
            "requests (every non-empty subset of {copyright, licence, contributor}, contributor-only in every cell; contributors whose tail is a comment terminator or line marker of some style) x {default template, text-adding template, pre-commented template on C-like styles} x {plain, --merge-copyrights}; "
            "oracle: bytes after run 2..5 = bytes after run 1, the requested notice stands exactly once; the driver evaluates the "
            "hypotheses of C10_idem_text_partial per case and, where they hold, both runs must equal the theorem's text; "
            "non-trivial = hypotheses hold and a header was written")

    def cases(self, tier, rng):
        out = []
        for st in all_styles():
            if st.__name__ == "UncommentableCommentStyle":
                continue
            modes = ["0"] + (["1"] if st.can_handle_multi() else [])
            for m in modes:
                kinds = list(BODIES)
                if tier != "thorough":
                    kinds = ["empty", "comment-first", "shebang"] + rng.sample(kinds, 4)
                for kind in kinds:
                    infos = INFOS if tier == "thorough" else [INFOS[0], rng.choice(INFOS[1:]), INFOS[rng.choice(CONTRIBUTOR_ONLY)]]
                    for cpr, lic, con in infos:
                        tmpl = "default"
                        r = rng.random()
                        if r < 0.15:
                            tmpl = "adds-text"
                        elif r < 0.25 and st.MULTI_LINE.start == "/*":
                            tmpl = "commented"
                        merge = "1" if rng.random() < 0.2 else "0"
                        case = {"s": st.__name__, "f": ("1" if tmpl in COMMENTED else "0") + m + merge + "10", "tmpl": tmpl,
                                "cpr": cpr, "lic": lic, "con": con, "t": BODIES[kind](st), "kind": kind}
                        if st.__name__ == "EmptyCommentStyle":
                            case["ext"] = ".zzz"
                        out.append(case)
                # contributors are names like holders: names whose tail is a comment terminator or a line marker of some style of the
                # live table (annotgen.tricky_names), alone and next to other information — whatever the first run does with such a
                # request (write it or refuse it), the second run must do the same and leave the same bytes
                import annotgen
                names = annotgen.tricky_names()
                for name in (names if tier == "thorough" else rng.sample(names, 3)):
                    cpr, lic, con = rng.choice([([], [], [name]), (INFOS[0][0], INFOS[0][1], [name]), (INFOS[0][0], [], ["Alice", name])])
                    kind = rng.choice(["empty", "code", "comment-first", "shebang"])
                    case = {"s": st.__name__, "f": "0" + m + "010", "tmpl": "default", "cpr": cpr, "lic": lic, "con": con,
                            "t": BODIES[kind](st), "kind": kind}
                    if st.__name__ == "EmptyCommentStyle":
                        case["ext"] = ".zzz"
                    out.append(case)
        return c08.attach_bad(out)

    def impl(self, case):
        outs = run_n(case)
        return json.dumps(outs)

    def oracle(self, case, impl_out):
        if impl_out.startswith("EXC"):
            return "crash: " + impl_out
        return judge_runs(json.loads(impl_out), case)

    def model_lines(self, case):
        if case["tmpl"] != "default" or case["s"] == "EmptyCommentStyle":
            return []
        return ["c10hyp\t%s\t%s\tdefault\t%s\t%s\t%s\t%s\t%s" % (
            case["s"], case["f"], enc_list(case["cpr"]), enc_list(case["con"]), enc_list(case["lic"]), enc_list(case.get("bad", [])),
            enc(case["t"]))]

    def agree(self, case, impl_out, model_out):
        hyp, text = model_out.split("|")
        if hyp != "1":
            return True
        self._hyp = getattr(self, "_hyp", set())
        self._hyp.add(json.dumps(case, sort_keys=True))
        outs = json.loads(impl_out)
        want = "W:" + dec(text)
        return outs[0] == want and outs[1] == want

    def nontrivial(self, case, impl_out):
        k = json.dumps(case, sort_keys=True)
        return k if k in getattr(self, "_hyp", ()) else None

    def classify(self, case, failure):
        return None

    def show(self, case):
        return {k: case[k] for k in ("s", "f", "tmpl", "cpr", "lic", "con", "t", "kind") if k in case}


class Theorem2Stream(TheoremStream):
    """The tie for C10_idem_partial2: the driver evaluates every hypothesis of the theorem (style of the table, template not
    pre-commented, header free of exotic line boundaries, shape of what follows the header, not '% !TEX', the header carries
    REUSE information, Spec.nothingAbove, create_header reproduces the block) and Spec.secondRunOK, which the theorem derives
    from them.  Where the hypotheses hold: secondRunOK must have been evaluated true (C10_second_run_ok, checked on the
    evaluation itself) and the implementation must have written, twice, exactly the theorem's text."""
    name = "theorem2"
    rule = ("the cases of stream `theorem` with the default template (fresh sample): add_header_to_file twice; the driver evaluates the "
            "hypotheses of C10_idem_partial2 and Spec.secondRunOK; where the hypotheses hold, secondRunOK holds (C10_second_run_ok) and "
            "both runs equal the theorem's text; non-trivial = the hypotheses of C10_idem_partial2 hold (measured non-vacuity); "
            "the property oracle is applied by stream `theorem`")

    def cases(self, tier, rng):
        return [c for c in super().cases(tier, rng) if c["tmpl"] == "default" and c["s"] != "EmptyCommentStyle"]

    def impl(self, case):
        return json.dumps(run_n(case, 2))

    def oracle(self, case, impl_out):
        return None

    def model_lines(self, case):
        return ["c10hyp2\t%s\t%s\tdefault\t%s\t%s\t%s\t%s\t%s" % (
            case["s"], case["f"], enc_list(case["cpr"]), enc_list(case["con"]), enc_list(case["lic"]), enc_list(case.get("bad", [])),
            enc(case["t"]))]

    def agree(self, case, impl_out, model_out):
        hyp2, sec, lf, fresh, text = model_out.split("|")
        if hyp2 != "1":
            return True
        self._hyp = getattr(self, "_hyp", set())
        self._hyp.add(json.dumps(case, sort_keys=True))
        if sec != "1":
            return False
        if lf != "1":
            return True
        outs = json.loads(impl_out)
        want = "W:" + dec(text)
        return outs[0] == want and outs[1] == want


class StyleTableStream(Stream):
    """Spec.StyleIdem per (style, mode), evaluated by the driver, against the real create_comment / comment_at_first_character
    on the same representative texts and continuations (C10_table is this predicate decided in the kernel)."""
    name = "styletable"
    exhaustive = True
    rule = ("every style of the table x {default, forced multi-line}: the real create_comment output for 11 representative header texts, "
            "followed by the end of the text / an empty line and code / a same-style comment / a terminator line, is read back exactly "
            "by the real comment_at_first_character; compared with the driver's evaluation of Spec.StyleIdem; oracle: read-back exact")
    TEXTS = ["SPDX-FileCopyrightText: 2020 Jane Doe\n\nSPDX-License-Identifier: MIT", "SPDX-License-Identifier: MIT", "a\n\nb", "\nx", "x\n", "",
             "=x\n=", "*x\n/y\n#z", "-x\n>y\n}z\n)w", "!x\n'y\n:z\n%w", " x \n\ty"]

    def cases(self, tier, rng):
        for st in all_styles():
            if st.__name__ in ("UncommentableCommentStyle", "EmptyCommentStyle"):
                continue
            for m in (False, True):
                yield {"s": st.__name__, "m": m}

    def _supported(self, st, m):
        return st.can_handle_multi() if m else (st.can_handle_single() or st.can_handle_multi())

    def impl(self, case):
        from reuse.exceptions import CommentCreateError, CommentParseError
        st = style_by_name(case["s"])
        ok = True
        why = ""
        for text in self.TEXTS:
            try:
                blk = st.create_comment(text, force_multi=case["m"])
            except CommentCreateError:
                continue
            rests = ["", "\ncode\n", "\n" + st.SINGLE_LINE + " note\n", "\n" + st.MULTI_LINE.start + " note " + st.MULTI_LINE.end + "\n",
                     "\n" + st.MULTI_LINE.end + "\n"]
            for rest in rests:
                try:
                    got = st.comment_at_first_character(blk + "\n" + rest)
                except CommentParseError:
                    got = None
                if got != blk:
                    ok = False
                    why = why or "block %r followed by %r is read back as %r" % (blk, rest, got)
        return "%s|%s|%s" % ("1" if self._supported(st, case["m"]) else "0", "1" if ok else "0", why)

    def model_lines(self, case):
        return ["styleidem\t%s\t%s" % (case["s"], "1" if case["m"] else "0")]

    def agree(self, case, impl_out, model_out):
        return impl_out.split("|")[:2] == model_out.split("|")[:2]

    def oracle(self, case, impl_out):
        sup, ok, why = impl_out.split("|", 2)
        if sup == "1" and ok != "1":
            return "block-not-read-back: %s %s: %s" % (case["s"], "multi-line" if case["m"] else "default", why)
        return None

    def nontrivial(self, case, impl_out):
        return (case["s"], case["m"]) if impl_out.startswith("1|") else None


class CliStream(Stream):
    name = "cli"
    rule = ("`reuse annotate` (click entry point, in process) run 5 times with identical arguments on a scratch project: file names from "
            "the extension and file-name tables (every entry in thorough, a sample covering every style in quick) x optional --style "
            "override x --multi-line where supported x --force-dot-license / --fallback-dot-license x custom template (.reuse/templates) "
            "x --copyright-prefix x --year / --exclude-year x every non-empty subset of {--copyright, --license, --contributor} x "
            "--merge-copyrights x 8 tag-free bodies; oracle: the bytes "
            "of the whole tree after runs 2..5 equal those after run 1 and the notice stands once")
    KINDS = ["empty", "code", "code-nofinal", "comment-first", "comment-block", "shebang", "shebang-comment", "crlf"]

    def names(self):
        from reuse import comment
        ext = sorted(comment.EXTENSION_COMMENT_STYLE_MAP_LOWERCASE.items())
        fn = sorted(comment.FILENAME_COMMENT_STYLE_MAP_LOWERCASE.items())
        return [("f" + e, st) for e, st in ext] + [(n, st) for n, st in fn]

    def cases(self, tier, rng):
        names = self.names()
        if tier != "thorough":
            by_style = {}
            for n, st in names:
                by_style.setdefault(st.__name__, []).append((n, st))
            pick = [rng.choice(v) for k, v in sorted(by_style.items())]
            pick += rng.sample(names, 45)
            names = pick
        prefixes = ["spdx", "spdx-c", "spdx-string", "spdx-string-c", "spdx-string-symbol", "spdx-symbol", "string", "string-c", "string-symbol", "symbol"]
        for n, st in names:
            for _ in range(1 if tier != "thorough" else 2):
                style = st
                # every non-empty subset of the three information options
                sub = rng.choice([7, 7, 7, 1, 2, 3, 4, 4, 5, 6])
                argv = ["annotate"] + (["--copyright", "Jane Doe"] if sub & 1 else []) + (["--license", "MIT"] if sub & 2 else []) + (
                    ["--contributor", "Carol Probe"] if sub & 4 else [])
                if rng.random() < 0.25:
                    style = rng.choice([s for s in all_styles() if s.SHORTHAND])
                    argv += ["--style", style.SHORTHAND]
                uncomm = style.__name__ in ("UncommentableCommentStyle", "EmptyCommentStyle")
                if uncomm or rng.random() < 0.15:
                    argv.append("--force-dot-license" if rng.random() < 0.7 or not uncomm else "--fallback-dot-license")
                elif style.can_handle_multi() and rng.random() < 0.35:
                    argv.append("--multi-line")
                r = rng.random()
                if r < 0.25:
                    argv += ["--year", rng.choice(["2019", "2001"])] + (["--year", "2023"] if rng.random() < 0.3 else [])
                elif r < 0.4:
                    argv.append("--exclude-year")
                if rng.random() < 0.4:
                    argv += ["--copyright-prefix", rng.choice(prefixes)]
                if rng.random() < 0.25 and not sub & 4:
                    argv += ["--contributor", "Alice"]
                if rng.random() < 0.2:
                    argv.append("--merge-copyrights")
                tmpl = None
                if rng.random() < 0.2:
                    tmpl = "adds-text"
                    argv += ["--template", "mine"]
                kind = rng.choice(self.KINDS)
                body = BODIES[kind](style if not uncomm else style_by_name("PythonCommentStyle"))
                yield {"name": n, "s": style.__name__, "argv": argv, "t": body, "tmpl": tmpl, "kind": kind}

    def impl(self, case):
        with cli.scratch("rv-c10c-") as root:
            files = {case["name"]: case["t"]}
            if case["tmpl"]:
                files[".reuse/templates/mine.jinja2"] = TEMPLATES[case["tmpl"]]
            cli.write_tree(root, files)
            snaps = []
            for _ in range(RUNS):
                code, out, exc = cli.run_cli(case["argv"] + [case["name"]], root)
                if exc is not None:
                    return "EXC:%s:%s" % (type(exc).__name__, str(exc)[:80])
                snap = cli.snapshot(root)
                snaps.append((code, sorted((k, v[0], v[1].decode("utf-8", "replace") if isinstance(v[1], bytes) else v[1])
                                           for k, v in snap.items() if not k.startswith(".reuse"))))
            return json.dumps(snaps)

    def oracle(self, case, impl_out):
        if impl_out.startswith("EXC"):
            return "cli-crash: " + impl_out
        snaps = json.loads(impl_out)
        first = snaps[0]
        for i, s in enumerate(snaps[1:], 2):
            if s != first:
                return "rerun-changes-tree: run %d left %r, run 1 left %r" % (i, s, first)
        if first[0] == 0:
            texts = "".join(v for k, kind, v in first[1] if kind == "file")
            argv = case["argv"]
            for probe, opt, val in (("Jane Doe", "--copyright", "Jane Doe"), ("SPDX-License-Identifier: MIT", "--license", "MIT"),
                                    ("SPDX-FileContributor: Carol Probe", "--contributor", "Carol Probe")):
                if any(a == opt and b == val for a, b in zip(argv, argv[1:])):
                    n = texts.count(probe)
                    if n != 1:
                        return "header-count: %r stands %d times in the tree after %d runs" % (probe, n, RUNS)
        return None

    def nontrivial(self, case, impl_out):
        return (case["name"], tuple(case["argv"]), case["kind"]) if not impl_out.startswith("EXC") and json.loads(impl_out)[0][0] == 0 else None

    def show(self, case):
        return {k: case[k] for k in ("name", "argv", "t", "tmpl")}


SEED_SCRIPT = r"""
import io, json, os, sys, tempfile, shutil
from reuse import ReuseInfo, _LICENSING
from reuse._annotate import add_header_to_file
case = json.loads(sys.argv[1])
d = tempfile.mkdtemp(prefix="rv-c10s-", dir="/dev/shm" if os.path.isdir("/dev/shm") else None)
try:
    p = os.path.join(d, "f.py")
    open(p, "w", encoding="utf-8", newline="").write(case["t"])
    outs = []
    for _ in range(2):
        info = ReuseInfo(spdx_expressions={_LICENSING.parse(x) for x in case["lic"]}, copyright_lines=set(case["cpr"]),
                         contributor_lines=set(case.get("con", [])))
        add_header_to_file(p, info, None, False, "python", merge_copyrights=True, out=io.StringIO())
        outs.append(open(p, encoding="utf-8", newline="").read())
    print(json.dumps(outs))
finally:
    shutil.rmtree(d, ignore_errors=True)
"""


class SeedStream(Stream):
    """--merge-copyrights in child interpreters under several PYTHONHASHSEED values."""
    name = "seeds"
    rule = ("add_header_to_file(merge_copyrights=True) twice, in child interpreters under 4 (quick) / 8 (thorough) hash seeds: (a) tag-free "
            "bodies with 1-3 requested notices (the property's quantifier) — oracle: every seed writes the same bytes and the second run "
            "changes nothing; (b) a body whose existing header names the requested holder under another prefix (outside the quantifier: the "
            "tie between equally frequent prefixes is broken by set order) — measured and recorded, not judged")

    CASES = [
        {"t": "x = 1\n", "cpr": ["SPDX-FileCopyrightText: 2020 Jane Doe"], "lic": ["MIT"], "judged": True},
        {"t": "", "cpr": ["SPDX-FileCopyrightText: 2020 Jane Doe", "SPDX-FileCopyrightText: 2022 Jane Doe", "SPDX-FileCopyrightText: 2021 ACME"],
         "lic": ["MIT", "0BSD"], "judged": True},
        {"t": "#!/bin/sh\n# note\n", "cpr": ["© 2019 张三", "© 2021 张三"], "lic": [], "judged": True},
        {"t": "x = 1\n", "cpr": ["SPDX-FileCopyrightText: 2020 A", "SPDX-FileCopyrightText: 2020 B", "SPDX-FileCopyrightText: 2020 C", "SPDX-FileCopyrightText: 2020 D"],
         "lic": ["MIT", "0BSD", "ISC", "Zlib"], "con": ["Alice", "Bob", "Carol", "Dave", "Eve"], "judged": True},
        {"t": "# © 2019 Jane Doe\n#\n# SPDX-License-Identifier: MIT\n\nx = 1\n", "cpr": ["SPDX-FileCopyrightText: 2021 Jane Doe"], "lic": ["MIT"],
         "judged": False},
        {"t": "# Copyright (C) 2018 Jane Doe\n# SPDX-FileCopyrightText: 2019 Jane Doe\n\nx = 1\n", "cpr": ["© 2021 Jane Doe"], "lic": [],
         "judged": False},
    ]

    def cases(self, tier, rng):
        for c in self.CASES:
            yield dict(c, seeds=list(range(8 if tier == "thorough" else 4)))

    def impl(self, case):
        res = []
        for seed in case["seeds"]:
            env = dict(os.environ, PYTHONHASHSEED=str(seed), PYTHONPATH=os.path.join(REPO, "src"))
            r = subprocess.run([sys.executable, "-c", SEED_SCRIPT, json.dumps(case)], capture_output=True, text=True, env=env)
            if r.returncode != 0:
                return "EXC:child:%s" % r.stderr[-200:]
            res.append(json.loads(r.stdout.strip().splitlines()[-1]))
        return json.dumps(res)

    def oracle(self, case, impl_out):
        if impl_out.startswith("EXC"):
            return "seed-crash: " + impl_out
        res = json.loads(impl_out)
        self._measured = getattr(self, "_measured", {})
        firsts = sorted({r[0] for r in res})
        changed = [r for r in res if r[0] != r[1]]
        self._measured[case["t"]] = {"distinct_first_runs": len(firsts), "second_run_differs": len(changed)}
        if not case["judged"]:
            return None
        if len(firsts) != 1:
            return "seed-dependent: the first run writes %d different files under seeds %r: %r" % (len(firsts), case["seeds"], firsts[:2])
        if changed:
            return "rerun-changes-file: %r -> %r" % (changed[0][0], changed[0][1])
        return None

    def nontrivial(self, case, impl_out):
        return impl_out if case["judged"] else ("boundary", impl_out)


import c10s6      # noqa: E402  (needs the classes above)
import c10s11     # noqa: E402
import c10p1      # noqa: E402
import c10t2      # noqa: E402
import c10s14     # noqa: E402

PROPERTY = Property(
    pid="C10",
    streams=[TheoremStream(), Theorem2Stream(), StyleTableStream(), annotcorr.CommentAtStream(), annotcorr.CreateCommentStream(), CliStream(), SeedStream()] + c10s6.STREAMS + c10s11.STREAMS + c10p1.STREAMS + c10t2.STREAMS + c10s14.STREAMS,
    assumptions=[],
)
