"""C11, one more region of the input space: templates whose fidelity depends on *how much* there is to say.

A template that prints `copyright_lines[0]`, the first two notices, the licences joined into one expression, the notices only when
there are fewer than two, the licences only when a copyright exists … is fine for one file and loses information for the next
one of the same invocation: what has to survive is the request *merged with what the file's own header already says*.  So the
files of one invocation differ in how much their existing header adds (nothing, the requested line itself, one more holder, two,
another licence, both; in the file or in its FILE.license), they share a comment style (and a second style is mixed in), and
they are processed in every order (`reuse annotate` turns the PATHs into a set: the file names are random, so is the order).

`amount`     — the real command line, the whole tree (type, bytes, mode, mtime) snapshotted before / after.
`amount-api` — add_header_to_file over the files one after the other, in one process, with ONE template object, in every order.

Oracle (the property text): a file for which the template loses information is left exactly as it was (no FILE.license appears),
every other file receives everything (requested and previously declared), the exit status is 1 iff some file failed.
Oracle only: the model's header builder is a parameter fed per path (stream `annotate`), it has no notion of a template program.
"""
import io
import itertools
import json
import os

from core import Stream
import cli
import c11 as base

CPR_LOOP = "{% for c in copyright_lines %}\n{{ c }}\n{% endfor %}\n"
LIC_LOOP = "{% for e in spdx_expressions %}\nSPDX-License-Identifier: {{ e }}\n{% endfor %}\n"

#: name -> (template text, faithful(n_copyright_lines, n_licences))
TEMPLATES = {
    "first-cpr": ("{{ copyright_lines[0] }}\n\n" + LIC_LOOP, lambda c, l: c <= 1),
    "last-cpr": ("{{ copyright_lines[-1] }}\n\n" + LIC_LOOP, lambda c, l: c <= 1),
    "first-two-cpr": ("{% for c in copyright_lines[:2] %}\n{{ c }}\n{% endfor %}\n\n" + LIC_LOOP, lambda c, l: c <= 2),
    "two-slots": ("{{ copyright_lines[0] }}\n{{ copyright_lines[1] }}\n\n" + LIC_LOOP, lambda c, l: c <= 2),
    "few-only": ("{% if copyright_lines|length < 2 %}\n" + CPR_LOOP + "{% endif %}\n\n" + LIC_LOOP, lambda c, l: c < 2),
    "first-lic": (CPR_LOOP + "\n{% if spdx_expressions %}\nSPDX-License-Identifier: {{ spdx_expressions[0] }}\n{% endif %}\n", lambda c, l: l <= 1),
    "joined-lic": (CPR_LOOP + "\n{% if spdx_expressions %}\nSPDX-License-Identifier: {{ spdx_expressions|join(' AND ') }}\n{% endif %}\n",
                   lambda c, l: l <= 1),
    "lic-if-cpr": (CPR_LOOP + "\n{% if copyright_lines %}\n" + LIC_LOOP + "{% endif %}\n", lambda c, l: c >= 1 or l == 0),
    "one-lic-only": (CPR_LOOP + "\n{% if spdx_expressions|length == 1 %}\n" + LIC_LOOP + "{% endif %}\n", lambda c, l: l <= 1),
    "all": (CPR_LOOP + "\n" + LIC_LOOP, lambda c, l: True),
}

REQ_CPR = "SPDX-FileCopyrightText: 2020 Jane Doe"
#: what a file's existing header adds: name -> (copyright lines, licences)
EXISTING = {
    "none": ([], []),
    "same": ([REQ_CPR], ["MIT"]),
    "same-cpr": ([REQ_CPR], []),
    "holder": (["SPDX-FileCopyrightText: 2019 Original Author"], []),
    "holder-string": (["Copyright (C) 2011 Old Holder"], ["MIT"]),
    "two-holders": (["SPDX-FileCopyrightText: 2019 Original Author", "SPDX-FileCopyrightText: 2018 Second Author"], []),
    "licence": ([], ["ISC"]),
    "holder-licence": (["SPDX-FileCopyrightText: 2019 Original Author"], ["ISC"]),
    "two-licences": ([], ["ISC", "0BSD"]),
}
#: kind -> (extension, header builder, body)
FILE_KINDS = {
    "py": (".py", lambda ls: "".join("# %s\n" % l if l else "#\n" for l in ls), "x = 1\n"),
    "c": (".c", lambda ls: "/*\n" + "".join(" * %s\n" % l if l else " *\n" for l in ls) + " */\n", "int x;\n"),
    "html": (".html", lambda ls: "<!--\n" + "".join(l + "\n" for l in ls) + "-->\n", "<p>x</p>\n"),
    "sh": (".sh", lambda ls: "".join("# %s\n" % l if l else "#\n" for l in ls), "echo x\n"),
}


def header_lines(ex):
    cpr, lic = EXISTING[ex]
    return list(cpr) + ([""] if cpr and lic else []) + ["SPDX-License-Identifier: " + l for l in lic]


def file_text(f):
    ext, hdr, body = FILE_KINDS[f["kind"]]
    if f["ex"] == "none" or f.get("where") == "sib":
        return body
    return hdr(header_lines(f["ex"])) + "\n" + body


def tree_of(case):
    files = {}
    for f in case["files"]:
        files[f["name"]] = file_text(f)
        if f.get("where") == "sib":
            files[f["name"] + ".license"] = "".join(l + "\n" for l in header_lines(f["ex"])) if f["ex"] != "none" else ""
    files["bystander.txt"] = "bystander\n"
    files[".reuse/templates/mine.jinja2"] = TEMPLATES[case["template"]][0]
    return files


def requested(case):
    return ([REQ_CPR] if case["req"] in ("both", "cpr") else []), (["MIT"] if case["req"] in ("both", "lic") else [])


def merged(case, f):
    rc, rl = requested(case)
    ec, el = EXISTING[f["ex"]]
    return sorted(set(rc) | set(ec)), sorted(set(rl) | set(el))


def faithful(case, f):
    c, l = merged(case, f)
    return TEMPLATES[case["template"]][1](len(c), len(l))


def written_path(f):
    return f["name"] + ".license" if f.get("where") == "sib" else f["name"]


def argv_of(case):
    a = ["annotate", "--template", "mine"]
    if case["req"] in ("both", "cpr"):
        a += ["--copyright", "Jane Doe", "--year", "2020"]
    if case["req"] in ("both", "lic"):
        a += ["--license", "MIT"]
    if case.get("recursive"):
        return a + ["--recursive", "src"]
    return a + [f["name"] for f in case["files"]]


def rand_name(rng, kind, recursive):
    stem = "".join(rng.choice("abcdefghijklmnopqrstuvwxyz") for _ in range(rng.randint(3, 7)))
    d = "src/" if recursive else rng.choice(["", "", "src/", "lib/deep/"])
    return d + stem + FILE_KINDS[kind][0]


def make_files(rng, template, req, n, recursive=False):
    """n files, most of them of one kind; at least one for which the template is faithful and one for which it is not, when the
    template allows both"""
    main = rng.choice(list(FILE_KINDS))
    files = []
    for i in range(n):
        kind = main if rng.random() < 0.8 else rng.choice(list(FILE_KINDS))
        f = {"kind": kind, "ex": rng.choice(list(EXISTING)), "name": None}
        if rng.random() < 0.12:
            f["where"] = "sib"
        files.append(f)
    case = {"template": template, "req": req}
    ok = [e for e in EXISTING if faithful(case, {"ex": e})]
    bad = [e for e in EXISTING if not faithful(case, {"ex": e})]
    if n >= 2 and ok and bad:
        i, j = rng.sample(range(n), 2)
        files[i]["ex"], files[i]["kind"] = rng.choice(ok), main
        files[j]["ex"], files[j]["kind"] = rng.choice(bad), main
    names = set()
    for f in files:
        while True:
            nm = rand_name(rng, f["kind"], recursive)
            if nm not in names:
                names.add(nm)
                f["name"] = nm
                break
    return files


def judge_file(case, f, before, after_of):
    """the clauses of the property for one file; before / after: path -> (kind, bytes, mode, mtime) | None"""
    t = written_path(f)
    pair = sorted({f["name"], f["name"] + ".license"})
    if not faithful(case, f):
        for p in pair:
            if before.get(p) != after_of.get(p):
                what = "created" if p not in before else "removed" if p not in after_of else \
                    "rewritten" if before[p][:2] != after_of[p][:2] else "touched (mode/mtime)"
                c, l = merged(case, f)
                return ("failed-not-unchanged: template %r cannot carry %d copyright line(s) and %d licence(s) (request merged with the header of %s), "
                        "yet %s was %s: %r" % (case["template"], len(c), len(l), f["name"], p, what, (after_of.get(p) or (0, b""))[1][:300]))
        return None
    new = after_of.get(t)
    c, l = merged(case, f)
    if new is None or new[0] != "file":
        return "not-processed: %s is missing after the run" % t
    text = new[1].decode("utf-8", "replace")
    for x in c + ["SPDX-License-Identifier: " + e for e in l]:
        if x not in text:
            return "not-processed: %s should hold %r after the run (other files of the invocation failed: %s); it holds %r" % (
                t, x, [g["name"] for g in case["files"] if not faithful(case, g)], text[:300])
    for p in pair:
        if p != t and before.get(p) != after_of.get(p):
            return "wrong-file-written: the header of %s belongs in %s but %s changed" % (f["name"], t, p)
    return None


class AmountStream(Stream):
    name = "amount"
    rule = ("real `reuse annotate --template mine` invocations (in-process CLI) over 2-6 files, most of one comment style (py / c / html / sh), "
            "with a template whose fidelity depends on the amount of information: first / last notice only, first two, two fixed slots, notices "
            "only when fewer than two, first licence only, licences joined into one expression, licences only when a copyright exists, "
            "licences only when there is exactly one, and the faithful control; the files differ in what their existing header (in the file "
            "or in FILE.license) adds to the request: nothing, the requested line itself, one more holder, two, another licence, both, two "
            "licences; request = copyright + licence, copyright only, licence only; random file names (the tool walks a set of paths: every "
            "order occurs), named one by one or through --recursive; whole tree (type, bytes, mode, mtime) snapshotted before / after; "
            "oracle: a file whose merged information the template cannot carry is left exactly as it was and no FILE.license appears, every "
            "other file holds the merged information, exit status 1 iff some file failed, nothing else changes; non-trivial = distinct "
            "(template, request, pattern of faithful / failing files in processing-independent name order)")

    def __init__(self):
        self.side = {}

    def cases(self, tier, rng):
        k = 40 if tier == "thorough" else 5
        for template in TEMPLATES:
            for i in range(k):
                req = "both" if i % 5 < 3 else rng.choice(["cpr", "lic"])
                recursive = rng.random() < 0.15
                n = rng.randint(2, 6)
                yield {"template": template, "req": req, "files": make_files(rng, template, req, n, recursive), "recursive": recursive}

    def impl(self, case):
        with cli.scratch("rv-c11a-") as root:
            cli.write_tree(root, tree_of(case))
            for dp, dn, fn in os.walk(root):
                for f in fn + dn:
                    os.utime(os.path.join(dp, f), ns=(10**18, 10**18), follow_symlinks=False)
            s0 = base.meta_snapshot(root)
            code, out, exc = cli.run_cli(argv_of(case), root)
            s1 = base.meta_snapshot(root)
        self.side[json.dumps(case, sort_keys=True)] = (s0, s1)
        if exc is not None:
            return "EXC:%s:%s" % (type(exc).__name__, str(exc)[:100])
        return "%d|%s" % (code, " ".join(base.changes(s0, s1)))

    def oracle(self, case, impl_out):
        if impl_out.startswith("EXC"):
            return "traceback: " + impl_out
        s0, s1 = self.side[json.dumps(case, sort_keys=True)]
        code = int(impl_out.split("|")[0])
        if code == 2:
            return "unexpected-usage-error: exit status 2 for a well-formed invocation"
        accounted = set()
        for f in case["files"]:
            accounted |= {f["name"], f["name"] + ".license"}
            why = judge_file(case, f, s0, s1)
            if why:
                return why
        stray = {k for k in set(s0) | set(s1) if s0.get(k) != s1.get(k)} - accounted
        if stray:
            return "stray-change: paths outside the named files and their siblings changed: %s" % sorted(stray)
        failing = [f["name"] for f in case["files"] if not faithful(case, f)]
        if code != (1 if failing else 0):
            return "exit-status: %d, expected %d (files the template cannot serve: %s)" % (code, 1 if failing else 0, failing)
        return None

    def nontrivial(self, case, impl_out):
        pat = "".join("o" if faithful(case, f) else "F" for f in sorted(case["files"], key=lambda f: f["name"]))
        if "F" not in pat or "o" not in pat:
            return None
        return (case["template"], case["req"], pat, case.get("recursive", False))

    def show(self, case):
        return {"argv": argv_of(case), "files": tree_of(case), "expected": [(f["name"], "ok" if faithful(case, f) else "fail") for f in case["files"]]}


class AmountApiStream(Stream):
    name = "amount-api"
    rule = ("add_header_to_file over 2-4 files of one style one after the other in one process with one and the same template object "
            "(templates and existing headers as in stream `amount`), in every order of the files (all permutations up to 3 files, 6 sampled "
            "of 4); oracle per file: the call reports a failure and leaves the bytes alone where the template cannot carry the merged "
            "information, otherwise the file holds it; non-trivial = distinct (template, request, pattern of faithful / failing files in "
            "call order)")

    def cases(self, tier, rng):
        k = 12 if tier == "thorough" else 2
        for template in TEMPLATES:
            for i in range(k):
                req = "both" if i % 3 < 2 else rng.choice(["cpr", "lic"])
                n = rng.choice([2, 3, 3, 4])
                files = [f for f in make_files(rng, template, req, n) if f.get("where") != "sib"]
                if len(files) < 2:
                    continue
                main = files[0]["kind"]
                for f in files:
                    f["kind"] = main
                    f["name"] = os.path.basename(f["name"]).split(".")[0] + FILE_KINDS[main][0]
                if len({f["name"] for f in files}) != len(files):
                    continue
                perms = list(itertools.permutations(range(len(files))))
                if len(perms) > 6:
                    perms = rng.sample(perms, 6)
                for p in perms:
                    yield {"template": template, "req": req, "files": [files[j] for j in p]}

    def impl(self, case):
        from jinja2 import Environment
        from reuse import ReuseInfo, _LICENSING
        from reuse._annotate import add_header_to_file
        template = Environment(trim_blocks=True).from_string(TEMPLATES[case["template"]][0])
        res = []
        with cli.scratch("rv-c11p-") as root:
            for f in case["files"]:
                with open(os.path.join(root, f["name"]), "w", encoding="utf-8", newline="") as fp:
                    fp.write(file_text(f))
            for f in case["files"]:
                rc_, rl_ = requested(case)
                info = ReuseInfo(spdx_expressions={_LICENSING.parse(x) for x in rl_}, copyright_lines=set(rc_))
                rc = add_header_to_file(os.path.join(root, f["name"]), info, template, False, None, out=io.StringIO())
                with open(os.path.join(root, f["name"]), "r", encoding="utf-8", newline="") as fp:
                    res.append([rc, fp.read()])
            res.append(sorted(os.listdir(root)))
        return json.dumps(res)

    def oracle(self, case, impl_out):
        if impl_out.startswith("EXC"):
            return "traceback: " + impl_out
        res = json.loads(impl_out)
        if res[-1] != sorted(f["name"] for f in case["files"]):
            return "stray-change: the directory holds %r" % res[-1]
        for i, (f, (rc, text)) in enumerate(zip(case["files"], res)):
            c, l = merged(case, f)
            if not faithful(case, f):
                if text != file_text(f) or not rc:
                    return ("failed-not-unchanged: call %d: template %r cannot carry %d copyright line(s) and %d licence(s) for %s, yet the call returned %d "
                            "and the file holds %r" % (i + 1, case["template"], len(c), len(l), f["name"], rc, text[:300]))
            else:
                if rc:
                    return "not-processed: call %d on %s returned %d" % (i + 1, f["name"], rc)
                for x in c + ["SPDX-License-Identifier: " + e for e in l]:
                    if x not in text:
                        return "not-processed: %s should hold %r after call %d; it holds %r" % (f["name"], x, i + 1, text[:300])
        return None

    def nontrivial(self, case, impl_out):
        pat = "".join("o" if faithful(case, f) else "F" for f in case["files"])
        if "F" not in pat or "o" not in pat:
            return None
        return (case["template"], case["req"], pat)

    def show(self, case):
        return {"template": TEMPLATES[case["template"]][0], "req": case["req"], "files": [(f["name"], file_text(f)) for f in case["files"]],
                "expected": [(f["name"], "ok" if faithful(case, f) else "fail") for f in case["files"]]}


STREAMS = [AmountStream(), AmountApiStream()]
