"""C10, one more region of the input space: ties inside `--merge-copyrights`.

`prefixties` / `prefixties-cli` — requests that name ONE holder under two or three different prefixes, each equally often (the
             `--copyright` values are notices already, so `make_copyright_line` keeps them verbatim whatever `--year` /
             `--exclude-year` / `--copyright-prefix` say), with equal years, without years, with different years, with years equal in
             value but written in digits of different scripts (`2019` / `２０１９` / `٢٠١٩`), next to lines of another holder; on
             tag-free bodies, and on files whose header the tool itself wrote in an earlier run that named the holder under
             another prefix.  `merge_copyright_lines` takes the most frequent prefix of a holder (`Counter.most_common`) and the
             first of the numerically smallest / largest years (`min(..., key=int)`): a tie is decided by the order in which the
             lines are met.  Every run of the identical command happens in a fresh interpreter with another PYTHONHASHSEED (the
             order in which a set of strings is walked differs from process to process — that is what a user's second invocation
             is).  Oracle (property text): the bytes after runs 2..K equal the bytes after run 1, and every holder stands once.
             (That run 1 writes the same bytes under every hash seed is not something C10's text says; it is not judged.)
             Proof side: Theorems/C10.lean `C10_merge_order`, `C10_header_order`, `C10_idem_any_order`; why the sort in
             `merge_copyright_lines` is needed: `C10_merge_prefix_tie`, `C10_merge_year_tie`.
"""
import json
import os

from annotcorr import style_by_name
import c10 as base
from c10s11 import _SeededRuns, judge_snaps, seeds_for, NE_NAMES

#: tag-free bodies (the property's quantifier)
KINDS = ["empty", "code", "code-nofinal", "comment-first", "shebang", "crlf"]
HOLDERS = ["Xavier Yz", "Jane Doe", "ACME Inc. <legal@acme.example>", "张三", "José Álvarez", "Example GmbH & Co. KG", "jane doe"]
OTHERS = ["Someone Else", "Zoë Other <zoe@example.org>"]
#: the same year value in the digits of three scripts
YEAR_SCRIPTS = {"2019": ["2019", "２０１９", "٢٠١٩"], "1999": ["1999", "１９９９", "۱۹۹۹"]}
SHAPES = ["two-equal-year", "two-equal-year", "three-equal-year", "two-no-year", "two-equal-range", "two-two", "two-different-years",
          "year-scripts", "year-scripts", "tie-and-other-holder", "earlier-run", "earlier-run"]


def prefix_texts():
    from reuse.copyright import _COPYRIGHT_PREFIXES
    return list(_COPYRIGHT_PREFIXES.values())


def tie_request(rng, shape):
    """(lines of the identical runs, line of an earlier non-merging run or None, holders that must stand once)"""
    texts = prefix_texts()
    h = rng.choice(HOLDERS)
    p = rng.sample(texts, 3)
    y = rng.choice(["2019", "1999", "2021"])
    pre = None
    if shape == "two-equal-year":
        lines = ["%s %s %s" % (p[0], y, h), "%s %s %s" % (p[1], y, h)]
    elif shape == "three-equal-year":
        lines = ["%s %s %s" % (q, y, h) for q in p]
    elif shape == "two-no-year":
        lines = ["%s %s" % (p[0], h), "%s %s" % (p[1], h)]
    elif shape == "two-equal-range":
        lines = ["%s 2015 - 2020 %s" % (p[0], h), "%s 2015 - 2020 %s" % (p[1], h)]
    elif shape == "two-two":
        lines = ["%s 2015 %s" % (p[0], h), "%s 2016 %s" % (p[0], h), "%s 2017 %s" % (p[1], h), "%s 2018 %s" % (p[1], h)]
    elif shape == "two-different-years":
        lines = ["%s 2015 %s" % (p[0], h), "%s 2018 %s" % (p[1], h)]
    elif shape == "year-scripts":
        v = rng.choice(sorted(YEAR_SCRIPTS))
        ys = rng.sample(YEAR_SCRIPTS[v], rng.choice([2, 2, 3]))
        q = p[0] if rng.random() < 0.7 else None
        lines = ["%s %s %s" % (q or p[i], w, h) for i, w in enumerate(ys)]
    elif shape == "tie-and-other-holder":
        lines = ["%s %s %s" % (p[0], y, h), "%s %s %s" % (p[1], y, h), "%s 2020 %s" % (p[2], rng.choice(OTHERS))]
    elif shape == "earlier-run":
        pre = "%s %s %s" % (p[0], y, h)
        lines = ["%s %s %s" % (p[1], y, h)]
        if rng.random() < 0.3:
            lines.append("%s %s %s" % (p[2], y, h))
    else:
        raise ValueError(shape)
    holders = [h] + [o for o in OTHERS if any(l.endswith(" " + o) for l in lines)]
    return lines, pre, holders


def judge(case, impl_out):
    if impl_out.startswith("EXC"):
        return "crash: " + impl_out
    snaps = [(s[0], [tuple(x) for x in s[1]]) for s in json.loads(impl_out)]
    if case.get("pre"):
        if snaps[0][0] != "rc:0":
            return None          # the earlier run did not annotate the file: nothing to re-run on
        snaps = snaps[1:]
    return judge_snaps(snaps, case["probes"])


class _TieRuns(_SeededRuns):
    def oracle(self, case, impl_out):
        return judge(case, impl_out)

    def nontrivial(self, case, impl_out):
        if impl_out.startswith("EXC"):
            return None
        snaps = json.loads(impl_out)
        if snaps[-1][0] != "rc:0":
            return None
        return (case["name"], case["shape"], case["opts"])

    def seeds(self, rng, tier, pre):
        s = seeds_for(rng, tier)
        return s + [s[0] + 5000] if pre else s


class PrefixTieStream(_TieRuns):
    name = "prefixties"
    rule = ("add_header_to_file(merge_copyrights=True) run 4 (quick) / 6 (thorough) times with the same request, every run in a fresh "
            "interpreter under another PYTHONHASHSEED: the request names one holder under two or three prefixes of the table equally often "
            "(equal year, no year, equal range, 2+2 lines, different years), or under one prefix with the same year in the digits of two "
            "or three scripts, also next to a line of another holder; on tag-free bodies and on a file whose header an earlier, "
            "non-merging run of the tool wrote with another prefix; 14 file types x forced multi-line; oracle: bytes after runs 2..K = "
            "bytes after run 1, every holder stands once; non-trivial = distinct (file type, shape of the tie, options) written")

    def cases(self, tier, rng):
        from reuse.comment import get_comment_style
        from pathlib import Path
        n = 150 if tier == "thorough" else 40
        base_seeds = {False: self.seeds(rng, tier, False), True: self.seeds(rng, tier, True)}
        out = []
        for i in range(n):
            shape = SHAPES[i % len(SHAPES)]
            lines, pre, holders = tie_request(rng, shape)
            name = NE_NAMES[(i * 3 + 1) % len(NE_NAMES)]
            st = get_comment_style(Path(name))
            multi = bool(st.can_handle_multi() and rng.random() < 0.25)
            kind = rng.choice(KINDS)
            out.append({"name": name, "s": st.__name__, "cpr": lines, "pre": pre, "lic": rng.choice([["MIT"], [], ["MIT", "0BSD"]]), "multi": multi,
                        "t": base.BODIES[kind](st), "kind": kind, "shape": shape, "opts": "%d" % multi, "seeds": base_seeds[pre is not None],
                        "probes": holders})
        self._pending = out
        return out

    def job(self, case, root, run):
        st = style_by_name(case["s"])
        j = {"mode": "api", "path": os.path.join(root, case["name"]), "con": [], "lic": case["lic"], "style": st.SHORTHAND or None,
             "multi": case["multi"]}
        if case["pre"] and run == 0:
            return dict(j, cpr=[case["pre"]], merge=False)
        k = run - (1 if case["pre"] else 0)
        cpr = case["cpr"]
        return dict(j, cpr=cpr[k % len(cpr):] + cpr[:k % len(cpr)], merge=True)

    def show(self, case):
        return {k: case[k] for k in ("name", "cpr", "pre", "lic", "multi", "t", "shape", "seeds")}


class PrefixTieCliStream(_TieRuns):
    name = "prefixties-cli"
    rule = ("`reuse annotate --merge-copyrights` (click entry point) run 4 / 6 times with identical arguments, every run in a fresh "
            "interpreter under another PYTHONHASHSEED: --copyright values that are notices already (kept verbatim) naming one holder under "
            "two or three prefixes equally often, or with the same year in two scripts, as in stream `prefixties`; --exclude-year / "
            "--year / neither, --copyright-prefix, --multi-line, --force-dot-license; tag-free bodies, and files annotated by an earlier "
            "`reuse annotate` without --merge-copyrights; oracle: tree bytes after runs 2..K = after run 1, every holder stands once")

    def cases(self, tier, rng):
        from reuse.comment import get_comment_style
        from pathlib import Path
        from c10s11 import PREFIXES
        n = 150 if tier == "thorough" else 40
        base_seeds = {False: self.seeds(rng, tier, False), True: self.seeds(rng, tier, True)}
        out = []
        for i in range(n):
            shape = SHAPES[(i + 5) % len(SHAPES)]
            lines, pre, holders = tie_request(rng, shape)
            name = NE_NAMES[(i * 5 + 2) % len(NE_NAMES)]
            st = get_comment_style(Path(name))
            tail = []
            r = rng.random()
            if r < 0.5:
                tail.append("--exclude-year")
            elif r < 0.75:
                tail += ["--year", "2020"]
            if rng.random() < 0.3:
                tail += ["--copyright-prefix", rng.choice(PREFIXES)]
            opts = ""
            r = rng.random()
            if r < 0.15:
                tail.append("--force-dot-license")
                opts += "d"
            elif r < 0.4 and st.can_handle_multi():
                tail.append("--multi-line")
                opts += "m"
            if rng.random() < 0.7:
                tail += ["--license", "MIT"]
            argv = ["annotate"]
            for l in lines:
                argv += ["--copyright", l]
            kind = rng.choice(KINDS)
            out.append({"name": name, "s": st.__name__, "argv": argv + ["--merge-copyrights"] + tail + [name],
                        "pre": (["annotate", "--copyright", pre] + tail + [name]) if pre else None,
                        "t": base.BODIES[kind](st), "kind": kind, "shape": shape, "opts": opts, "seeds": base_seeds[pre is not None],
                        "probes": holders})
        self._pending = out
        return out

    def job(self, case, root, run):
        if case["pre"] and run == 0:
            return {"mode": "cli", "root": root, "argv": case["pre"]}
        return {"mode": "cli", "root": root, "argv": case["argv"]}

    def show(self, case):
        return {k: case[k] for k in ("argv", "pre", "t", "shape", "seeds")}


STREAMS = [PrefixTieStream(), PrefixTieCliStream()]
