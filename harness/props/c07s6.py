"""C07, two more regions of the input space.

(1) Writer and reader must agree on what is a *binary* file.  Both ask binaryornot (file extension list, then a decision tree
    over the first 512 bytes).  Stream `e2e-sniff`: files whose name has a commentable style but whose content — valid UTF-8 —
    looks binary to that library (raw C0 control characters in string constants, NUL-padded records, a single NUL, dense
    runs without line breaks), content that looks like text under an extension binaryornot lists as binary, control characters
    only after the first 512 bytes, each with and without an existing header, under every .license option and forced styles.
    Oracle: the property text — exit 0 means the linter reads the request back (so the header must be where the linter looks).

(2) What may stay in front of the header.  Streams `firstline` (add_header_to_file + the linter's reader, every style) and
    `e2e-firstline` (real CLI + real lint): files whose first line is longer than the 4096 bytes the linter reads and starts
    with every first-line marker of the live style table, every marker of the committed table
    (harness/props/first_line_markers.json), their case variants and look-alikes (`<!DOCTYPE`, `<!doctype`, `<?xml`, `#!`,
    `%!`, `<?php`, a coding line, `---` ...).  A header behind a line that starts with a *committed* marker of the file's style
    is the known finding c07-header-beyond-window; behind any other line it is a violation.
"""
import json

from core import enc, dec
import annotcorr
import annotgen as G
import c07 as base

FILLS = ["x", "var a=1;", "é", "<p>t</p>", "张", "a b "]
#: first lines that look like declarations; whether one may stay in front of the header is the committed table's say
LOOKALIKES = ["<!DOCTYPE html>", "<!doctype html>", "<!DOCTYPE", "<?xml version=\"1.0\"?>", "<?xml", "<?XML", "#!", "#!/bin/sh", "%!", "%!PS-Adobe-3.0",
              "<?php", "<?PHP", "% !TEX", "%!TEX", "% !BIB", "cabal-version:", "# -*- coding: utf-8 -*-", "---", "@charset \"utf-8\";", "<html>",
              "// @ts-check", "'use strict';", "<%@ page", "{", "#", "/*!", "<!--[if IE]>", "\"use client\""]


def long_line(head, n, fill):
    body = fill * ((n - len(head.encode("utf-8"))) // len(fill.encode("utf-8")) + 1)
    return head + body


def candidates(st):
    """first-line beginnings to try for a style: the live markers, the committed ones, their case variants, look-alikes"""
    own = list(st.SHEBANGS) + G.committed_markers(st.__name__)
    out = []
    for c in own + [x.upper() for x in own] + [x.lower() for x in own] + LOOKALIKES:
        if c not in out:
            out.append(c)
    return out, set(own)


#: fills binaryornot takes for text (a dense run of multi-byte characters looks binary to it: the header then goes to FILE.license)
TEXT_FILLS = ["x", "var a=1;", "<p>t</p>", "a b ", "é = 1; "]


def first_line_body(rng, st, head, n, le="\n", planted=False, bom=False, fills=FILLS):
    lines = [long_line(head + rng.choice(["", " "]), n, rng.choice(fills))]
    if planted:
        lines += st.create_comment("SPDX-FileCopyrightText: 2017 Prev Holder\n\nSPDX-License-Identifier: ISC").split("\n") + [""]
    lines += [rng.choice(G.CODE_LINES) for _ in range(rng.randint(0, 3))]
    text = "\n".join(lines) + ("\n" if rng.random() < 0.8 else "")
    return ("\ufeff" if bom else "") + text.replace("\n", le)


SIZES = [4097, 4200, 5000, 8200, 12000]
MODEL_LIMIT = 5200


class FirstLineStream(base.AnnotateReadbackStream):
    name = "firstline"
    rule = ("add_header_to_file on scratch files whose FIRST LINE is longer than the linter's window (4097 .. 12000 bytes; ASCII, two- and "
            "three-byte fills) and begins with: every marker of the live style table, every marker of the committed table, their upper- / "
            "lower-case variants, and 28 look-alikes (<!DOCTYPE, <!doctype, <?xml, <?XML, #!, %!, <?php, % !TEX, cabal-version:, a coding line, "
            "---, @charset, <html>, // @ts-check ...) x every style of the table (all beginnings for styles that have markers, a sample for "
            "the others) x {replace, --no-replace} x LF / CRLF x byte order mark x own header below the long line or none; oracle: the "
            "linter's reader on the first 4096 bytes of the written file yields everything requested — unless the input has the shape of "
            "the known finding (its first line starts with a COMMITTED marker of its style, or its own header already stood out of the "
            "window); the model is compared on every 20th (thorough: 6th) case up to 5200 bytes; non-trivial = distinct (style, beginning, mode, outcome)")

    def cases(self, tier, rng):
        thorough = tier == "thorough"
        count = 0
        for st in annotcorr.all_styles():
            if st.__name__ in ("UncommentableCommentStyle", "EmptyCommentStyle"):
                continue
            cands, own = candidates(st)
            if not own and not thorough:
                cands = rng.sample(cands, 4)
            for head in cands:
                for rep in (range(3) if thorough else range(1)):
                    n = rng.choice(SIZES if (thorough or rng.random() < 0.3) else SIZES[:3])
                    cpr, lic, con = annotcorr.rand_info(rng)
                    if not cpr and not lic:
                        cpr = [annotcorr.HOLDER_LINES[0]]
                    force = "1" if (st.can_handle_multi() and rng.random() < 0.2) else "0"
                    replace = "0" if rng.random() < 0.25 else "1"
                    t = first_line_body(rng, st, head, n, le=rng.choice(["\n", "\n", "\n", "\r\n"]), planted=rng.random() < 0.15, bom=rng.random() < 0.08)
                    count += 1
                    # the model's text functions are quadratic in the length of a line (80 ms a case here): compared on every 20th case (thorough: 6th)
                    yield {"s": st.__name__, "f": "0" + force + "0" + replace + "0", "tmpl": "default", "cpr": cpr, "lic": lic, "con": con, "t": t,
                           "head": head, "n": n, "model": n <= MODEL_LIMIT and count % (6 if thorough else 20) == 0}

    def model_lines(self, case):
        if not case.get("model"):
            return []
        return super().model_lines(case)

    def oracle(self, case, impl_out):
        if not impl_out.startswith("W:"):
            return None
        data = dec(impl_out[2:]).encode("utf-8")
        want = (set(case["cpr"]), {G.norm_lic(x) for x in case["lic"]}, set(case["con"]))
        got = G.lint_read_bytes(data)
        m = {"unreadable": True} if got is None else G.missing(want, got, False)
        if not m:
            return None
        before = case["t"].encode("utf-8")
        prev = G.lint_read_bytes(before, window=False) or (set(), set(), set())
        k = G.obstacle(data, want, False, before=before, markers=G.committed_markers(case["s"]),
                       holds=tuple(set(a) | set(b) for a, b in zip(want, prev)))
        return "readback-%s: written, but %r is not read back from the first %d bytes (first line begins %r, %d bytes)%s" % (
            sorted(m)[0], m, G.WINDOW, case["head"], len(case["t"].split("\n")[0].encode("utf-8")), " {shape=%s}" % k if k else "")

    def nontrivial(self, case, impl_out):
        return (case["s"], case["head"], case["f"], impl_out[:2])

    def show(self, case):
        c = {k: case[k] for k in ("s", "f", "cpr", "lic", "con", "head", "n")}
        c["t"] = case["t"] if len(case["t"]) < 300 else case["t"][:120] + "...[%d characters]..." % len(case["t"]) + case["t"][-120:]
        return c


# --------------------------------------------------------------------------
# the same through the real command line and the real linter


def _by_style():
    out = {}
    for kind, key, style in G.table_entries():
        out.setdefault(style, []).append((kind, key, style))
    return out


class FirstLineE2EStream(base.EndToEndStream):
    name = "e2e-firstline"
    rule = ("real `reuse annotate` then real `reuse lint --json` on one file (a table entry of the style, or --style forced on a file of an "
            "unrecognised type) whose first line is longer than 4096 bytes and begins with a live / committed first-line marker of the style, a "
            "case variant or a look-alike (as in `firstline`), with --no-replace / --multi-line / a .license option / CRLF / a byte order "
            "mark / an own header below the long line at a low rate; oracle as for `e2e` (exit 0 => lint reads the request back); a header "
            "behind a first line that starts with a committed marker of the style is the known finding, behind any other line a violation")

    def cases(self, tier, rng):
        thorough = tier == "thorough"
        by_style = _by_style()
        for st in annotcorr.all_styles():
            if st.__name__ in ("UncommentableCommentStyle", "EmptyCommentStyle"):
                continue
            cands, own = candidates(st)
            if thorough:
                picks = cands
            elif own:
                picks = list(dict.fromkeys(list(st.SHEBANGS) + rng.sample(cands, 3)))
            else:
                picks = rng.sample(cands, 1) if rng.random() < 0.6 else []
            for head in picks:
                o = {"tmpl": "default", "prefix": rng.choice(G.PREFIXES), "year": rng.choice([None, ["2019"], "exclude"])}
                if rng.random() < 0.2:
                    o["no_replace"] = True
                if st.can_handle_multi() and rng.random() < 0.15:
                    o["line"] = "multi"
                if rng.random() < 0.1:
                    o["dot"] = rng.choice(["fallback", "skip"])
                cpr, lic, con = G.rand_request(rng)
                n = rng.choice(SIZES)
                body = first_line_body(rng, st, head, n, le=rng.choice(["\n", "\n", "\n", "\r\n"]), planted=rng.random() < 0.12, bom=rng.random() < 0.06,
                                       fills=TEXT_FILLS)
                if st.__name__ in by_style and rng.random() < 0.85:
                    kind, key, style = rng.choice(by_style[st.__name__])
                    f = {"name": G.name_for(kind, key), "body": body, "entry": [kind, key, style], "kind": "table"}
                elif st.SHORTHAND:
                    o["style"] = st.SHORTHAND
                    o.pop("dot", None)
                    f = {"name": "forced.txt", "body": body, "kind": "table"}
                else:
                    continue
                yield dict(o, files=[f], cpr=cpr, lic=lic, con=con, head=head)

    def show(self, case):
        c = dict(case)
        c["files"] = [dict(f, body=f["body"] if len(f["body"]) < 300 else f["body"][:100] + "...[%d characters]..." % len(f["body"]) + f["body"][-100:])
                      for f in case["files"]]
        return c


# --------------------------------------------------------------------------
# binary by content, text by name — and the other way round

C0 = "".join(chr(i) for i in range(1, 32) if i not in (9, 10, 13))


def sniff_body(rng, shape):
    """content (str, valid UTF-8 once encoded) of the given shape"""
    if shape == "c0-constants":          # a fixture for an escaping routine: string constants holding raw control characters
        k = rng.randint(12, 40)
        return "".join("K%d = \"%s\"\n" % (i, "".join(rng.sample(C0, rng.randint(12, len(C0))))) for i in range(k))
    if shape == "nul-records":           # fixed-size records padded with NUL
        w = rng.choice([8, 16, 32])
        return "".join((rng.choice(["name", "value", "id", "key"]) + str(i)).ljust(w, "\0") + rng.choice(["", "\n"]) for i in range(rng.randint(20, 60)))
    if shape == "one-nul":               # ordinary text with a single NUL within the first 512 bytes
        lines = [rng.choice(G.CODE_LINES) + "\n" for _ in range(rng.randint(8, 40))]
        lines.insert(rng.randint(0, min(len(lines), 8)), "\0")
        return "".join(lines)
    if shape == "late-controls":         # control characters only after the 512 bytes the library looks at
        head = ""
        while len(head.encode("utf-8")) < 700:
            head += rng.choice(G.CODE_LINES) + "\n"
        return head + "".join("K%d = \"%s\"\n" % (i, C0) for i in range(rng.randint(3, 20))) + rng.choice(["", "\0\0\0\n"])
    if shape == "dense-run":             # one long run of multi-byte characters, no line break
        return rng.choice(["张三李四", "\U0001F600\U0001F601", "caf\u0085\u0090\u009f", "é", "Ω≈ç√"]) * rng.randint(100, 400) + rng.choice(["", "\n"])
    if shape == "escapes":               # terminal escape sequences / bells inside code
        return "".join(rng.choice(["echo \"\x1b[31mred\x1b[0m\"\n", "print(\"\\a\")\n\x07\x07\n", "x = 1\n", "s = '\x7f\x7f'\n"]) for _ in range(rng.randint(10, 60)))
    if shape == "sprinkled":             # text with a share of control characters
        p = rng.choice([0.02, 0.1, 0.3, 0.6])
        return "".join(rng.choice("abcdefgh =\n") if rng.random() > p else chr(rng.randint(1, 8)) for _ in range(rng.randint(300, 1500)))
    raise ValueError(shape)


SNIFF_SHAPES = ["c0-constants", "c0-constants", "nul-records", "one-nul", "late-controls", "dense-run", "escapes", "sprinkled"]
#: names binaryornot calls binary whatever they hold (its extension list) — none of them has a comment style
BINARY_NAMES = ["picture.gif", "archive.zip", "lib.so", "font.ttf", "app.exe", "data.bin", "movie.mp4", "x.class", "disk.iso", "sound.mp3"]


class SnifferStream(base.EndToEndStream):
    name = "e2e-sniff"
    rule = ("real `reuse annotate` then real `reuse lint --json` on one file: (a) a commentable entry of the extension / file-name tables "
            "holding valid UTF-8 that binaryornot may call binary — string constants of raw C0 control characters, NUL-padded records, "
            "one NUL among code, control characters only after the first 512 bytes, a dense run of multi-byte characters without line "
            "break, terminal escapes, text sprinkled with 2-60 % control characters — with an own-style header on top half of the time; "
            "(b) ordinary text under a name binaryornot lists as binary (.gif .zip .so .ttf .exe .bin ...; --style forced, "
            "--fallback-dot-license or --skip-unrecognised) and under uncommentable table entries; every .license option, forced styles, "
            "--no-replace, existing FILE.license at a low rate.  Oracle (property text): exit 0 => lint reads back requested U previously "
            "declared; a file binaryornot called binary before the run is never written into; otherwise nothing was written.  The "
            "model's routing is compared with binaryornot's own verdict as its `binary` parameter.  non-trivial = distinct (shape, "
            "verdict before, where the header went, outcome)")

    def __init__(self):
        self.verdict = {}

    def cases(self, tier, rng):
        from reuse import comment
        thorough = tier == "thorough"
        # (a `.license` file is its own FILE.license: nothing to route)
        entries = [e for e in G.table_entries() if e[2] not in ("UncommentableCommentStyle", "EmptyCommentStyle")]
        unc = [e for e in G.table_entries() if e[2] == "UncommentableCommentStyle"]
        shorthands = list(comment.NAME_STYLE_MAP)
        for i in range(500 if thorough else 54):
            o = {"tmpl": rng.choice(["default"] * 5 + ["adds-text"]), "prefix": rng.choice(G.PREFIXES), "year": rng.choice([None, ["2019"], "exclude"])}
            o["dot"] = rng.choice([None, None, None, None, "force", "fallback", "skip"])
            if rng.random() < 0.1:
                o["no_replace"] = True
            cpr, lic, con = G.rand_request(rng)
            r = rng.random()
            if r < 0.72:
                kind, key, style = rng.choice(entries)
                shape = SNIFF_SHAPES[i % len(SNIFF_SHAPES)]
                body = sniff_body(rng, shape)
                if rng.random() < 0.4:
                    try:
                        block = G.style_class(style).create_comment("SPDX-FileCopyrightText: 2017 Prev Holder\n\nSPDX-License-Identifier: ISC")
                        body = block + "\n\n" + body
                    except Exception:
                        pass
                f = {"name": G.name_for(kind, key, rng), "body": body, "entry": [kind, key, style], "kind": "table", "shape": shape}
                if rng.random() < 0.2:
                    o["style"] = rng.choice(shorthands)
            elif r < 0.9:
                body, _ = G.rand_body(rng, None)
                f = {"name": rng.choice(BINARY_NAMES), "body": body or "payload\n", "kind": "unrecognised", "shape": "text-under-binary-name"}
                pick = rng.random()
                if pick < 0.5:
                    o["style"], o["dot"] = rng.choice(shorthands), None
                else:
                    o["dot"] = rng.choice(["fallback", "skip", "force"])
            else:
                kind, key, style = rng.choice(unc)
                body, _ = G.rand_body(rng, None)
                f = {"name": G.name_for(kind, key), "body": body or "payload\n", "entry": [kind, key, style], "kind": "table", "shape": "text-uncommentable"}
            if o.get("style"):
                o["dot"] = None if o.get("dot") == "skip" else o.get("dot")
            if rng.random() < 0.1:
                f["sib"] = rng.choice(["", "SPDX-FileCopyrightText: 2001 Sibling Holder\n\nSPDX-License-Identifier: Zlib\n"])
            yield dict(o, files=[f], cpr=cpr, lic=lic, con=con)

    def impl(self, case):
        out = super().impl(case)
        try:
            rec = json.loads(out)["rec"]
            self.verdict[json.dumps(case, sort_keys=True)] = rec["binary"]
        except Exception:
            pass
        return out

    def _labelled(self, case):
        """the case with the file's kind set from binaryornot's verdict before the run (the library is outside the code under test)"""
        v = self.verdict.get(json.dumps(case, sort_keys=True), {})
        return dict(case, files=[dict(f, kind="binary" if v.get(f["name"]) else f["kind"]) for f in case["files"]])

    def oracle(self, case, impl_out):
        return super().oracle(self._labelled(case), impl_out)

    def model_lines(self, case):
        return super().model_lines(self._labelled(case))

    def agree(self, case, impl_out, model_out):
        return super().agree(self._labelled(case), impl_out, model_out)

    def nontrivial(self, case, impl_out):
        if impl_out.startswith("EXC"):
            return None
        out = json.loads(impl_out)
        f = case["files"][0]
        v = self.verdict.get(json.dumps(case, sort_keys=True), {})
        return (f.get("shape"), bool(v.get(f["name"])), tuple(k.endswith(".license") for k in out["rec"]["changed"]), case.get("dot"), bool(case.get("style")), out["rc"])

    def show(self, case):
        return case


STREAMS = [FirstLineStream(), FirstLineE2EStream(), SnifferStream()]
