"""C18 — the SPDX bill of materials is a faithful, well-formed image of the project."""
import hashlib
import itertools
import json
import os
import random
import re

from core import Property, Stream, enc, enc_list, enc_bool, enc_opt, dec, run_driver
import cli
from se2e import SpdxE2EStream

# --------------------------------------------------------------------------
# independent pieces: tag-value reader, licence-expression reader, truth tables


class NotTagValue(Exception):
    pass


_TAG = re.compile(r"([A-Za-z]+): (.*)\Z", re.S)


def read_tv(text):
    """Tag-value reader written from the SPDX 2.1 description: `Tag: value` lines,
    `<text>...</text>` spans (closed by the first closing marker, which must end its
    line), blank lines between sections.  Returns [(tag, value, is_text)]."""
    entries = []
    lines = text.split("\n")
    i = 0
    while i < len(lines):
        line = lines[i]
        i += 1
        if line == "":
            continue
        m = _TAG.match(line)
        if not m:
            raise NotTagValue("line %d is not 'Tag: value': %r" % (i, line[:60]))
        tag, val = m.group(1), m.group(2)
        if val.startswith("<text>"):
            cur = val[len("<text>"):]
            body = []
            while True:
                k = cur.find("</text>")
                if k >= 0:
                    if k + len("</text>") != len(cur):
                        raise NotTagValue("line %d: characters after the closing text marker: %r" % (i, cur[k:k + 40]))
                    body.append(cur[:k])
                    break
                body.append(cur)
                if i >= len(lines):
                    raise NotTagValue("text span of %s not closed" % tag)
                cur = lines[i]
                i += 1
            entries.append((tag, "\n".join(body), True))
        else:
            entries.append((tag, val, False))
    return entries


def sections(entries):
    """header entries, file sections (start at FileName), licence sections (start at LicenseID)."""
    head, files, lics = [], [], []
    cur = head
    for e in entries:
        if e[0] == "FileName":
            cur = []
            files.append(cur)
        elif e[0] == "LicenseID":
            cur = []
            lics.append(cur)
        cur.append(e)
    return head, files, lics


_TOK = re.compile(r"\s*(\(|\)|[^\s()]+)")


def parse_expr(s):
    """SPDX licence expression -> nested tuples ('a', name) | ('&', l, r) | ('|', l, r);
    `X WITH Y` is one atom.  Precedence WITH > AND > OR."""
    toks = _TOK.findall(s)
    if "".join(toks) != re.sub(r"\s+", "", s):
        raise ValueError("cannot tokenise %r" % s)
    pos = [0]

    def peek():
        return toks[pos[0]] if pos[0] < len(toks) else None

    def take():
        t = peek()
        pos[0] += 1
        return t

    def p_or():
        l = p_and()
        while peek() is not None and peek().upper() == "OR":
            take()
            l = ("|", l, p_and())
        return l

    def p_and():
        l = p_atom()
        while peek() is not None and peek().upper() == "AND":
            take()
            l = ("&", l, p_atom())
        return l

    def p_atom():
        t = take()
        if t is None or t == ")" or t.upper() in ("AND", "OR", "WITH"):
            raise ValueError("unexpected %r in %r" % (t, s))
        if t == "(":
            e = p_or()
            if take() != ")":
                raise ValueError("unbalanced %r" % s)
            return e
        if peek() is not None and peek().upper() == "WITH":
            take()
            x = take()
            if x is None or x in "()" or x.upper() in ("AND", "OR", "WITH"):
                raise ValueError("bad WITH in %r" % s)
            return ("a", t + " WITH " + x)
        return ("a", t)

    e = p_or()
    if peek() is not None:
        raise ValueError("trailing tokens in %r" % s)
    return e


def expr_keys(s):
    """licence and exception identifiers of an expression, each once."""
    out = []
    for t in _TOK.findall(s):
        if t in "()" or t.upper() in ("AND", "OR", "WITH"):
            continue
        if t not in out:
            out.append(t)
    return out


def atoms(e):
    return {e[1]} if e[0] == "a" else atoms(e[1]) | atoms(e[2])


def ev(e, sigma):
    if e[0] == "a":
        return sigma[e[1]]
    if e[0] == "&":
        return ev(e[1], sigma) and ev(e[2], sigma)
    return ev(e[1], sigma) or ev(e[2], sigma)


def tt_equiv(a, b):
    """evaluate both sides under every truth assignment of the licence symbols"""
    syms = sorted(atoms(a) | atoms(b))
    for bits in itertools.product([False, True], repeat=len(syms)):
        sigma = dict(zip(syms, bits))
        if ev(a, sigma) != ev(b, sigma):
            return False
    return True


def conj(es):
    e = es[0]
    for f in es[1:]:
        e = ("&", e, f)
    return e


def rpn(e):
    if e[0] == "a":
        return ["@" + e[1]]
    return rpn(e[1]) + rpn(e[2]) + [e[0]]


def render(e):
    if e[0] == "a":
        return e[1]
    return "(%s %s %s)" % (render(e[1]), "AND" if e[0] == "&" else "OR", render(e[2]))


# --------------------------------------------------------------------------
# generators

IDS = ["MIT", "0BSD", "Apache-2.0", "GPL-3.0-or-later", "GPL-2.0+", "CC0-1.0", "LicenseRef-foo", "LicenseRef-bar.1", "ISC"]
WITHS = ["GPL-2.0-only WITH Classpath-exception-2.0", "GPL-3.0-or-later WITH GCC-exception-3.1", "Apache-2.0 WITH LLVM-exception"]


def rand_expr(rng, depth, pool=None):
    pool = pool or (IDS + WITHS)
    if depth == 0 or rng.random() < 0.3:
        return ("a", rng.choice(pool))
    return (rng.choice("&|"), rand_expr(rng, depth - 1, pool), rand_expr(rng, depth - 1, pool))


def rand_expr_text(rng, depth):
    e = rand_expr(rng, depth)

    def r(e, top):
        if e[0] == "a":
            return e[1]
        s = "%s %s %s" % (r(e[1], False), "AND" if e[0] == "&" else "OR", r(e[2], False))
        return s if top and rng.random() < 0.5 else "(" + s + ")"

    return r(e, True)


HOLDERS = ["Jane Doe", "Jörg Müller <j@example.org>", "Example Corp.", "FSFE e.V. <https://fsfe.org>", "a < b > c", "</tex>t", "x <text> y"]
PATHS = ["a.py", "src/b c.c", "src/ünï/d.txt", "docs/read me.md", "data/x.bin", "data/blob", "t1", "deep/er/est/file.rs",
         "sp ace/ö.py", "naïve.txt", "weird'name.txt", "x=y.cfg", "dash-.txt", "#hash.txt", "q\"uote.txt", "日本/語.txt",
         "Makefile", "src/FileName: x", "z.json", "tab\there.txt"]
SIZES = [1, 2, 100, 8191, 8192, 8193, 16384, 70000]
REF_TEXTS = ["single line", "multi\nline\n\ntext\n", "ünïcode © text\n", "no trailing newline\nsecond", "<text>nested open\n",
             " leading space\n", "tabs\tand\r\ncrlf\r\n", "\n\nstarts blank\n", "FileName: ./fake\nSPDXID: SPDXRef-fake\n", "x", "</tex t>\n"]
REF_IDS = ["LicenseRef-foo", "LicenseRef-bar.1", "LicenseRef-Unknown-x", "LicenseRef-a-b", "LicenseRef-Z9"]
CREATORS = ["Jane Doe", "Jane Doe (jane@example.org)", "FSFE", "Ünï Örg (x)", "a(b", "(c)", "", " "]
PROJ = ["proj", "my project", "prøj", "<text>"]


def rand_info(rng, allow_empty=False):
    ne = rng.choice([0, 1, 1, 2, 3] if allow_empty else [1, 1, 2, 3, 0])
    nc = rng.choice([0, 1, 1, 2])
    if not allow_empty and ne == 0 and nc == 0:
        ne = 1
    es = []
    for _ in range(ne):
        e = rand_expr_text(rng, rng.choice([0, 0, 1, 2, 3]))
        # one source keeps its expressions in a set of parsed objects whose equality ignores order and repetition of
        # operands; expressions with different symbol sets can never coincide, so the ground truth stays exact
        if all(set(expr_keys(e)) != set(expr_keys(x)) for x in es):
            es.append(e)
    return {
        "e": es,
        "c": ["%d %s" % (rng.randint(1990, 2025), rng.choice(HOLDERS)) for _ in range(nc)],
    }


TWIN_NAMES = ["__init__.py", "index.js", "mod.rs", ".gitkeep", "README.md", "logo.bin", "py.typed", "Makefile", "no ext"]
TWIN_DIRS = ["", "src", "src/alpha", "src/beta", "tests", "pkg/a b", "vendor/x", "vendor/x/src", "日本"]


def gen_twins(rng, taken):
    """One or two groups of 2-4 covered files that share their BASE NAME and their CONTENT byte for byte and differ only in the
    directory (the header-only __init__.py of every package, identical stubs, a vendored copy), in some groups also the same
    content under different base names: what tells such files apart is the project-relative name alone."""
    out = []
    for g in range(rng.choice([1, 1, 2])):
        base = rng.choice(TWIN_NAMES)
        kind = "bin" if base.endswith(".bin") else rng.choice(["text", "text", "text", "tiny", "big"])
        proto = {"kind": kind, "size": rng.choice(SIZES), "seed": rng.randint(0, 10 ** 6), "header": None, "license": None, "toml": None}
        if kind in ("text", "big"):
            proto["header"] = rand_info(rng) if rng.random() < 0.8 else None
            proto["body"] = rng.choice(["", "", "shared body\n"]) if proto["header"] else "shared body %d\n" % g
        elif rng.random() < 0.5:
            proto["license"] = rand_info(rng)
        dirs = rng.sample(TWIN_DIRS, rng.randint(2, 4))
        names = [base] * len(dirs)
        if rng.random() < 0.25:
            names[-1] = "other-" + base   # same content, same directory depth, another base name
        for d, n in zip(dirs, names):
            path = (d + "/" if d else "") + n
            if path in taken:
                continue
            taken.add(path)
            out.append(dict(proto, path=path))
    return out


# ---- names that are not in Unicode normal form C, twins that differ only in normalisation or case, other non-ASCII names.
# Each group is a list of project-relative paths that may stand side by side in one tree (Linux keeps names byte for byte).
UNI_GROUPS = [
    ["re\u0301sume\u0301.md", "r\xe9sum\xe9.md"],   # decomposed / composed twins
    ["docs/cafe\u0301.md", "docs/caf\xe9.md", "docs/cafe.md"],
    ["Cafe\u0301/menu.txt", "Caf\xe9/menu.txt"],   # the DIRECTORY is the twin
    ["src/u\u0308ber/a\u0308.py", "src/\xfcber/a\u0308.py", "src/\xfcber/\xe4.py"],
    ["\u212b.txt", "\xc5.txt", "A\u030a.txt"],   # ANGSTROM SIGN / composed / decomposed
    ["\u2126hm.txt", "\u03a9hm.txt"],   # OHM SIGN / GREEK CAPITAL OMEGA
    ["\u1112\u1161\u11ab\u1100\u1173\u11af.txt", "\ud55c\uae00.txt"],   # Hangul jamo / syllables
    ["\u1112\u1161\u11ab/\u1100\u1173\u11af.txt"],
    ["x\u0307\u0323.txt", "x\u0323\u0307.txt", "\u1e8b\u0323.txt"],   # combining marks in both orders (NFC reorders them)
    ["e\u0301\u0301.txt", "\xe9\u0301.txt"],   # stacked accents
    ["\u0340grave.txt", "\u0300grave.txt"],   # a mark with a singleton decomposition, leading
    ["\ufb01le.txt", "file.txt"],   # ligature (NFC keeps it, NFKC does not)
    ["\uff46\uff55\uff4c\uff4c.txt", "full.txt"],   # full-width letters
    ["\xdf.txt", "ss.txt", "SS.txt"],   # case folding
    ["\u0130.txt", "i\u0307.txt", "I.txt", "i.txt"],
    ["README.MD", "readme.md", "Readme.md"],   # case twins
    ["Makefile.am", "makefile.am", "dir/File.c", "Dir/File.c", "dir/file.c"],
    ["\U0001f600.txt", "emoji \U0001f468\u200d\U0001f469\u200d\U0001f467.md"],   # outside the BMP, joiners
    ["\u05e2\u05d1\u05e8\u05d9\u05ea.txt", "\u0639\u0631\u0628\u064a.txt"],   # right-to-left
    ["\u0928\u093f.txt", "\u0915\u093c.txt", "\u0958.txt"],   # Devanagari: U+0958 is excluded from composition
    ["\xa0nbsp.txt", "\u200bzero.txt", "soft\xadhyphen.txt"],   # blanks that are not blanks
    ["\u01c5.txt", "\u01c4.txt", "\u01c6.txt", "D\u017d.txt"],   # title-case digraph
]


def is_nfc(s):
    import unicodedata
    return unicodedata.normalize("NFC", s) == s


def rand_file(rng, p):
    kind = rng.choice(["text", "text", "text", "big", "bin", "bin", "tiny", "empty"])
    if p.endswith(".bin") and kind != "empty":
        kind = "bin"  # binaryornot decides by extension first
    f = {"path": p, "kind": kind, "size": rng.choice(SIZES), "seed": rng.randint(0, 10 ** 6),
         "header": None, "license": None, "toml": None}
    if kind in ("text", "big") and rng.random() < 0.7:
        f["header"] = rand_info(rng)
    if kind != "empty":
        if rng.random() < (0.5 if kind in ("bin", "tiny") else 0.15):
            f["license"] = rand_info(rng)
        if rng.random() < 0.3:
            t = rand_info(rng)
            t["prec"] = rng.choice(["closest", "aggregate", "override", None])
            f["toml"] = t
    return f


def gen_uni(rng, taken):
    """1-2 groups of names outside ASCII / outside NFC; of each group all members, or a part of it"""
    out = []
    for grp in rng.sample(UNI_GROUPS, rng.choice([1, 1, 2])):
        members = list(grp) if rng.random() < 0.6 else rng.sample(grp, rng.randint(1, len(grp)))
        shared = rand_file(rng, "x") if rng.random() < 0.3 else None      # twins with the same content and information
        for p in members:
            if p in taken or any(q.startswith(p + "/") or p.startswith(q + "/") for q in taken):
                continue
            taken.add(p)
            f = dict(json.loads(json.dumps(shared)), path=p) if shared else rand_file(rng, p)
            if f["kind"] == "empty" and rng.random() < 0.7:
                f["kind"] = "text"
            out.append(f)
    return out


# ---- one notice in several spellings
COP_TAGS = ["SPDX-FileCopyrightText: ", "SPDX-FileCopyrightText: (C) ", "SPDX-FileCopyrightText: (c) ", "SPDX-FileCopyrightText: © ",
            "SPDX-FileCopyrightText: Copyright ", "SPDX-FileCopyrightText: Copyright (C) ", "SPDX-FileCopyrightText: Copyright © ",
            "SPDX-SnippetCopyrightText: ", "Copyright ", "Copyright (C) ", "Copyright (c) ", "Copyright © ", "© "]
TWIN_HOLDERS = ["Jane Doe", "Example Corp", "Jörg Müller <j@example.org>", "FSFE e.V.", "The Demo Authors", "jane@example.com"]


def spellings(rng, k, bare):
    """k different lines that state ONE notice: another tag in front (SPDX-FileCopyrightText / Copyright / the sign, with and without
    (C)), the holder in another case, a comma after the year, a year range, several blanks or a tab inside; with `bare` (REUSE.toml values are taken as they are) also the notice
    without any tag and with two blanks inside.  By construction every tagged line is what the extraction keeps of a header line
    holding it: a recognised tag, one blank, the year, the holder, nothing behind."""
    year, holder = str(rng.randint(1990, 2025)), rng.choice(TWIN_HOLDERS)
    forms = []
    for h in (holder, holder, holder.upper(), holder.lower()):
        for y in (year + " ", year + " ", year + ", ", year + "-" + str(int(year) + 3) + " "):
            n = y + h
            forms.extend(t + n for t in COP_TAGS)
            if bare:
                forms.extend([n, n, n, y + " " + h])
    rng.shuffle(forms)
    # the plain pair first: same year, same holder, tag / no tag (or two tags)
    base = year + " " + holder
    first = [base] if bare and rng.random() < 0.6 else [rng.choice(COP_TAGS[7:]) + base]
    out = uniq(first + ["SPDX-FileCopyrightText: " + base] * (rng.random() < 0.7) + forms)[:k]
    if rng.random() < 0.35:
        # the blanks inside a notice are part of it: two blanks / a tab where another spelling has one
        j = rng.randrange(1, len(out))
        head, _, tail = out[j].rpartition(" ")
        out[j] = head + rng.choice(["  ", "   ", " \t", "\t"]) + tail
    return uniq(out)


def add_twin_notices(rng, files):
    """In 1-2 covered files one notice reaches the file in two or three spellings: two lines of one header / one .license file, a
    REUSE.toml table (aggregate: both sources count) beside the header or the .license file, two values of one REUSE.toml table."""
    cands = [f for f in files if f["kind"] != "empty"]
    for f in rng.sample(cands, min(len(cands), rng.choice([1, 1, 2]))):
        own = "license" if f["license"] or f["kind"] not in ("text", "big") else "header"
        shape = rng.choice(["own-pair", "toml+own", "toml+own", "toml+own", "toml-pair"])
        if shape == "own-pair":
            ls = spellings(rng, rng.choice([2, 2, 3]), False)
            f[own] = f[own] or {"e": ["MIT"], "c": []}
            f[own]["raw"] = ls
        elif shape == "toml+own":
            ls = spellings(rng, rng.choice([2, 2, 3]), True)
            tagged = [l for l in ls if l[:1] in "SC©" and not l[0].isdigit()] or ["SPDX-FileCopyrightText: 2000 Jane Doe"]
            f[own] = f[own] or {"e": ["MIT"], "c": []}
            f[own]["raw"] = tagged[:rng.choice([1, 1, 2])]
            t = f["toml"] or {"e": [], "c": []}
            t["c"] = uniq(t["c"] + [l for l in ls if l not in f[own]["raw"]] + ([ls[0]] if rng.random() < 0.3 else []))
            t["prec"] = "aggregate" if rng.random() < 0.85 else rng.choice(["closest", "override", None])
            f["toml"] = t
        else:
            t = f["toml"] or {"e": ["0BSD"], "c": [], "prec": rng.choice(["closest", "aggregate", "override", None])}
            t["c"] = uniq(t["c"] + spellings(rng, rng.choice([2, 3]), True))
            f["toml"] = t


def gen_tree(rng, nfiles=None):
    paths = rng.sample(PATHS, nfiles or rng.randint(1, 8))
    files = []
    for p in paths:
        files.append(rand_file(rng, p))
    if rng.random() < 0.35:
        files.extend(gen_twins(rng, {f["path"] for f in files}))
    if rng.random() < 0.4:
        files.extend(gen_uni(rng, {f["path"] for f in files}))
    if rng.random() < 0.4:
        add_twin_notices(rng, files)
    lics = []
    used = set()
    for f in files:
        for src in ("header", "license", "toml"):
            if f[src]:
                for e in f[src]["e"]:
                    used.update(expr_keys(e))
    for k in sorted(used):
        if not k.startswith("LicenseRef-") and rng.random() < 0.6:
            lics.append({"path": "LICENSES/%s.txt" % k, "text": "text of %s\n" % k})
    for rid in rng.sample(REF_IDS, rng.randint(0, 3)):
        sub = "sub/" if rng.random() < 0.15 else ""
        lics.append({"path": "LICENSES/%s%s%s" % (sub, rid, rng.choice([".txt", ".md", ".text"])), "text": rng.choice(REF_TEXTS)})
    if rng.random() < 0.15:
        lics.append({"path": "LICENSES/custom-licence.txt", "text": "not a LicenseRef\n"})
    return {"proj": rng.choice(PROJ), "files": files, "lics": lics,
            "person": rng.choice(CREATORS), "org": rng.choice(CREATORS),
            "mp": rng.random() < 0.12, "out": rng.choice([None, None, "outside", "inside"])}


def cop_lines(info):
    """the copyright lines of a header / .license file: the notices behind the SPDX tag, then the lines that bring their own tag"""
    return ["SPDX-FileCopyrightText: " + c for c in info["c"]] + list(info.get("raw", []))


def header_lines(info):
    return cop_lines(info) + ["SPDX-License-Identifier: " + e for e in info["e"]]


def content_of(f):
    r = random.Random(f["seed"])
    kind = f["kind"]
    if kind == "empty":
        return b""
    if kind == "tiny":
        return b"x"
    if kind == "bin":
        n = f["size"]
        body = bytes(r.getrandbits(8) for _ in range(min(n, 64)))
        return (b"\x00\x01" + body + b"\x00" * n)[:max(n, 2)]
    head = "".join(l + "\n" for l in header_lines(f["header"])) if f["header"] else ""
    if kind == "text":
        return (head + f.get("body", "body of %s\n" % f["path"])).encode("utf-8")
    filler = "".join("line %d %s\n" % (i, "x" * r.randint(0, 60)) for i in range(2200))
    return (head + filler).encode("utf-8")


def toml_text(files):
    out = ["version = 1\n"]
    for f in files:
        t = f["toml"]
        if not t:
            continue
        out.append("\n[[annotations]]\npath = %s\n" % json.dumps(f["path"], ensure_ascii=max(f["path"]) <= "\uffff"))
        if t.get("prec"):
            out.append("precedence = %s\n" % json.dumps(t["prec"]))
        if t["c"]:
            out.append("SPDX-FileCopyrightText = %s\n" % json.dumps(t["c"]))
        if t["e"]:
            out.append("SPDX-License-Identifier = %s\n" % (json.dumps(t["e"]) if len(t["e"]) > 1 else json.dumps(t["e"][0])))
    return "".join(out) if len(out) > 1 else None


def tree_files(case):
    files = {}
    for f in case["files"]:
        files[f["path"]] = content_of(f)
        if f["license"]:
            files[f["path"] + ".license"] = "".join(l + "\n" for l in header_lines(f["license"]))
    t = toml_text(case["files"])
    if t:
        files["REUSE.toml"] = t
    for l in case["lics"]:
        files[l["path"]] = l["text"].encode("utf-8")
    return files


def uniq(l):
    out = []
    for x in l:
        if x not in out:
            out.append(x)
    return out


def truth(f):
    """generator ground truth: the (copyright lines, expressions) of every source that applies, in order"""
    own = None
    if f["license"]:
        own = f["license"]
    elif f["kind"] in ("text", "big") and f["header"]:
        own = f["header"]
    t = f["toml"]
    if t and t.get("prec") == "override":
        own = None
    own_c = uniq(cop_lines(own)) if own else []
    own_e = uniq(own["e"]) if own else []
    srcs = []
    tc, te = (uniq(t["c"]), uniq(t["e"])) if t else ([], [])
    prec = (t.get("prec") or "closest") if t else None
    if prec in ("override", "aggregate"):
        srcs.append((tc, te))
    if own_c or own_e:
        srcs.append((own_c, own_e))
    if prec == "closest":
        if not own_c and not own_e:
            srcs.append((tc, te))
        elif own_c and not own_e:
            srcs.append(([], te))
        elif own_e and not own_c:
            srcs.append((tc, []))
    return srcs


def covered(case):
    return [f for f in case["files"] if f["kind"] != "empty"]


def newline_text(b):
    return b.decode("utf-8").replace("\r\n", "\n").replace("\r", "\n")


OPTSETS = ["plain", "person", "org", "both", "add-person", "add-org", "add-both", "add-orgalias", "add-alone"]


def opt_args(case, key):
    a = []
    if key.startswith("add"):
        a.append("--add-license-concluded")
    if key in ("person", "both", "add-person", "add-both"):
        a += ["--creator-person", case["person"]]
    if key in ("org", "both", "add-org", "add-both"):
        a += ["--creator-organization", case["org"]]
    if key == "add-orgalias":
        a += ["--creator-organisation=" + case["org"]]
    return a


def opt_creators(case, key):
    person = case["person"] if key in ("person", "both", "add-person", "add-both") else None
    org = case["org"] if key in ("org", "both", "add-org", "add-both", "add-orgalias") else None
    return person, org


def tv_verdict(doc):
    """verdict of the harness reader in the form the driver's reader answers: entries:FileName entries, or none"""
    try:
        es = read_tv(doc)
    except NotTagValue:
        return "none"
    return "%d:%d" % (len(es), sum(1 for e in es if e[0] == "FileName"))


def canon_doc(out):
    """uuid and time stamp are parameters of the model: replace them where the header has them"""
    lines = out.split("\n")
    for i, l in enumerate(lines[:12]):
        if l.startswith("DocumentNamespace: http://spdx.org/spdxdocs/spdx-v2.1-") and i == 4:
            lines[i] = "DocumentNamespace: http://spdx.org/spdxdocs/spdx-v2.1-UUID"
        if l.startswith("Created: ") and re.fullmatch(r"Created: \d{4}-\d\d-\d\dT\d\d:\d\d:\d\dZ", l):
            lines[i] = "Created: CREATED"
            break
    return "\n".join(lines)


# --------------------------------------------------------------------------
# end-to-end stream


class TreeStream(Stream):
    name = "tree"
    rule = ("generated project trees (1-8 files from a pool with spaces, quotes, non-ASCII, nested directories, a third of the trees with one or two groups of 2-4 files that share base name AND content in different directories -- header-only __init__.py, identical stubs and binaries --; "
            "40 percent of the trees with 1-2 groups of names outside ASCII: file and directory names that are not in Unicode normal form C (combining accents, Hangul jamo, ANGSTROM / OHM SIGN, marks in non-canonical order, U+0958), their composed twins side by side, "
            "case twins and case-folding twins (README.MD / readme.md, U+00DF / ss, U+0130), ligature and full-width letters, names outside the BMP, right-to-left, NBSP / ZWSP / soft hyphen; 40 percent of the trees with 1-2 files that one notice reaches in 2-3 spellings -- "
            "two lines of one header or .license file, a REUSE.toml table (aggregate, sometimes closest / override) beside the header or .license file, two values of one table; spellings: SPDX-FileCopyrightText / SPDX-SnippetCopyrightText / Copyright / the sign with and "
            "without (C), no tag at all (REUSE.toml), holder in another case, comma after the year, a year range --; content "
            "empty / 1 byte / text / > 64 KiB / binary at sizes around the 8 KiB read chunk; 0-3 expressions with WITH/AND/OR "
            "nesting per source; sources header, .license, REUSE.toml closest/aggregate/override; LicenseRef texts with blank "
            "lines, CRLF, fake tags) x every option set of `reuse spdx` (9 sets; in the quick tier every set for the first 20 trees and three of the nine for the others; one also through --output inside or outside the "
            "project, 12% with the process pool): real output compared with the model's document built from generator ground "
            "truth (+ the tool's own LicenseConcluded, each one decided by the verified checker BoolExpr.equiv against the AND of the "
            "ground-truth expressions); the Lean tag-value reader reads every real document and must agree with the harness reader; oracle = property clauses against lint --json "
            "and hashlib: exactly one File section per covered file with FileName = ./ + the path as stored (code point for code point, i.e. byte for byte in UTF-8), the SHA-1 of that file's bytes, the copyright lines of FileCopyrightText = the lines lint attributes; non-trivial = tree with >= 2 covered files and at least one file with information")

    def __init__(self):
        self.cache = {}

    def cases(self, tier, rng):
        n = 1250 if tier == "thorough" else 100
        for i in range(n):
            case = gen_tree(rng)
            if tier != "thorough" and i >= 20:
                # quick tier: the first 20 trees under every option set, the others under three of the nine
                three = rng.sample(OPTSETS, 3)
                case["optsets"] = [k for k in OPTSETS if k in three]
                with_doc = [k for k in case["optsets"] if k != "add-alone"]
                case["outkey"] = rng.choice(with_doc)
            yield case

    # -- implementation
    def run_real(self, case):
        import reuse

        res = {"runs": {}, "version": reuse.__version__}
        with cli.scratch("rv-c18-") as top:
            root = os.path.join(top, case["proj"])
            os.makedirs(root)
            cli.write_tree(root, tree_files(case))
            pre = ["--no-multiprocessing"] if not case.get("mp") else []
            lc, lout, lexc = cli.run_cli(pre + ["lint", "--json"], root)
            if lexc is not None:
                res["lint_exc"] = "%s: %s" % (type(lexc).__name__, lexc)
                res["lint"] = None
            else:
                rep = json.loads(lout[lout.index("{"):])
                res["lint"] = {
                    f["path"]: {"c": sorted(c["value"] for c in f["copyrights"]),
                                "e": sorted(c["value"] for c in f["spdx_expressions"])}
                    for f in rep["files"]
                }
            outkey = case.get("outkey") or "both"
            for key in case.get("optsets") or OPTSETS:
                args = opt_args(case, key)
                code, out, exc = cli.run_cli(pre + ["spdx"] + args, root)
                run = {"exit": code, "exc": None if exc is None else type(exc).__name__}
                if code == 0 and exc is None:
                    if not out.endswith("\n\n"):
                        run["exc"] = "output does not end with the echo newline"
                    run["doc"] = canon_doc(out[:-1])
                    run["tv"] = tv_verdict(run["doc"])
                else:
                    run["doc"] = None
                    run["usage"] = ("Usage:" in out) and ("--add-license-concluded" in out)
                res["runs"][key] = run
                if case.get("out") and key == outkey and code == 0:
                    if case["out"] == "outside":
                        target = os.path.join(top, "bom out.spdx")
                    else:
                        target = os.path.join(root, "bom.spdx")
                    code2, out2, exc2 = cli.run_cli(pre + ["spdx", "-o", target] + args, root)
                    try:
                        with open(target, encoding="utf-8", newline="") as fp:
                            written = fp.read()
                    except OSError as e:
                        written = "unreadable: %s" % e
                    res["runs"][key + "+o"] = {"exit": code2, "exc": None if exc2 is None else type(exc2).__name__,
                                               "doc": canon_doc(written[:-1]), "stdout": out2}
                    res["runs"][key + "+o"]["tv"] = tv_verdict(res["runs"][key + "+o"]["doc"])
                    if case["out"] == "inside":
                        os.unlink(target)
        return res

    def key(self, case):
        return json.dumps(case, sort_keys=True)

    def impl(self, case):
        res = self.run_real(case)
        self.cache[self.key(case)] = res
        return json.dumps(res, sort_keys=True, ensure_ascii=True)

    # -- model
    def model_inputs(self, case, key, res):
        files = []
        tbl = []
        real = {}
        doc = res["runs"][key]["doc"] if res["runs"].get(key) else None
        if doc and key.startswith("add"):
            # the tool's own LicenseConcluded is the oracle answer for boolean.py's simplify;
            # located by the SPDXID two lines above it (robust against unreadable documents)
            dl = doc.split("\n")
            for i in range(2, len(dl)):
                if dl[i].startswith("LicenseConcluded: ") and dl[i - 1].startswith("FileChecksum: SHA1: ") \
                        and dl[i - 2].startswith("SPDXID: "):
                    real.setdefault(dl[i - 2][len("SPDXID: "):], dl[i][len("LicenseConcluded: "):])
        fl = list(covered(case))
        random.Random(len(fl)).shuffle(fl)  # the model sorts
        for f in fl:
            name = "./" + f["path"]
            chk = hashlib.sha1(content_of(f)).hexdigest()
            srcs = truth(f)
            exprs = [e for c, es in srcs for e in es]
            cops = [c for cs, es in srcs for c in cs]
            tbl.append((name + chk, hashlib.md5((name + chk).encode("utf-8")).hexdigest()))
            files.append("!".join([
                enc(name), enc(chk), enc(real.get("SPDXRef-" + tbl[-1][1], "")),
                "/".join(enc_list(expr_keys(e)) for e in exprs) if exprs else "~",
                enc_list(cops),
            ]))
        lics = []
        for l in case["lics"]:
            ident = os.path.splitext(os.path.basename(l["path"]))[0]
            lics.append("%s!%s" % (enc(ident), enc_list(newline_text(l["text"].encode("utf-8")).split("\n"))))
        person, org = opt_creators(case, key)
        return "\t".join([
            "spdxdoc", enc_bool(key.startswith("add")), enc(case["proj"]), enc("UUID"), enc("CREATED"), enc(res["version"]),
            enc_opt(person), enc_opt(org),
            "|".join(files) if files else "~", "|".join(lics) if lics else "~",
            "|".join("%s!%s" % (enc(a), enc(b)) for a, b in tbl) if tbl else "~",
        ])

    def model_lines(self, case):
        res = self.cache[self.key(case)]
        lines = [self.model_inputs(case, k.replace("+o", ""), res) for k in sorted(res["runs"])]
        # the Lean grammar (Spec.readDoc, the one C18_wellformed is about) reads the REAL documents
        for k in sorted(res["runs"]):
            if res["runs"][k].get("doc") is not None:
                lines.append("tvdoc\t" + enc_list(res["runs"][k]["doc"].split("\n")))
        # every LicenseConcluded the real tool emitted goes to the verified checker (translation validation)
        for k, name, conc, exprs in self.concluded_pairs(case, res):
            try:
                a = enc_list(rpn(parse_expr(conc)))
            except ValueError:
                a = enc_list(["unreadable"])
            lines.append("boolequiv\t%s\t%s" % (a, enc_list(rpn(conj([parse_expr(e) for e in exprs])))))
        return lines

    def concluded_pairs(self, case, res):
        """(run, file name, LicenseConcluded text of the real document, the file's expressions by ground truth)"""
        out = []
        ids = {}
        for f in covered(case):
            name = "./" + f["path"]
            chk = hashlib.sha1(content_of(f)).hexdigest()
            exprs = [e for c, es in truth(f) for e in es]
            if exprs:
                ids["SPDXRef-" + hashlib.md5((name + chk).encode("utf-8")).hexdigest()] = (name, exprs)
        for k in sorted(res["runs"]):
            doc = res["runs"][k].get("doc")
            if doc is None or not k.startswith("add"):
                continue
            dl = doc.split("\n")
            for i in range(2, len(dl)):
                if dl[i].startswith("LicenseConcluded: ") and dl[i - 1].startswith("FileChecksum: SHA1: ") \
                        and dl[i - 2].startswith("SPDXID: ") and dl[i - 2][len("SPDXID: "):] in ids:
                    name, exprs = ids[dl[i - 2][len("SPDXID: "):]]
                    out.append((k, name, dl[i][len("LicenseConcluded: "):], exprs))
        return out

    def model_out(self, case, outs):
        res = json.loads(json.dumps(self.cache[self.key(case)]))
        with_doc = [k for k in sorted(res["runs"]) if res["runs"][k].get("doc") is not None]
        for k, o in zip(with_doc, outs[len(res["runs"]):]):
            res["runs"][k]["tv"] = o
        rejected = {}
        for (k, name, conc, exprs), o in zip(self.concluded_pairs(case, res), outs[len(res["runs"]) + len(with_doc):]):
            if o != "1":
                rejected.setdefault(k, []).append("%s: %r vs AND of %r (%s)" % (name, conc, exprs, o))
        for k, o in zip(sorted(res["runs"]), outs):
            run = res["runs"][k]
            if o == "usage-error":
                run.update({"exit": 2, "exc": None, "doc": None, "usage": True})
            elif o.startswith("doc:"):
                _, ok, t = o.split(":", 2)
                text = dec(t)
                run.update({"exit": 0, "exc": None, "doc": text})
                run.pop("usage", None)
                if k in rejected:
                    run["doc"] = "VERIFIED-CHECKER-REJECTS-LicenseConcluded: " + "; ".join(rejected[k])
                if ok == "1":
                    # the theorem's side condition holds: the real document must be readable
                    try:
                        read_tv(text)
                    except NotTagValue as e:
                        run["doc"] = "MODEL-DOC-NOT-READABLE-UNDER-docOk: %s" % e
            else:
                run.update({"doc": "driver: " + o})
        return json.dumps(res, sort_keys=True, ensure_ascii=True)

    # -- oracle (property text; independent of the model)
    def oracle(self, case, impl_out):
        if impl_out.startswith("EXC"):
            return "harness-or-crash: " + impl_out
        res = json.loads(impl_out)
        if res.get("lint") is None:
            return "lint-crash: " + str(res.get("lint_exc"))
        cov = {f["path"]: f for f in covered(case)}
        lint = res["lint"]
        if set(lint) != set(cov):
            return "generator-vs-lint: covered sets differ: %r" % sorted(set(lint) ^ set(cov))
        for key, run in sorted(res["runs"].items()):
            why = self.check_run(case, key, run, cov, lint)
            if why:
                return why + " [options %s]" % key
        return None

    def check_run(self, case, key, run, cov, lint):
        base = key.replace("+o", "")
        if base == "add-alone":
            if run["exit"] == 0 or run.get("doc") is not None or not run.get("usage"):
                return "creator-requirement: --add-license-concluded without a creator did not end in a usage error (exit %s)" % run["exit"]
            return None
        if run["exc"] or run["exit"] != 0:
            return "spdx-failed: exit %s exception %s" % (run["exit"], run["exc"])
        if key.endswith("+o") and run.get("stdout"):
            return "output-option: document written to --output and also to stdout"
        doc = run["doc"]
        try:
            entries = read_tv(doc)
        except NotTagValue as e:
            return "not-tag-value: %s" % e
        head, fsecs, lsecs = sections(entries)
        add = base.startswith("add")
        # one File section per covered file and no other
        names = [s[0][1] for s in fsecs]
        if sorted(names) != sorted("./" + p for p in cov):
            return "file-sections: FileName list %r differs from the covered files %r" % (sorted(names), sorted(cov))
        ids = []
        for sec in fsecs:
            d = {}
            for t, v, x in sec:
                d.setdefault(t, []).append(v)
            path = sec[0][1][2:]
            f = cov[path]
            for t in ("SPDXID", "FileChecksum", "LicenseConcluded", "FileCopyrightText"):
                if len(d.get(t, [])) != 1:
                    return "file-section: %r has %d %s entries" % (path, len(d.get(t, [])), t)
            ids.append(d["SPDXID"][0])
            if d["FileChecksum"][0] != "SHA1: " + (f["sha1"] if f.get("kind") == "raw" else hashlib.sha1(content_of(f)).hexdigest()):
                return "checksum: %r has %s" % (path, d["FileChecksum"][0])
            want_keys = set(k for e in lint[path]["e"] for k in expr_keys(e))
            if set(d.get("LicenseInfoInFile", [])) != want_keys:
                return "licence-ids: %r lists %r, lint attributes %r" % (path, sorted(set(d.get("LicenseInfoInFile", []))), sorted(want_keys))
            cop = d["FileCopyrightText"][0]
            want_c = lint[path]["c"]
            if want_c:
                if sorted(cop.split("\n")) != sorted(want_c):
                    return "copyright: %r has %r, lint attributes %r" % (path, cop, want_c)
            elif cop != "NONE":
                return "copyright: %r has %r but lint attributes none" % (path, cop)
            conc = d["LicenseConcluded"][0]
            if not add:
                if conc != "NOASSERTION":
                    return "concluded: %r has %r without --add-license-concluded" % (path, conc)
            elif not lint[path]["e"]:
                if conc not in ("NONE", "NOASSERTION"):
                    return "concluded: %r has %r without any expression" % (path, conc)
            else:
                try:
                    a = parse_expr(conc)
                    b = conj([parse_expr(e) for e in lint[path]["e"]])
                except ValueError as e:
                    return "concluded-unreadable: %r: %s" % (path, e)
                if not tt_equiv(a, b):
                    return "concluded-not-equivalent: %r: %r vs AND of %r" % (path, conc, lint[path]["e"])
        if len(set(ids)) != len(ids):
            dup = next(i for i in ids if ids.count(i) > 1)
            return "spdxid-not-unique: %s is the SPDXID of %d File sections: %r" % (dup, ids.count(dup), [n for n, i in zip(names, ids) if i == dup])
        rels = [v for t, v, x in head if t == "Relationship"]
        if sorted(rels) != sorted("SPDXRef-DOCUMENT DESCRIBES " + i for i in ids):
            return "describes: relationships %r do not match the ids one to one" % rels
        if any(t == "Relationship" for sec in fsecs + lsecs for t, v, x in sec):
            return "describes: relationship outside the document header"
        # LicenseRef- licences with their text
        want = {}
        for l in case["lics"]:
            ident = os.path.splitext(os.path.basename(l["path"]))[0]
            if ident.startswith("LicenseRef-"):
                want[ident] = newline_text(l["text"].encode("utf-8"))
        got = {}
        for sec in lsecs:
            d = {}
            for t, v, x in sec:
                d.setdefault(t, []).append(v)
            if len(d.get("ExtractedText", [])) != 1 or sec[0][1] in got:
                return "licenseref: section %r malformed or repeated" % sec[0][1]
            got[sec[0][1]] = d["ExtractedText"][0]
        if got != want:
            return "licenseref: sections %r, LICENSES/ has %r" % (sorted(got.items()), sorted(want.items()))
        return None

    def nontrivial(self, case, impl_out):
        cov = covered(case)
        if len(cov) >= 2 and any(truth(f) for f in cov):
            return hashlib.sha1(impl_out.encode()).hexdigest()[:12]
        return None

    def show(self, case):
        return {"proj": case["proj"], "files": {k: (v[:200].decode("utf-8", "replace") if isinstance(v, bytes) else v[:200]) for k, v in tree_files(case).items()},
                "person": case["person"], "org": case["org"], "out": case.get("out"), "mp": case.get("mp")}


# --------------------------------------------------------------------------
# --output: the document must list every covered file whatever the output is called and wherever the command runs

# file names that the REUSE specification excludes from the covered files: *.spdx and *.spdx.{rdf,json,xml,yml,yaml}
SPDX_NAME = re.compile(r".*\.spdx(\.(rdf|json|xml|yml|yaml))?\Z", re.S)
FRESH_PLAIN = ["bom.txt", "bill of materials.tv", "bom.spdx.txt", "spdx", "sbom.spdxx", "parts list"]
FRESH_SPDX = ["reuse.spdx", "bom.spdx.json", "x y.spdx.yml", "sbom.spdx.yaml", ".spdx", "b.spdx.rdf", "b.spdx.xml"]
OUT_OPTSETS = ["plain", "person", "both", "add-person", "add-both"]


def gen_output_case(rng):
    case = gen_tree(rng, nfiles=rng.randint(1, 4))
    case["mp"], case["out"] = False, None
    taken = {f["path"] for f in case["files"]}

    def mk(path):
        f = {"path": path, "kind": "text", "size": 1, "seed": rng.randint(0, 10 ** 6), "header": rand_info(rng) if rng.random() < 0.7 else None,
             "license": None, "toml": None}
        case["files"].append(f)
        taken.add(path)
        return f

    # generator guarantees: a covered file at the top level, a sub-directory that holds a covered file, and (two times in three) a
    # covered file in that sub-directory that has a namesake at the top level
    cov = [f["path"] for f in covered(case)]
    if not any("/" not in p for p in cov):
        mk(rng.choice(["parts.txt", "index.txt", "notes"]))
    cov = [f["path"] for f in covered(case)]
    nested = sorted({os.path.dirname(p) for p in cov if "/" in p})
    sub = rng.choice(nested) if nested and rng.random() < 0.7 else rng.choice(["firmware", "docs/api", "w d"])
    if not any(os.path.dirname(p) == sub for p in cov):
        mk(sub + "/" + rng.choice(["main.c", "inner.txt"]))
    tops = sorted(p for p in (f["path"] for f in covered(case)) if "/" not in p)
    if rng.random() < 0.66:
        t = rng.choice(tops)
        if sub + "/" + t not in taken:
            mk(sub + "/" + t)
    case["sub"] = sub
    case["vcs"] = "git" if rng.random() < 0.5 else None
    if rng.random() < 0.5:
        # no copyright line anywhere: a document left in the project by an earlier run (FileCopyrightText: NONE throughout) is then
        # an ordinary covered file without information, and every later document can be judged in full
        for f in case["files"]:
            for src in ("header", "license", "toml"):
                if f[src]:
                    f[src]["c"] = []
                    if not f[src]["e"]:
                        f[src]["e"] = ["MIT"]
    runs = []
    cov = sorted(f["path"] for f in covered(case))
    for _ in range(rng.choice([1, 2, 2, 3])):
        # where the command runs and how it learns the root
        where = rng.choice(["root", "root", "sub-git", "sub-git", "work-rel", "work-abs", "sub-rel", "sub-abs"]) if not runs or rng.random() < 0.5 else runs[-1]["where"]
        if where == "sub-git":
            case["vcs"] = "git"
        # the name as typed: relative to the working directory (plain, with ./, through ..) or absolute; the file it names:
        # a fresh name (matching the ignored SPDX patterns or not) or the root-relative name of a covered file -- re-read
        # below the working directory, below the root, below the sub-directory or outside the project
        r = rng.random()
        if runs and r < 0.25:
            run = dict(runs[-1], opt=rng.choice(OUT_OPTSETS))     # the same output again: the earlier document lies at the output path
            run["where"] = where if rng.random() < 0.3 else run["where"]
        else:
            rel = rng.choice(cov) if r < 0.6 else rng.choice(FRESH_PLAIN) if r < 0.85 else rng.choice(FRESH_SPDX)
            if r < 0.6 and rng.random() < 0.3:
                rel = os.path.basename(rel)
            base = rng.choice(["cwd", "cwd", "cwd", "root", "sub", "work"])
            run = {"where": where, "base": base, "rel": rel, "spell": rng.choice(["rel", "rel", "dot", "abs"]), "opt": rng.choice(OUT_OPTSETS)}
        runs.append(run)
    case["runs"] = runs
    return case


class OutputStream(TreeStream):
    name = "output"
    rule = ("`reuse spdx -o NAME` in sequences of 1-3 runs over generated projects (as in the tree stream, with a covered file at the top "
            "level, a sub-directory holding covered files and, two times in three, a namesake of a top-level file inside it; Git checkout or "
            "no VCS): run from the root, from the sub-directory of a Git checkout (the root is found through Git), from a directory "
            "outside with --root relative / absolute, from the sub-directory with --root; NAME typed relative (plain, ./, through ..) or "
            "absolute, naming a fresh file that matches / does not match the ignored SPDX patterns (reuse.spdx, bom.spdx.json ... / bom.txt, "
            "bom.spdx.txt, spdx ...) or carrying the root-relative name (or base name) of a covered file, resolved below the working "
            "directory, the root, the sub-directory or outside the project -- so that a covered file ROOT/NAME exists or not, the output "
            "overwrites a covered file or not, and a later run finds the earlier document at its output path; oracle only: every document "
            "(read back from the output file) is judged like the tree stream's against `reuse lint --json` taken just before the run, and "
            "the File sections against the generator's covered set + the earlier outputs inside the project whose names are not ignored "
            "SPDX names (property text: one File section for every covered file -- a covered file that lies at the output path when the "
            "command starts is a covered file like any other and must be listed, with the checksum of the bytes it had then); nothing is "
            "written to stdout; non-trivial = distinct (where, spelling, kind of name, target inside/outside, listed count)")

    def cases(self, tier, rng):
        for _ in range(450 if tier == "thorough" else 30):
            yield gen_output_case(rng)

    def dirs(self, case, top):
        root = os.path.join(top, case["proj"])
        return {"root": root, "sub": os.path.join(root, case["sub"]), "work": os.path.join(top, "work dir")}

    def cwd_of(self, run, d):
        return {"root": d["root"], "sub-git": d["sub"], "sub-rel": d["sub"], "sub-abs": d["sub"], "work-rel": d["work"], "work-abs": d["work"]}[run["where"]]

    def target_of(self, run, d):
        return os.path.normpath(os.path.join(self.cwd_of(run, d) if run["base"] == "cwd" else d[run["base"]], run["rel"]))

    def typed(self, run, d):
        t, wd = self.target_of(run, d), self.cwd_of(run, d)
        if run["spell"] == "abs":
            return t
        r = os.path.relpath(t, wd)
        return "./" + r if run["spell"] == "dot" else r

    def pre_of(self, run, d):
        w = run["where"]
        if w in ("root", "sub-git"):
            return []
        return ["--root", d["root"] if w.endswith("abs") else os.path.relpath(d["root"], self.cwd_of(run, d))]

    def run_real(self, case):
        import reuse
        import subprocess

        res = {"runs": [], "version": reuse.__version__}
        with cli.scratch("rv-c18o-") as top:
            d = self.dirs(case, top)
            os.makedirs(d["root"])
            cli.write_tree(d["root"], tree_files(case))
            os.makedirs(d["work"])
            for run in case["runs"]:
                os.makedirs(os.path.dirname(self.target_of(run, d)), exist_ok=True)   # (an empty directory is no covered file)
            if case.get("vcs") == "git":
                subprocess.run(["git", "init", "-q"], cwd=d["root"], check=True, capture_output=True)
            for run in case["runs"]:
                wd, target = self.cwd_of(run, d), self.target_of(run, d)
                pre = ["--no-multiprocessing"] + self.pre_of(run, d)
                lc, lout, lexc = cli.run_cli(pre + ["lint", "--json"], wd)
                one = {"target": os.path.relpath(target, d["root"])}
                if lexc is not None:
                    one["lint"] = None
                    one["lint_exc"] = "%s: %s" % (type(lexc).__name__, lexc)
                else:
                    rep = json.loads(lout[lout.index("{"):])
                    one["lint"] = {f["path"]: {"c": sorted(c["value"] for c in f["copyrights"]), "e": sorted(c["value"] for c in f["spdx_expressions"])}
                                   for f in rep["files"]}
                try:
                    with open(target, "rb") as fp:
                        one["before"] = hashlib.sha1(fp.read()).hexdigest()
                except OSError:
                    one["before"] = None
                code, out, exc = cli.run_cli(pre + ["spdx", "-o", self.typed(run, d)] + opt_args(case, run["opt"]), wd)
                one.update(exit=code, exc=None if exc is None else "%s: %s" % (type(exc).__name__, str(exc)[:200]),
                           stdout="document" if "SPDXVersion" in out or "FileName" in out else "")
                try:
                    with open(target, "rb") as fp:
                        raw = fp.read()
                    one["after"] = hashlib.sha1(raw).hexdigest()
                    one["doc"] = canon_doc(raw.decode("utf-8")[:-1])
                except (OSError, UnicodeDecodeError) as e:
                    one["after"], one["doc"] = None, "unreadable: %s" % type(e).__name__
                res["runs"].append(one)
        return res

    def model_lines(self, case):
        return []

    def oracle(self, case, impl_out):
        if impl_out.startswith("EXC"):
            return "harness-or-crash: " + impl_out
        res = json.loads(impl_out)
        cov = {f["path"]: f for f in covered(case)}
        for run, one in zip(case["runs"], res["runs"]):
            what = " [run %d: %s, -o %s (%s, below %s), options %s]" % (res["runs"].index(one) + 1, run["where"], run["rel"], run["spell"], run["base"], run["opt"])
            if one.get("lint") is None:
                return "lint-crash: " + str(one.get("lint_exc")) + what
            if set(one["lint"]) != set(cov):
                return "generator-vs-lint: covered sets differ: %r" % sorted(set(one["lint"]) ^ set(cov)) + what
            if one["after"] is None:
                return "output-missing: the output file is not there / not UTF-8 after the run (exit %s, %s)" % (one["exit"], one["exc"]) + what
            if any("</text>" in c for v in one["lint"].values() for c in v["c"]):
                # an earlier document lies in the project as a covered file and lint reads copyright lines out of its
                # FileCopyrightText spans, closing marker included: the new document then falls under the known finding
                # text-contains-closing-marker (boundary stream) and cannot be read as tag-value; what is still decided:
                # the command succeeded and no covered file is missing
                if one["exc"] or one["exit"] != 0:
                    return "spdx-failed: exit %s exception %s" % (one["exit"], one["exc"]) + what
                lines = set(one["doc"].split("\n"))
                missing = sorted(p_ for p_ in cov if "FileName: ./" + p_ not in lines)
                if missing:
                    return "file-sections: no FileName line for the covered files %r" % missing + what
            else:
                why = self.check_run(case, run["opt"] + "+o", {"exit": one["exit"], "exc": one["exc"], "doc": one["doc"], "stdout": one["stdout"]}, cov, one["lint"])
                if why:
                    return why + what
            # what this run left behind is part of the tree the next run sees
            t = one["target"]
            if not t.startswith(".."):
                if SPDX_NAME.match(os.path.basename(t)):
                    cov.pop(t, None)
                else:
                    cov[t] = {"path": t, "kind": "raw", "sha1": one["after"]}
        return None

    def nontrivial(self, case, impl_out):
        if impl_out.startswith("EXC"):
            return None
        res = json.loads(impl_out)
        return tuple((r["where"], r["spell"], r["base"], "cov" if r["rel"] not in FRESH_PLAIN + FRESH_SPDX else "spdx" if r["rel"] in FRESH_SPDX else "plain",
                      o["target"].startswith(".."), o["before"] is not None, len(o.get("lint") or ())) for r, o in zip(case["runs"], res["runs"]))

    def show(self, case):
        d = self.dirs(case, "<top>")
        return dict(TreeStream.show(self, case), vcs=case.get("vcs"), sub=case["sub"],
                    runs=[{"cwd": self.cwd_of(r, d), "argv": self.pre_of(r, d) + ["spdx", "-o", self.typed(r, d)] + opt_args(case, r["opt"])} for r in case["runs"]])


# --------------------------------------------------------------------------
# boundary stream: the excluded points of C18_wellformed on the real code


class BoundaryStream(TreeStream):
    name = "boundary"
    rule = ("the points excluded by the side condition of C18_wellformed, run on the real code: closing text marker inside a "
            "LicenseRef text / a copyright line, line feed in a file name / a creator, <text> at the start of a creator-free "
            "single-line value; each outcome is a listed boundary (known finding) or a failure")

    def cases(self, tier, rng):
        base = lambda: {"proj": "proj", "files": [{"path": "a.txt", "kind": "text", "size": 1, "seed": 1,
                        "header": {"c": ["2020 Jane"], "e": ["MIT"]}, "license": None, "toml": None}],
                        "lics": [], "person": "Jane", "org": "Org", "mp": False, "out": None, "optsets": ["both", "add-both"]}
        c = base(); c["lics"] = [{"path": "LICENSES/LicenseRef-x.txt", "text": "before </text> after\n"}]; c["what"] = "close-in-licence-text"
        yield c
        c = base(); c["files"][0]["header"]["c"] = ["2020 Jane </text> Doe"]; c["what"] = "close-in-copyright"
        yield c
        c = base(); c["files"][0]["path"] = "new\nline.txt"; c["what"] = "linefeed-in-file-name"
        yield c
        c = base(); c["person"] = "Jane\nDoe"; c["what"] = "linefeed-in-creator"
        yield c
        c = base(); c["lics"] = [{"path": "LICENSES/LicenseRef-y.txt", "text": "ends with marker</text>"}]; c["what"] = "close-at-end-of-licence-text"
        yield c
        c = base(); c["files"][0]["path"] = "car\rriage.txt"; c["what"] = "carriage-return-in-file-name"
        yield c
        c = base(); c["proj"] = "<text>"; c["what"] = "open-marker-as-document-name"
        yield c

    def classify(self, case, failure):
        if not failure.startswith(("not-tag-value", "licenseref", "copyright")):
            return None
        w = case.get("what", "")
        if w in ("close-in-licence-text", "close-in-copyright", "close-at-end-of-licence-text"):
            return "text-contains-closing-marker"
        if w in ("linefeed-in-file-name", "linefeed-in-creator", "open-marker-as-document-name"):
            return "single-line-value-not-plain"
        return None

    def nontrivial(self, case, impl_out):
        return case.get("what")


# --------------------------------------------------------------------------
# LicenseConcluded: translation validation of boolean.py's simplify


class SimplifyStream(Stream):
    name = "simplify"
    rule = ("1-4 random expressions (depth <= 3; atoms: ids, ids with +, LicenseRef-, WITH pairs; duplicates and absorbable shapes "
            "likely) joined exactly like FileReport.generate and sent through the real parse().simplify().render(); the verified "
            "checker (driver) decides concluded == AND(expressions); oracle = Python truth table; non-trivial = rendering differs "
            "from the plain conjunction")

    def __init__(self):
        self.cache = {}

    def cases(self, tier, rng):
        n = 3000 if tier == "thorough" else 400
        small = IDS[:4] + WITHS[:1]
        for i in range(n):
            pool = small if i % 2 else None
            k = rng.choice([1, 1, 2, 2, 3, 4])
            yield {"exprs": [render_loose(rng, rand_expr(rng, rng.choice([0, 1, 2, 3]), pool)) for _ in range(k)]}

    def impl(self, case):
        from reuse import _LICENSING

        text = _LICENSING.parse(" AND ".join("(%s)" % e for e in case["exprs"])).simplify().render()
        return "equiv:1|" + text

    def model_lines(self, case):
        return []

    def run_model(self, case, impl_out):
        conc = impl_out.split("|", 1)[1]
        a = parse_expr(conc)
        b = conj([parse_expr(e) for e in case["exprs"]])
        return "boolequiv\t%s\t%s" % (enc_list(rpn(a)), enc_list(rpn(b)))

    def oracle(self, case, impl_out):
        if impl_out.startswith("EXC"):
            return "simplify-crash: " + impl_out
        conc = impl_out.split("|", 1)[1]
        try:
            a = parse_expr(conc)
        except ValueError as e:
            return "concluded-unreadable: %s" % e
        b = conj([parse_expr(e) for e in case["exprs"]])
        if not tt_equiv(a, b):
            return "concluded-not-equivalent: %r vs AND of %r" % (conc, case["exprs"])
        return None

    def nontrivial(self, case, impl_out):
        conc = impl_out.split("|", 1)[1]
        plain = " AND ".join(case["exprs"])
        return conc if re.sub(r"[()\s]", "", conc) != re.sub(r"[()\s]", "", plain) else None


def render_loose(rng, e):
    def r(e, top):
        if e[0] == "a":
            return e[1]
        s = "%s %s %s" % (r(e[1], False), "AND" if e[0] == "&" else "OR", r(e[2], False))
        return s if top else "(" + s + ")"

    return r(e, True)


class SimplifyStream2(SimplifyStream):
    """the model line depends on the implementation's answer: computed in model_out"""

    def model_lines(self, case):
        return ["boolequiv\t%s\t%s" % (enc_list(["@x"]), enc_list(["@x"]))]  # placeholder keeps the span non-empty

    def model_out(self, case, outs):
        try:
            io = self.impl(case)
        except Exception as e:
            return "EXC:%s" % type(e).__name__
        o = run_driver([self.run_model(case, io)])[0]
        return "equiv:%s|%s" % (o, io.split("|", 1)[1])


class CheckerStream(Stream):
    name = "checker"
    rule = ("self-validation of the verified checker against an independent truth-table evaluation: random pairs (a, b) over a "
            "small symbol pool (so that both equivalent and inequivalent pairs are frequent), b either random or a rewritten a "
            "(commutation, absorption, distribution, duplication); non-trivial = distinct pair; both verdicts occur")

    def cases(self, tier, rng):
        n = 6000 if tier == "thorough" else 800
        pool = ["A", "B", "C", "D WITH E"]
        for i in range(n):
            a = rand_expr(rng, rng.choice([0, 1, 2, 3]), pool)
            m = rng.random()
            if m < 0.4:
                b = rand_expr(rng, rng.choice([0, 1, 2]), pool)
            elif m < 0.6:
                b = ("&", a, ("|", a, rand_expr(rng, 1, pool)))
            elif m < 0.8 and a[0] != "a":
                b = (a[0], a[2], a[1])
            elif a[0] == "&" and a[2][0] == "|":
                b = ("|", ("&", a[1], a[2][1]), ("&", a[1], a[2][2]))
            else:
                b = ("|", a, a)
            yield {"a": render(a), "b": render(b)}

    def impl(self, case):
        return "1" if tt_equiv(parse_expr(case["a"]), parse_expr(case["b"])) else "0"

    def model_lines(self, case):
        return ["boolequiv\t%s\t%s" % (enc_list(rpn(parse_expr(case["a"]))), enc_list(rpn(parse_expr(case["b"]))))]

    def nontrivial(self, case, impl_out):
        return (case["a"], case["b"], impl_out)


# --------------------------------------------------------------------------
# small pure functions: _LICENSEREF_PATTERN, format_creator


class SmallStream(Stream):
    name = "small"
    exhaustive = True
    rule = ("_LICENSEREF_PATTERN.match on every string 'LicenseRef-' + w and every w, w of length <= 3 over {a Z 9 - . + _ space "
            "newline é}, plus prefixes/case variants; format_creator on None and every string of length <= 4 over {a ( ) space}; "
            "non-trivial = distinct input")

    def cases(self, tier, rng):
        A = "aZ9-.+_ \né"
        for n in range(4):
            for t in itertools.product(A, repeat=n):
                w = "".join(t)
                yield {"op": "licref", "s": "LicenseRef-" + w}
                if n <= 2:
                    yield {"op": "licref", "s": w}
        for s in ["licenseref-a", "LicenseRef", "LicenseRef-", "xLicenseRef-a", "LicenseRef-a\n", "LicenseRef-a\n\n", "LicenseRef-\n", "MIT", "LicenseRef-Unknown"]:
            yield {"op": "licref", "s": s}
        yield {"op": "creator", "s": None}
        for n in range(5):
            for t in itertools.product("a() ", repeat=n):
                yield {"op": "creator", "s": "".join(t)}

    def impl(self, case):
        if case["op"] == "licref":
            from reuse.extract import _LICENSEREF_PATTERN

            return "1" if _LICENSEREF_PATTERN.match(case["s"]) else "0"
        from reuse.report import format_creator

        return enc(format_creator(case["s"]))

    def model_lines(self, case):
        if case["op"] == "licref":
            return ["licref\t" + enc(case["s"])]
        return ["fmtcreator\t" + enc_opt(case["s"])]

    def oracle(self, case, impl_out):
        if case["op"] == "creator" and not impl_out.startswith("EXC"):
            out = dec(impl_out)
            if case["s"] is None:
                return None if out == "Anonymous ()" else "creator: None rendered %r" % out
            if not out.startswith(case["s"]):
                return "creator: %r rendered %r" % (case["s"], out)
        return None

    def nontrivial(self, case, impl_out):
        return (case["op"], case["s"])


import c18t2      # noqa: E402  (needs the definitions above)

PROPERTY = Property(
    pid="C18",
    streams=[SmallStream(), CheckerStream(), SimplifyStream2(), TreeStream(), OutputStream(), BoundaryStream(), SpdxE2EStream()] + c18t2.STREAMS,
    assumptions=[
        "stream spdx-e2e: the composed model (Model/SpdxE2E.lean) receives the tree itself (bytes of every regular file) and computes walk, "
        "own source, REUSE.toml chain, extraction, attribution, file reports, LICENSES/ entries and their decoded texts, and the document; "
        "oracles there (parameters, answered by the real libraries): hashlib sha1 / md5, license-expression (parses?, keys, str, ==), "
        "boolean.py (simplify), binaryornot, tomlkit, python-debian; outside this stream: symlinks below LICENSES/ (the composed "
        "model follows them — licWalkLink, linkedContentAt — and stream e2e-model of C01 generates them; the projects of this stream "
        "hold none), multiprocessing, --output",
        "sha1 and md5 are parameters of the model (the checksum arrives as data, the SPDXID digest as a table computed with hashlib); "
        "uniqueness of SPDXIDs is proved assuming the digest is injective on the finite set {name ++ checksum} of the project",
        "boolean.py's simplify/render and license-expression's parser are not modelled: every LicenseConcluded the tool emits is "
        "validated per instance by the verified truth-table checker (BoolExpr.equiv_iff) and by an independent Python truth table",
        "C18_wellformed carries docOk (no line feed in single-line values, no value mimicking <text>, no closing text marker inside a text); "
        "the excluded points are run on the real code by the boundary stream and listed as known findings",
        "which files are covered, and which information lint attributes to them, are taken from `reuse lint --json` (C03/C04) and "
        "cross-checked against the generator's ground truth",
        "stream output (--output, oracle only): a file that lies at the output path when the command starts, is not empty and does not carry an "
        "ignored SPDX name (*.spdx, *.spdx.{rdf,json,xml,yml,yaml}) is a covered file and must be listed with the checksum of the bytes it had "
        "then; where an earlier document in the project makes lint read copyright lines containing the closing text marker (known finding "
        "text-contains-closing-marker) only success and a FileName line per covered file are demanded",
    ],
)
