"""C11, one more region of the input space: text that means something to a *message formatter*.

Everything `reuse annotate` says about a file ("Could not create comment for …", "Successfully changed header of …", "Skipped …",
"… is not recognised; creating …") is put together with `str.format`, and the things that go in — the path, and possibly a line of
the header, i.e. the holder or the contributor given on the command line — are the user's.  Holders like `The {LaTeX} Project`,
`{name}`, `100% {}`, `%(path)s`, file names like `{path}.py`, `a{0}.c` are ordinary text for the property; and for two comment
styles the multi-line terminator *is* a brace (BibTeX `@Comment{ … }`, Jinja2 `{# … #}`, Handlebars `{{!-- … --}}`), so a file of
that kind fails *because of* a brace.  None of C11's other streams has a brace or a per cent sign in a holder or a name.

`metachar` — the real command line over 2-6 files (random names: the tool walks a set of paths, so every order occurs), the holder
/ contributor / file names sprinkled with format-string metacharacters, a chosen subset of files failing (terminator of the file's
own multi-line style inside the holder or the contributor), default line mode and `--multi-line`, `--skip-existing`,
`--fallback-dot-license` with an unrecognised file; the whole tree (type, bytes, mode, mtime) snapshotted before / after.

Oracle (the property text): no traceback; a file whose header cannot be created and its FILE.license sibling are exactly as they
were; every other file holds the holder, the contributor and the licence; exit status 1 iff some file failed; nothing else changes.
Oracle only: the Lean state machine of stream `annotate` is fed which paths fail — the formatting of messages is not in it.
"""
import json
import os

from core import Stream
import cli
import c11 as base

#: kind -> (extension, can single-line, can multi-line, multi-line terminator, body)   — from the documentation of the styles
KINDS = {
    "bib": (".bib", 0, 1, "}", "@book{knuth84,\n  title = {The TeXbook}\n}\n"),
    "j2": (".j2", 0, 1, "#}", "Hello {{ name }}\n"),
    "jinja2": (".jinja2", 0, 1, "#}", "{% if x %}y{% endif %}\n"),
    "hbs": (".hbs", 0, 1, "--}}", "<p>{{title}}</p>\n"),
    "c": (".c", 0, 1, "*/", "int x;\n"),
    "cpp": (".cpp", 1, 1, "*/", "int x;\n"),
    "html": (".html", 0, 1, "-->", "<p>x</p>\n"),
    "jl": (".jl", 1, 1, "=#", "x = 1\n"),
    "py": (".py", 1, 0, "", "x = 1\n"),
    "tex": (".tex", 1, 0, "", "\\section{x}\n"),
    "foo": (".foo", None, None, "", "some text\n"),     # unrecognised extension
}
OWN = {
    "bib": "@Comment{\nSPDX-FileCopyrightText: 2019 Own\n\nSPDX-License-Identifier: ISC\n}\n\n",
    "j2": "{#\nSPDX-FileCopyrightText: 2019 Own\n\nSPDX-License-Identifier: ISC\n#}\n\n",
    "c": "/*\n * SPDX-FileCopyrightText: 2019 Own\n *\n * SPDX-License-Identifier: ISC\n */\n\n",
    "py": "# SPDX-FileCopyrightText: 2019 Own\n#\n# SPDX-License-Identifier: ISC\n\n",
    "tex": "% SPDX-FileCopyrightText: 2019 Own\n%\n% SPDX-License-Identifier: ISC\n\n",
    "html": "<!--\nSPDX-FileCopyrightText: 2019 Own\n\nSPDX-License-Identifier: ISC\n-->\n\n",
}
#: format-string metacharacters in their usual guises (str.format, %-formatting, string.Template, f-string left-overs)
META = ["{x}", "{}", "{0}", "{1}", "{path}", "{path!r}", "{path:>9}", "{0.__class__}", "{", "}", "{{", "}}", "{{x}}", "%s", "%d",
        "%(path)s", "%", "100%", "$path", "${path}", "{LaTeX}", "{B}ib{T}e{X}", "{:d}", "{!}", "{x", "x}", "}{"]
ENDS = ["}", "#}", "--}}", "*/", "-->", "=#"]
NAME_META = ["{path}", "{0}", "{}", "{x}", "%s", "%(path)s", "{", "}", "{{", "$p", "{a}{b}"]
PLAIN_WORDS = ["Project", "Team", "GmbH", "Jane", "Doe", "and", "Contributors", "Foundation"]


def words(rng, must=None, n_meta=None):
    """a holder-like text: plain words with metacharacter tokens in between; `must` (a terminator) is placed somewhere"""
    k = rng.randint(1, 3) if n_meta is None else n_meta
    toks = [rng.choice(PLAIN_WORDS) for _ in range(rng.randint(1, 3))] + [rng.choice(META) for _ in range(k)]
    rng.shuffle(toks)
    if must is not None:
        toks.insert(rng.randint(1, len(toks)), must if rng.random() < 0.6 else rng.choice(["a", "{", "x "]) + must)
    if toks[0][0] in "%${}" and rng.random() < 0.7:
        toks.insert(0, "The")
    # the last word is a plain one: trailing comment terminators (`}` is one) are not part of a notice for the tool's reader, and
    # what the linter reads back is C07's subject, not this property's
    toks.append(rng.choice(PLAIN_WORDS))
    return " ".join(toks)


def rand_name(rng, kind, taken):
    while True:
        stem = "".join(rng.choice("abcdefghijklmnopqrstuvwxyz") for _ in range(rng.randint(2, 6)))
        if rng.random() < 0.35:
            m = rng.choice(NAME_META)
            stem = rng.choice([stem + m, m + stem, stem[:1] + m + stem[1:]])
        d = rng.choice(["", "", "src/", "lib/deep/", "t{0}/", "{path}/"])
        n = d + stem + KINDS[kind][0]
        if n not in taken and n + ".license" not in taken:
            taken.add(n)
            return n


def uses_multi(case, kind):
    _e, s, m, _end, _b = KINDS[kind]
    return bool(m) and (case.get("multi") or not s)


def texts_of(case):
    return [case["holder"]] + ([case["contributor"]] if case.get("contributor") else [])


def status(case, f):
    """ok | fail | skip — what the documentation says happens to this file"""
    k = f["kind"]
    if k == "foo":
        return "ok"  # --fallback-dot-license: the header goes, uncommented, into FILE.license
    if case.get("skip_existing") and f.get("own"):
        return "skip"
    if uses_multi(case, k) and any(KINDS[k][3] in t for t in texts_of(case)):
        return "fail"
    return "ok"


def written_path(f):
    return f["name"] + ".license" if f["kind"] == "foo" else f["name"]


def file_text(f):
    return (OWN.get(f["kind"], "") if f.get("own") else "") + KINDS[f["kind"]][4]


def tree_of(case):
    files = {f["name"]: file_text(f) for f in case["files"]}
    files["bystander.txt"] = "bystander\n"
    return files


def argv_of(case):
    a = ["annotate", "--copyright", case["holder"], "--license", "MIT", "--year", "2020"]
    if case.get("contributor"):
        a += ["--contributor", case["contributor"]]
    if case.get("multi"):
        a.append("--multi-line")
    if case.get("skip_existing"):
        a.append("--skip-existing")
    if any(f["kind"] == "foo" for f in case["files"]):
        a.append("--fallback-dot-license")
    return a + [f["name"] for f in case["files"]]


def make_case(rng, n, mask, multi):
    """mask[i] = 1: file i is to fail"""
    pool = [k for k in KINDS if k != "foo" and (not multi or KINDS[k][2])]
    if any(mask):
        end = rng.choice(ENDS if multi else [e for e in ENDS if e != "=#"])
        failing = [k for k in pool if KINDS[k][3] and KINDS[k][3] in end and (multi or not KINDS[k][1])]
    else:
        end, failing = None, []
    in_contrib = rng.random() < 0.3
    case = {"multi": multi, "holder": words(rng, None if in_contrib else end)}
    if in_contrib or rng.random() < 0.3:
        case["contributor"] = words(rng, end if in_contrib else None)
    # which kinds pass with these texts
    passing = [k for k in pool if not (uses_multi(case, k) and any(KINDS[k][3] in t for t in texts_of(case)))]
    failing = [k for k in pool if k not in passing]
    files, taken = [], set()
    for bit in mask:
        k = rng.choice(failing if bit and failing else passing or failing)
        f = {"kind": k}
        if rng.random() < 0.2 and k in OWN:
            f["own"] = True
        files.append(f)
    if not multi and rng.random() < 0.2:
        files[rng.randrange(n)] = {"kind": "foo"}
    for f in files:
        f["name"] = rand_name(rng, f["kind"], taken)
    case["files"] = files
    case["skip_existing"] = any(f.get("own") for f in files) and rng.random() < 0.4
    return case


class MetacharStream(Stream):
    name = "metachar"
    rule = ("real `reuse annotate` invocations (in-process CLI) over 1-6 files of eleven kinds (BibTeX `@Comment{ }`, Jinja2 `{# #}` "
            "x2, Handlebars `{{!-- --}}`, C, C++, HTML, Julia, Python, TeX, unrecognised with --fallback-dot-license) whose holder, "
            "contributor and file / directory names carry format-string metacharacters ({x} {} {0} {path} {path!r} {0.__class__} lone "
            "{ and } {{ }} %s %d %(path)s % $path ${path} …); a chosen subset of the files fails because the holder or the contributor "
            "contains the multi-line terminator of the file's own style (for BibTeX / Jinja2 / Handlebars that is a brace), every "
            "mask of failing positions up to 3 files (sampled beyond), default line mode and --multi-line, files with their own "
            "header, --skip-existing; random file names, so the tool's set of paths is walked in every order; whole tree (type, "
            "bytes, mode, mtime) snapshotted before / after; oracle (property text; oracle-only, the formatting of messages is not "
            "in the model): no traceback, a failing file and its FILE.license are exactly as they were, every other file holds "
            "holder, contributor and licence, exit status 1 iff some file failed, nothing else changes; non-trivial = distinct "
            "(line mode, pattern of ok / failing / skipped files, kinds that failed, metacharacter class of the failing text)")

    def __init__(self):
        self.side = {}

    def cases(self, tier, rng):
        import itertools
        thorough = tier == "thorough"
        for multi in (False, True):
            for n in range(1, 7):
                masks = list(itertools.product([0, 1], repeat=n))
                if n > (3 if thorough else 2):
                    masks = rng.sample(masks, 12 if thorough else 4)
                for mask in masks:
                    for _ in range(6 if thorough else 1):
                        yield make_case(rng, n, list(mask), multi)
        for _ in range(600 if thorough else 40):
            n = rng.randint(2, 6)
            yield make_case(rng, n, [int(rng.random() < 0.35) for _ in range(n)], rng.random() < 0.4)

    def impl(self, case):
        with cli.scratch("rv-c11m-") as root:
            cli.write_tree(root, tree_of(case))
            for dp, dn, fn in os.walk(root):
                for f in fn + dn:
                    os.utime(os.path.join(dp, f), ns=(10**18, 10**18), follow_symlinks=False)
            s0 = base.meta_snapshot(root)
            code, out, exc = cli.run_cli(argv_of(case), root)
            s1 = base.meta_snapshot(root)
        self.side[json.dumps(case, sort_keys=True)] = (s0, s1, out)
        if exc is not None:
            return "EXC:%s:%s|%s" % (type(exc).__name__, str(exc)[:100], " ".join(base.changes(s0, s1)))
        return "%d|%s" % (code, " ".join(base.changes(s0, s1)))

    def oracle(self, case, impl_out):
        s0, s1, out = self.side[json.dumps(case, sort_keys=True)]
        plan = [(f, status(case, f)) for f in case["files"]]
        failing = [f["name"] for f, s in plan if s == "fail"]
        if impl_out.startswith("EXC"):
            untouched = [f["name"] for f, s in plan if s == "ok" and s0.get(written_path(f)) == s1.get(written_path(f))]
            return ("traceback: annotate died with %s; files of the invocation that were never processed: %s (files whose header "
                    "cannot be created: %s)" % (impl_out.split("|")[0][4:], untouched, failing))
        code = int(impl_out.split("|")[0])
        if code == 2:
            return "unexpected-usage-error: exit status 2 for a well-formed invocation: %r" % out[-300:]
        accounted = set()
        for f, st in plan:
            t = written_path(f)
            pair = {f["name"], f["name"] + ".license"}
            accounted |= pair
            if st in ("fail", "skip"):
                for p in sorted(pair):
                    same = s0.get(p) == s1.get(p) if st == "fail" else (s0.get(p) or ())[:2] == (s1.get(p) or ())[:2]
                    if not same:
                        what = "created" if p not in s0 else "removed" if p not in s1 else \
                            "rewritten" if s0[p][:2] != s1[p][:2] else "touched (mode/mtime)"
                        return "%s-not-unchanged: header creation for %s %s, yet %s was %s" % (
                            "failed" if st == "fail" else "skipped", f["name"], "fails" if st == "fail" else "is skipped", p, what)
                continue
            new = s1.get(t)
            if new is None or new[0] != "file":
                return "not-processed: %s is missing after the run" % t
            text = new[1].decode("utf-8", "replace")
            for x in texts_of(case) + ["SPDX-License-Identifier: MIT"]:
                if x not in text:
                    return "not-processed: %s should hold %r after the run (other files of the invocation failed: %s); it holds %r" % (
                        t, x, failing, text[:300])
            for p in pair - {t}:
                if s0.get(p) != s1.get(p):
                    return "wrong-file-written: the header of %s belongs in %s but %s changed" % (f["name"], t, p)
        stray = {k for k in set(s0) | set(s1) if s0.get(k) != s1.get(k)} - accounted
        if stray:
            return "stray-change: paths outside the named files and their siblings changed: %s" % sorted(stray)
        if code != (1 if failing else 0):
            return "exit-status: %d, expected %d (files whose header cannot be created: %s)" % (code, 1 if failing else 0, failing)
        return None

    def nontrivial(self, case, impl_out):
        pat = "".join({"ok": "o", "fail": "F", "skip": "s"}[status(case, f)] for f in sorted(case["files"], key=lambda f: f["name"]))
        kinds = tuple(sorted({f["kind"] for f in case["files"] if status(case, f) == "fail"}))
        t = " ".join(texts_of(case))
        cls = ("b" if "{" in t or "}" in t else "") + ("p" if "%" in t else "") + ("d" if "$" in t else "")
        ncls = "n" if any(c in f["name"] for f in case["files"] for c in "{}%$") else ""
        return (bool(case.get("multi")), pat, kinds, cls + ncls)

    def show(self, case):
        return {"argv": argv_of(case), "files": tree_of(case), "expected": [(f["name"], status(case, f)) for f in case["files"]]}


STREAMS = [MetacharStream()]
