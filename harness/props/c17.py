"""C17 — convert-dep5 produces an equivalent REUSE.toml."""
import itertools
import json
import os

from core import Property, Stream, enc, dec, enc_list
from c05 import words
import cli


def has_question(d):
    i = 0
    while i < len(d):
        if d[i] == "\\":
            i += 2
        elif d[i] == "?":
            return True
        else:
            i += 1
    return False


def has_star_slash(d):
    i = 0
    while i < len(d):
        if d[i] == "\\":
            i += 2
        elif d[i] == "*":
            while i < len(d) and d[i] == "*":
                i += 1
            if i < len(d) and d[i] == "/":
                return True
        else:
            i += 1
    return False


# patterns that are not in normal POSIX form: python-debian takes them literally, and since reuse asks with normalised
# root-relative paths they match (next to) nothing -- they must match exactly as little after the conversion
ODD = ["./vendor/*", "./*", "./", ".", "./a.txt", "a//b", "a//*", "src//*.c", "a/./b", "docs/./*", "docs/", "docs/img/", "a/b/",
       "*/", "vendor/*/", "/a.txt", "/*", "../a.txt", "a/../b", "docs/../*", "./docs/../a.txt", ".//a.txt", "a/b/.", "a/.", "docs//",
       "//", "./.", "vendor/./lib.c", "./vendor/deep/*.c", "././a.txt"]


class Dep5GlobStream(Stream):
    name = "dep5glob"
    exhaustive = True
    rule = ("every dep5 glob of length <=N over {a . / * ? \\} (quick N=4, thorough N=5) against every path of length <=N "
            "over the same alphabet, plus %d longer patterns that are not in normal POSIX form (leading ./, doubled slash, /./, trailing "
            "slash, leading /, ..) against 69 paths: python-debian's matcher vs the REUSE.toml matcher of the converted glob, where "
            "'converted' is the real pipeline (a one-paragraph dep5 document through toml_from_dep5, the REUSE.toml read back); " % len(ODD) +
            "non-trivial = valid glob whose row has a match and a non-match")
    A = "a./*?\\"

    def cases(self, tier, rng):
        n = 5 if tier == "thorough" else 4
        for d in words(self.A, n):
            yield {"d": d, "P": n}
        for d in ["\\*.md", "\\**", "a?.txt", "*/foo", "**/foo", "docs/*", "\\\\*", "*\\?"] + ODD:
            yield {"d": d, "P": 0}

    _paths = {}

    def paths(self, n):
        if n not in self._paths:
            self._paths[n] = (["*.md", "x.md", "*x.md", "*", "**", "ab.txt", "a?.txt", "foo", "x/foo", "a/b/foo", "docs/a", "docs/a/b",
                              "\\", "\\x", "\\*", "?", "*?",
                              "a.txt", "./a.txt", "vendor/lib.c", "vendor/deep/util.c", "./vendor/lib.c", "a/b", "a//b", "a/./b", "a/x",
                              "a//x", "src/m.c", "src//m.c", "docs", "docs/", "docs/img", "docs/img/", "docs/img/y.png", "docs/./a",
                              "/a.txt", "../a.txt", "a/../b", "b", "vendor/x/", "vendor/x", ".", "./", "", "/", "//", "a/b/", "a/b/.",
                              "a/.", "a", "x/", "x"] if n == 0 else list(words(self.A, n)))
        return self._paths[n]

    def convert(self, d):
        """The converted glob as the real pipeline produces it: a dep5 document with one Files paragraph holding `d` goes through
        toml_from_dep5, the resulting REUSE.toml is read back, and its (only) path is the answer -- so every step between the dep5
        pattern and the REUSE.toml pattern takes part, not only the asterisk rewriting."""
        from debian.copyright import Copyright
        from reuse.convert_dep5 import toml_from_dep5, _convert_asterisk
        from reuse.global_licensing import ReuseTOML, AnnotationsItem

        if d == "":
            # the empty pattern cannot be written into a Files field (no dep5 file holds it): the asterisk rewriting alone
            return AnnotationsItem(paths=[_convert_asterisk(d)])
        doc = Copyright(DEP5_HEAD + "\nFiles: %s\nCopyright: 2020 Jane Doe\nLicense: MIT\n" % d)
        paras = list(doc.all_files_paragraphs())
        if len(paras) != 1 or tuple(paras[0].files) != (d,):
            raise RuntimeError("generator precondition: dep5 reads Files %r back as %r" % (d, [p.files for p in paras]))
        toml = ReuseTOML.from_toml(toml_from_dep5(doc), "REUSE.toml")
        (item,) = toml.annotations
        return item

    _encp = {}

    def encp(self, n):
        if n not in self._encp:
            self._encp[n] = enc_list(self.paths(n))
        return self._encp[n]

    def impl(self, case):
        from debian.copyright import globs_to_re, MachineReadableFormatError

        d = case["d"]
        ps = self.paths(case["P"])
        try:
            pat = globs_to_re([d])
        except MachineReadableFormatError:
            return "invalid"
        a = "".join("1" if pat.fullmatch(p) else "0" for p in ps)
        item = self.convert(d)
        (conv,) = sorted(item.paths)
        b = "".join("1" if item.matches(p) else "0" for p in ps)
        return "A:%s|B:%s|conv:%s" % (a, b, enc(conv))

    def model_lines(self, case):
        d = enc(case["d"])
        return ["dep5row\t%s\t%s" % (d, self.encp(case["P"])), "convglob\t" + d]

    def model_out(self, case, outs):
        if outs[0] == "invalid":
            return "invalid"
        from core import run_driver
        return ("A:%s" % outs[0], outs[1])  # completed in post (needs the converted glob)

    def oracle(self, case, impl_out):
        if impl_out == "invalid" or impl_out.startswith("EXC"):
            return None if impl_out == "invalid" else "crash: " + impl_out
        a, b, conv = impl_out.split("|")
        a, b = a[2:], b[2:]
        if a != b:
            ps = self.paths(case["P"])
            k = next(i for i in range(len(a)) if a[i] != b[i])
            return "convert-changes-matching: dep5 %r %s %r but converted %r %s it" % (
                case["d"], "matches" if a[k] == "1" else "does not match", ps[k], dec(conv[5:]),
                "matches" if b[k] == "1" else "does not match")
        return None

    def classify(self, case, failure):
        d = case["d"]
        if has_question(d):
            return "dep5-question-mark"
        if has_star_slash(d):
            return "dep5-star-slash"
        return None

    def nontrivial(self, case, impl_out):
        if impl_out == "invalid":
            return None
        a = impl_out.split("|")[0]
        return (case["d"],) if ("1" in a and "0" in a) else None


# The model side needs two driver rounds (convert, then match the converted glob); do it by overriding run.
def _model_second_round(stream, pairs):
    """pairs: list of (case, (A, convhex)) -> list of model outputs"""
    from core import run_driver
    lines = ["globrow\t%s\t%s" % (conv, stream.encp(case["P"])) for case, (a, conv) in pairs]
    outs = run_driver(lines) if lines else []
    return ["%s|B:%s|conv:%s" % (a, o, conv) for (case, (a, conv)), o in zip(pairs, outs)]


class WitnessStream(Stream):
    """Ties C17_question_always_differs / C17_star_slash_differs to the code: for every glob of the grid the driver says whether
    one of the two theorems speaks and gives the theorem's witness path; python-debian's real matcher and the REUSE.toml matcher
    of the really converted glob must then differ on that path in the direction the theorem states."""
    name = "witness"
    exhaustive = True
    rule = ("every dep5 glob of length <=N over {a . / * ? \\} (quick N=4, thorough N=5) plus 14 longer ones: where the glob is valid "
            "and has a '?' wildcard, python-debian must match the theorem's witness path (each '*' read as nothing, each '?' as 'x') and "
            "the converted glob must not; where it is an asterisk run, '/', and a plain rest, python-debian must not match the witness "
            "of the rest and the converted glob must; non-trivial = one of the two theorems speaks")
    EXTRA = ["src/?.c", "a?.txt", "?", "??", "*?", "\\??", "docs/*/?.md", "*/foo", "**/foo", "***/a/b", "*/", "*/*.c", "*/\\*", "*/docs/x.md"]

    def cases(self, tier, rng):
        n = 5 if tier == "thorough" else 4
        for d in words(Dep5GlobStream.A, n):
            if "?" in d or d.startswith("*"):
                yield {"d": d}
        for d in self.EXTRA:
            yield {"d": d}

    def impl(self, case):
        return "x"

    def model_lines(self, case):
        return ["c17wit\t" + enc(case["d"])]

    def agree(self, case, impl_out, model_out):
        from debian.copyright import globs_to_re
        if model_out == "-":
            return True
        kind, w = model_out.split("|")
        w = dec(w)
        d = case["d"]
        pat = globs_to_re([d])                      # the theorem's hypothesis includes validity: an exception here is a disagreement
        item = Dep5GlobStream().convert(d)
        a, b = bool(pat.fullmatch(w)), bool(item.matches(w))
        self._spoke = getattr(self, "_spoke", set())
        self._spoke.add(d)
        return (a, b) == ((True, False) if kind == "Q" else (False, True))

    def nontrivial(self, case, impl_out):
        return case["d"] if case["d"] in getattr(self, "_spoke", ()) else None

    def oracle(self, case, impl_out):
        return None


class Dep5GlobStream2(Dep5GlobStream):
    """Same stream with the two-round model evaluation folded into model_out via a cache."""

    def model_out(self, case, outs):
        if outs[0] == "invalid":
            return "invalid"
        from core import run_driver
        o = run_driver(["globrow\t%s\t%s" % (outs[1], self.encp(case["P"]))])[0]
        return "A:%s|B:%s|conv:%s" % (outs[0], o, outs[1])


DEP5_HEAD = "Format: https://www.debian.org/doc/packaging-manuals/copyright-format/1.0/\nUpstream-Name: demo\nUpstream-Contact: Jane <jane@example.com>\nSource: https://example.com/demo\n"


# ---- the layouts Copyright fields of hand-maintained DEP-5 files really have
CP_YEARS = ["2019", "2020", "1999", "2015-2018", "2015 - 2018", "2001-2004", "2015, 2017, 2019", "2001-2004,2006", "2003,", "1998-2000,"]
CP_NAMES = ["Jane Doe", "John Doe", "Jane Doe <jane@example.com>", "John Doe <john.doe@example.org>", "Example Corp.", "Example  Corp.",
            "Jörg Müller", "FSFE e.V. <https://fsfe.org>", "The \"Demo\" Authors", "O'Brien & Sons", "A\\B Ltd", "山田 太郎",
            "jane doe", "JANE DOE", "Doe, Jane", "The Demo Team (see AUTHORS)"]
CP_MARKS = ["", "", "", "© ", "(c) ", "(C)  ", "Copyright (C) ", "Copyright ", "Copyright © ", "Copyright\t", "©"]
CP_GAPS = [" ", " ", "  ", "   ", "       ", "\t", "\t\t", " \t", "\t ", "\u00a0", "\u00a0 ", " \u00a0 ", "\u2003", "\u3000"]
CP_ENDS = ["", "", "", " ", "   ", "\t", " \t ", "\u00a0", " \u00a0", "\u2003"]
CP_INDENTS = [" ", " ", "  ", "    ", "           ", "\t", " \t", "\t\t", "                    "]
CP_FIRST = [" ", " ", "", "   ", "\t", "\n "]     # what follows `Copyright:` (the last: the value starts on the next line)


def cp_layout(rng):
    """A Copyright field the way DEP-5 files have them: {"c": the lines as typed (blanks at both ends included), "ind": the white
    space each continuation line starts with, "first": what stands between `Copyright:` and the first line}.  Styles: single-spaced,
    columns (years padded to one width, holders underneath each other), tabs between year and holder, ragged (every gap, inner blank
    and line end drawn on its own)."""
    n = rng.choice([1, 2, 2, 3, 3, 4, 6])
    style = rng.choice(["plain", "columns", "columns", "tabs", "ragged", "ragged", "ragged"])
    mark = rng.choice(CP_MARKS)
    rows = [(rng.choice(CP_MARKS) if style == "ragged" else mark, rng.choice(CP_YEARS), rng.choice(CP_NAMES)) for _ in range(n)]
    if rng.random() < 0.3 and n >= 2:
        rows[-1] = rows[0][:2] + (rows[0][2].swapcase() if rng.random() < 0.5 else rows[0][2],)    # (nearly) the same notice again
    lines = []
    width = max(len(m + y) for m, y, h in rows) + rng.choice([1, 2, 2, 4])
    for m, y, h in rows:
        if style == "plain":
            l = m + y + " " + h
        elif style == "columns":
            l = (m + y).ljust(width) + h
        elif style == "tabs":
            l = m + y + rng.choice(["\t", "\t\t", " \t"]) + h.replace(" ", "\t" if rng.random() < 0.3 else " ")
        else:
            g = rng.choice(CP_GAPS)
            l = m + y + g + (h.replace(" ", rng.choice(CP_GAPS)) if rng.random() < 0.5 else h)
        if rng.random() < 0.1:
            l = h if rng.random() < 0.5 else h + rng.choice(CP_GAPS) + y       # a holder without / before the years
        if style != "plain" and rng.random() < 0.35:
            l += rng.choice(CP_ENDS)
        if style == "ragged" and rng.random() < 0.25:
            l = rng.choice(["  ", "\t", "\u00a0", "   \t"]) + l           # blanks beyond the continuation indent
        lines.append(l)
    ind = rng.choice(CP_INDENTS)
    return {"c": lines, "ind": [ind if style != "ragged" else rng.choice(CP_INDENTS) for _ in lines[1:]],
            "first": rng.choice(CP_FIRST) if rng.random() < 0.5 else " "}


def cp_field(p):
    """the text of a Files paragraph's Copyright field (default: single blank after the colon, eleven blanks of indent)"""
    c, ind = p["c"], p.get("ind")
    out = "Copyright:" + p.get("first", " ") + c[0]
    for k, l in enumerate(c[1:]):
        out += "\n" + (ind[k] if ind else "           ") + l
    return out


# fixed layouts, one per region (none of them the only case of its kind: the random layouts cover the same ground)
CP_FIXED = [
    {"c": ["1999-2004  Alpha Team <team@alpha.example>", "2005       Beta Ltd", "2006-2010  Gamma"], "ind": ["           "] * 2},
    {"c": ["2001\tTab Separated", "2002\t\tTwo Tabs", "© 2003 \tMixed"], "ind": [" ", "\t"]},
    {"c": ["2010 Trailing Blanks   ", "2011 Trailing Tab\t", "2012 Trailing NBSP\u00a0"], "ind": [" ", " "], "first": "   "},
    {"c": ["2013 First", "    2014 Deeper", "\t2015 Deeper Still"], "ind": [" ", " "]},
    {"c": ["2016\u00a0Non\u00a0Breaking Holder", "2017\u00a0 Two", "2018 \u00a0 Mixed"], "ind": [" ", " "]},
    {"c": ["2015, 2017, 2019 Comma Years", "2001-2004,2006  Ranges <r@example.org>"], "ind": ["           "], "first": "\n "},
    {"c": ["Copyright (C)  2019  Doubled  Everywhere"], "first": ""},
    {"c": ["2020 same holder", "2020 Same Holder", "2020  Same Holder", "2020 Same Holder\u00a0"], "ind": [" ", " ", " "]},
]


class FileStream(Stream):
    name = "file"
    rule = ("generated .reuse/dep5 files (1-4 Files paragraphs, 1-3 patterns each from a plain-glob grammar, a third of the paragraphs with a pattern that is not in normal POSIX form -- ./x, x//y, x/./y, x/, /x, x/../y: dead under dep5 --, multi-line "
            "copyright, comments, a quarter of the License fields with the licence text after the synopsis, stand-alone License paragraphs; every second file with a generated HEADER paragraph -- each of Upstream-Name, Upstream-Contact (1-2 lines), Source, Disclaimer, Comment, "
            "Copyright (1-3 lines), License (with or without the licence text) present or absent, in four field orders --, a quarter of the Files "
            "paragraphs there with the licence text after the expression of their License field, 0-2 stand-alone License "
            "paragraphs before / after the Files paragraphs, 0-5 files with own information of four kinds (header with both / copyright only / licence only / "
            ".license sibling), 40 % of those with narrow Files paragraphs only so that most paths are matched by none; plus 14 fixed shapes where only the "
            "header paragraph carries Copyright / License; 40 % with a later paragraph repeating the copyright / licence of an earlier one around a different one, plus "
            "the nested ours / theirs / ours shapes) over a fixed tree of 14 files, some with own headers; 60 percent of the Files paragraphs and half of the header Copyright fields laid out the way hand-maintained DEP-5 files are -- years and holders in columns, tabs, several blanks, trailing blanks / tabs / non-breaking spaces, blanks beyond the continuation indent, U+00A0 / U+2003 / U+3000 inside a line, comma-separated year lists, (c) / U+00A9 / Copyright marks, e-mail addresses, quotes and backslashes, the same holder in two spellings, 1-6 lines, the continuation indent one blank / many / a tab, the value starting right after the colon, after several blanks, after a tab or on the next line -- plus 8 fixed layouts, each alone and above a single-spaced paragraph: `reuse lint --json` before and "
            "after `reuse convert-dep5` compared modulo the source name; order of write/unlink observed; refusal without dep5; "
            "non-trivial = conversion succeeded and at least two files are attributed by different paragraphs")

    TREE = ["a.txt", "b.md", "*.md", "src/a.c", "src/b.c", "src/lib/c.c", "src/lib/d.h", "docs/x.md", "docs/img/y.png",
            "docs/img/z.png", "data/1.json", "data/sub/2.json", "README", "q?.txt"]
    GLOBS = ["*", "*.md", "src/*", "src/*.c", "src/lib/*", "docs/*", "docs/img/*.png", "data/*.json", "README", "a.txt", "\\*.md",
             "*.c", "src/**", "data/sub/2.json", "*.json", "q\\?.txt", "d*", "*/img/*" , "s*c/*.h", "**.png"]
    # not in normal POSIX form: dead under dep5 (reuse asks with normalised root-relative paths), must stay dead after the conversion
    ODD_GLOBS = ["./src/*", "./*", "./README", "./docs/*.md", "src//*.c", "src//lib/*", "docs/./*", "data/./sub/2.json", "docs/", "docs/img/",
                 "src/lib/", "/a.txt", "src/../a.txt", "././*.md", "data//*.json", "README/", "src/./lib/d.h"]
    LIC = ["MIT", "0BSD", "GPL-3.0-or-later", "Apache-2.0 OR MIT", "CC0-1.0"]
    LIC_SINGLE = ["MIT", "0BSD", "GPL-3.0-or-later", "CC0-1.0", "Apache-2.0"]
    NARROW = ["data/*.json", "docs/img/*.png", "README", "a.txt", "src/lib/*", "data/sub/2.json", "\\*.md", "src/*.c"]
    # own information of a file: complete header, copyright only, licence only, in a .license sibling
    OWN_KINDS = ["both", "copyright", "licence", "sibling"]
    LICENCE_TEXT = ["Permission is hereby granted, free of charge, to any person", "", "obtaining a copy of this software.", "License: not a field"]

    def gen_head(self, rng):
        h = {"order": rng.randrange(4)}
        if rng.random() < 0.7:
            h["name"] = rng.choice(["demo", "demo project", "d\u00e9mo"])
        if rng.random() < 0.6:
            h["contact"] = rng.sample(["Jane <jane@example.com>", "John <john@example.com>", "https://example.com/contact"], rng.randint(1, 2))
        if rng.random() < 0.6:
            h["source"] = "https://example.com/demo"
        if rng.random() < 0.35:
            h["disclaimer"] = rng.choice([["This package is not part of Debian."], ["non-free because", "", "of reasons"]])
        if rng.random() < 0.4:
            h["comment"] = rng.choice([["a comment"], ["a comment", "", "Copyright: not a field", "more"]])
        if rng.random() < 0.7:
            h["copyright"] = ["%d Package Holder %d" % (rng.randint(1990, 2024), rng.randint(1, 9)) for _ in range(rng.randint(1, 3))]
            if rng.random() < 0.5:
                h["copyright"] = [l.strip() for l in cp_layout(rng)["c"]]
        if rng.random() < 0.7:
            h["license"] = rng.choice(self.LIC)
            h["license_text"] = rng.random() < 0.4
        return h

    @staticmethod
    def multiline(lines):
        return "\n".join(([lines[0]] if lines else []) + [" " + (l if l else ".") for l in lines[1:]])

    def head_text(self, h):
        """The header paragraph: Format first, then the optional fields in one of four orders."""
        fields = []
        if h.get("name"):
            fields.append("Upstream-Name: " + h["name"])
        if h.get("contact"):
            fields.append("Upstream-Contact: " + self.multiline(h["contact"]))
        if h.get("source"):
            fields.append("Source: " + h["source"])
        if h.get("disclaimer"):
            fields.append("Disclaimer: " + self.multiline(h["disclaimer"]))
        if h.get("comment"):
            fields.append("Comment: " + self.multiline(h["comment"]))
        if h.get("copyright"):
            fields.append("Copyright: " + self.multiline(h["copyright"]))
        if h.get("license"):
            fields.append("License: " + self.multiline([h["license"]] + (self.LICENCE_TEXT if h.get("license_text") else [])))
        o = h.get("order", 0)
        if o == 1:
            fields.reverse()
        elif o == 2:
            fields = fields[-2:] + fields[:-2]
        elif o == 3:
            fields = fields[1::2] + fields[0::2]
        return "Format: https://www.debian.org/doc/packaging-manuals/copyright-format/1.0/\n" + "".join(f + "\n" for f in fields)

    def cases(self, tier, rng):
        n = 240 if tier == "thorough" else 48
        for i in range(n):
            paras = []
            for _ in range(rng.randint(1, 4)):
                gs = rng.sample(self.GLOBS, rng.randint(1, 3))
                if rng.random() < 0.35:
                    gs[rng.randrange(len(gs))] = rng.choice(self.ODD_GLOBS)
                    if rng.random() < 0.3:
                        gs = [rng.choice(self.ODD_GLOBS)]   # a paragraph that is dead as a whole
                cp = ["%d Holder %d" % (rng.randint(1990, 2024), rng.randint(1, 9)) for _ in range(rng.randint(1, 3))]
                paras.append({"g": gs, "c": cp, "l": rng.choice(self.LIC), "comment": rng.random() < 0.3})
                if rng.random() < 0.6:
                    paras[-1].update(cp_layout(rng))
                if rng.random() < 0.25:
                    # the License field holds the licence text after the synopsis (continuation lines, " ." for an empty line),
                    # as the Debian format allows; the synopsis alone is the expression
                    paras[-1]["ltext"] = rng.choice(self.LICENCE_TEXTS)
            if len(paras) >= 2 and rng.random() < 0.4:
                # a later paragraph repeats copyright, licence and comment of an earlier one, another paragraph in between:
                # the order of the paragraphs is part of the meaning (the last match wins)
                k = rng.randrange(len(paras) - 1)
                paras.append({"g": rng.sample(self.GLOBS, rng.randint(1, 2)), "c": list(paras[k]["c"]), "l": paras[k]["l"],
                              "comment": paras[k]["comment"], **{x: paras[k][x] for x in ("ind", "first") if x in paras[k]}})
            case = {"paras": paras, "own": rng.sample(self.TREE, 3)}
            if rng.random() < 0.2:
                case["standalone"] = rng.sample(self.LIC, rng.randint(1, 2))     # stand-alone License paragraphs with the full text
            if i % 2:
                # the header paragraph with any of its optional fields (DEP-5 allows Copyright / License -- with or without the
                # licence text -- / Comment / Disclaimer there: they describe the package as a whole and attribute nothing to
                # any path), stand-alone License paragraphs, and files of every kind of own information that no Files
                # paragraph needs to match
                case["head"] = self.gen_head(rng)
                case["lic_paras"] = [{"l": l, "comment": rng.random() < 0.3} for l in rng.sample(self.LIC_SINGLE, rng.choice([0, 0, 1, 2]))]
                case["own"] = rng.sample(self.TREE, rng.randint(0, 5))
                case["own_kinds"] = {f: rng.choice(self.OWN_KINDS) for f in case["own"]}
                if rng.random() < 0.4:
                    # narrow paragraphs only: most of the tree is matched by no Files paragraph
                    case["paras"] = [dict(p, g=rng.sample(self.NARROW, rng.randint(1, 2))) for p in paras[:rng.randint(1, 2)]]
                for p in case["paras"]:
                    if rng.random() < 0.25:
                        p["text"] = True    # the License field of a Files paragraph carries the licence text after the expression
            yield case
        # the header paragraph alone carries information, with every optional field present; the Files paragraphs are narrow, so most
        # paths are matched by none of them (with and without information of their own)
        full = {"name": "demo", "contact": ["Jane <jane@example.com>", "John <john@example.com>"], "source": "https://example.com/demo",
                "disclaimer": ["This package is not part of Debian.", "", "It is merely packaged."], "comment": ["a comment", "", "more"],
                "copyright": ["2019 The Demo Team", "2021 Example Ltd"], "license": "MIT", "license_text": True, "order": 0}
        narrow = {"c": ["2020 Jane Doe"], "l": "0BSD", "comment": False}
        for k, head in enumerate((full, dict(full, license_text=False), dict(full, copyright=["2019 The Demo Team"], license="Apache-2.0 OR MIT"),
                                  {"copyright": ["2019 The Demo Team"], "license": "CC0-1.0", "order": 1},
                                  {"copyright": ["2019 The Demo Team"], "order": 2}, {"license": "GPL-3.0-or-later", "license_text": True, "order": 3},
                                  {"comment": ["only a comment"], "disclaimer": ["only a disclaimer"], "order": 1})):
            own = [["src/a.c", "docs/x.md"], ["README"], [], ["src/a.c", "src/lib/d.h", "b.md", "data/1.json"]][k % 4]
            kinds = {f: self.OWN_KINDS[(k + j) % len(self.OWN_KINDS)] for j, f in enumerate(own)}
            yield {"paras": [dict(narrow, g=["data/*.json"], text=k % 2 == 0)], "own": own, "own_kinds": kinds, "head": head, "lic_paras": []}
            yield {"paras": [dict(narrow, g=["docs/img/*.png", "a.txt"]), dict(narrow, g=["src/lib/*"], l="MIT")], "own": own, "own_kinds": kinds,
                   "head": head, "lic_paras": [{"l": "0BSD", "comment": True}]}
        # ours / theirs / ours again, nested: `*`, `src/*`, `src/lib/*`
        us = {"c": ["2020 Jane Doe"], "l": "MIT", "comment": False}
        them = {"c": ["2019 Vendor Inc."], "l": "Apache-2.0 OR MIT", "comment": False}
        for g1, g2, g3 in (("*", "src/*", "src/lib/*"), ("*", "docs/*", "docs/img/*.png"), ("*.json", "data/*.json", "data/sub/2.json")):
            yield {"paras": [dict(us, g=[g1]), dict(them, g=[g2]), dict(us, g=[g3])], "own": []}
            yield {"paras": [dict(us, g=[g1]), dict(them, g=[g2]), dict(them, g=["README"]), dict(us, g=[g3, "a.txt"])], "own": ["src/a.c"]}
        # ours, then a paragraph of theirs whose patterns are not in normal form (dead): everything stays ours
        for odd in (["./src/*"], ["src//*.c", "docs/"], ["./*"], ["docs/./*", "./README", "data/./sub/2.json"], ["src/lib/", "/a.txt"]):
            yield {"paras": [dict(us, g=["*"]), dict(them, g=odd)], "own": []}
            yield {"paras": [dict(us, g=["*"]), dict(them, g=odd + ["docs/img/*.png"]), dict(us, g=["*.md"])], "own": ["README"]}
        # the fixed layouts: alone over the whole tree; above a single-spaced paragraph for part of the tree, with a file that has its own header
        for k, lay in enumerate(CP_FIXED):
            yield {"paras": [dict(us, g=["*"], **lay)], "own": []}
            yield {"paras": [dict(them, g=["*"]), dict(us, g=[["src/*", "docs/*"][k % 2], "data/*.json"], **lay)], "own": [["src/a.c"], ["docs/x.md"]][k % 2]}
        yield {"paras": None, "own": []}  # no dep5 file: must refuse

    LICENCE_TEXTS = [["Permission is hereby granted, free of charge, to any person"], ["First paragraph of the text", ".", "Second paragraph, after an empty line"],
                     ["text that mentions SPDX-License-Identifier: GPL-2.0-only", ".", " indented line"], ["On Debian systems the full text is in /usr/share/common-licenses/X"]]

    def dep5_text(self, paras, head=None, lic_paras=(), standalone=()):
        out = [DEP5_HEAD if head is None else self.head_text(head)]
        tail = []
        for k, lp in enumerate(lic_paras):
            # stand-alone License paragraphs (the text of a licence that Files paragraphs refer to by name): before, between or
            # after the Files paragraphs
            t = "\nLicense: %s\n" % self.multiline([lp["l"]] + self.LICENCE_TEXT)
            if lp.get("comment"):
                t += "Comment: about this licence\n"
            (out if k % 2 else tail).append(t)
        for p in paras:
            lic = p["l"] + "".join("\n " + l for l in p.get("ltext", []))
            out.append("\nFiles: %s\n%s\nLicense: %s\n" % (
                " ".join(p["g"]), cp_field(p), self.multiline([p["l"]] + self.LICENCE_TEXT) if p.get("text") else lic))
            if p["comment"]:
                out[-1] += "Comment: some\n comment\n"
        for l in standalone:
            out.append("\nLicense: %s\n The full text of %s\n .\n in a paragraph of its own\n" % (l, l))
        return "".join(out + tail)

    def impl(self, case):
        import pathlib
        with cli.scratch("rv-c17-") as root:
            files = {}
            for f in self.TREE:
                body = "content of %s\n" % f
                if f in case["own"]:
                    kind = case.get("own_kinds", {}).get(f, "both")
                    info = ("SPDX-FileCopyrightText: 2001 Own Holder\n" if kind != "licence" else "") + \
                           ("SPDX-License-Identifier: ISC\n" if kind != "copyright" else "")
                    if kind == "sibling":
                        files[f + ".license"] = info
                    else:
                        body = info + body
                files[f] = body
            for lic in ["MIT", "0BSD", "GPL-3.0-or-later", "Apache-2.0", "CC0-1.0", "ISC"]:
                files["LICENSES/%s.txt" % lic] = "text\n"
            if case["paras"] is not None:
                files[".reuse/dep5"] = self.dep5_text(case["paras"], case.get("head"), case.get("lic_paras", ()), case.get("standalone", ()))
            cli.write_tree(root, files)
            code0, before, exc0 = cli.lint_json(root)
            # observe the order of the two file operations
            log = []
            orig_w, orig_u = pathlib.Path.write_text, pathlib.Path.unlink

            def w(self_, *a, **k):
                log.append("write:" + self_.name)
                return orig_w(self_, *a, **k)

            def u(self_, *a, **k):
                log.append("unlink:" + self_.name + (":toml-exists" if os.path.exists(os.path.join(root, "REUSE.toml")) else ":toml-missing"))
                return orig_u(self_, *a, **k)

            pathlib.Path.write_text, pathlib.Path.unlink = w, u
            try:
                code, out, exc = cli.run_cli(["convert-dep5"], root)
            finally:
                pathlib.Path.write_text, pathlib.Path.unlink = orig_w, orig_u
            if exc is not None:
                return "EXC:%s" % type(exc).__name__
            has_dep5 = os.path.exists(os.path.join(root, ".reuse/dep5"))
            has_toml = os.path.exists(os.path.join(root, "REUSE.toml"))
            code1, after, exc1 = cli.lint_json(root)

            def norm(rep):
                if rep is None:
                    return None
                res = {}
                for f in rep["files"]:
                    res[f["path"]] = (
                        sorted((c["value"], "G" if c["source_type"] in ("dep5", "reuse-toml") else c["source_type"]) for c in f["copyrights"]),
                        sorted((c["value"], "G" if c["source_type"] in ("dep5", "reuse-toml") else c["source_type"]) for c in f["spdx_expressions"]),
                    )
                return res, rep["summary"]["compliant"], sorted(rep["non_compliant"]["missing_licenses"]), sorted(rep["non_compliant"]["unused_licenses"])

            same = norm(before) == norm(after)
            detail = ""
            if not same and before is not None and after is not None:
                nb, na = norm(before), norm(after)
                for path in sorted(set(nb[0]) | set(na[0])):
                    if nb[0].get(path) != na[0].get(path):
                        detail = "%s: %s -> %s" % (path, json.dumps(nb[0].get(path)), json.dumps(na[0].get(path)))
                        break
                else:
                    detail = "summary: %s -> %s" % (json.dumps(nb[1:]), json.dumps(na[1:]))
            if not same and after is None:
                detail = "after the conversion `reuse lint --json` gives no report (exit %s%s)" % (code1, ", %s" % type(exc1).__name__ if exc1 is not None else "")
            attributed = len({json.dumps(v[0]) for v in (norm(after)[0].values() if after else [])})
            return json.dumps({"exit": code, "log": log, "dep5": has_dep5, "toml": has_toml, "same": same,
                               "lint_exit": [code0, code1], "distinct": attributed, **({"detail": detail[:400]} if detail else {})}, sort_keys=True)

    def oracle(self, case, impl_out):
        if impl_out.startswith("EXC"):
            return "convert-crash: " + impl_out
        r = json.loads(impl_out)
        if case["paras"] is None:
            if r["exit"] != 2 or r["toml"] or r["log"]:
                return "convert-without-dep5: exit %s, log %s" % (r["exit"], r["log"])
            return None
        if r["exit"] != 0:
            return "convert-failed: exit %s" % r["exit"]
        if r["dep5"] or not r["toml"]:
            return "convert-final-state: dep5=%s toml=%s" % (r["dep5"], r["toml"])
        if r["log"] != ["write:REUSE.toml", "unlink:dep5:toml-exists"]:
            return "convert-order: %s" % r["log"]
        if not r["same"]:
            return "convert-changes-lint: lint --json differs before/after conversion (modulo source name): " + r.get("detail", "")
        return None

    def classify(self, case, failure):
        if case["paras"] and failure.startswith("convert-changes-lint"):
            gs = [g for p in case["paras"] for g in p["g"]]
            if any(has_question(g) for g in gs):
                return "dep5-question-mark"
            if any(has_star_slash(g) for g in gs):
                return "dep5-star-slash"
        return None

    def nontrivial(self, case, impl_out):
        if impl_out.startswith("EXC"):
            return None
        r = json.loads(impl_out)
        return impl_out if r.get("distinct", 0) >= 2 else None

    def show(self, case):
        return {"dep5": self.dep5_text(case["paras"], case.get("head"), case.get("lic_paras", ()), case.get("standalone", ())) if case["paras"] else None, "own": case["own"],
                **({"own_kinds": case["own_kinds"]} if case.get("own_kinds") else {})}


import c17s12     # noqa: E402  (needs the classes above)

PROPERTY = Property(
    pid="C17",
    streams=[Dep5GlobStream2(), WitnessStream(), FileStream()] + c17s12.STREAMS,
    assumptions=[
        "python-debian's globs_to_re is modelled by Model.dep5Blocks (validated exhaustively to the stated bound); its paragraph parser and tomlkit's serialiser are exercised end-to-end by the file stream, not modelled",
        "the glob theorem is partial: dep5 globs with an unescaped '?' or with an asterisk run directly followed by '/' are excluded (known findings)",
    ],
)
