"""C03 — exactly the covered files are examined."""
import itertools
import json
import os
import random
import re
import subprocess

from core import Property, Stream, enc, dec, enc_list, dec_list
import cli

LICENSE_NAMES = ("LICENSE", "LICENCE", "COPYING")
SPDX_EXT = ("rdf", "json", "xml", "yml", "yaml")
EXCLUDED_DIRS = (".git", ".hg", ".sl", "LICENSES", ".reuse")


def spec_file_name_excluded(n: str) -> bool:
    """The file-name clauses of the property text."""
    for b in LICENSE_NAMES:
        if n == b or n.startswith(b + "-") or n.startswith(b + "."):
            return True
    if n.endswith(".license") or n == "REUSE.toml":
        return True
    if n.endswith(".spdx") or any(n.endswith(".spdx." + e) for e in SPDX_EXT):
        return True
    return n in (".git", ".hgtags")  # VCS metadata files


def workaround_name(n: str) -> bool:
    import re
    return bool(re.match(r"^CAL-1.0(-Combined-Work-Exception)?(\..+)?$", n) or re.match(r"^SHL-2.1(\..+)?$", n))


def spec_covered(tree, flags, ignored=frozenset(), submodules=frozenset()):
    """tree: list of (name, node); node = ('f', size) | ('l',) | ('d', children). -> set of 'a/b' paths"""
    incl_sub, incl_meson = flags[0] == "1", flags[1] == "1"
    out = set()

    def rec(children, path, parent_name):
        for name, node in children:
            p = path + [name]
            ps = "/".join(p)
            if node[0] == "l":
                continue
            if ps in ignored:
                continue
            if node[0] == "f":
                if node[1] > 0 and not spec_file_name_excluded(name):
                    out.add(ps)
            else:
                if name in EXCLUDED_DIRS:
                    continue
                if not incl_meson and parent_name == "subprojects":
                    continue
                if not incl_sub and ps in submodules:
                    continue
                rec(node[1], p, name)

    rec(tree, [], None)
    return out


def tree_tokens(tree):
    toks = []
    for name, node in tree:
        if node[0] == "f":
            toks.append("F:%s:%d" % (enc(name), node[1]))
        elif node[0] == "l":
            toks.append("L:%s" % enc(name))
        else:
            toks.append("D:%s" % enc(name))
            toks.extend(tree_tokens(node[1]))
            toks.append("E")
    return toks


def materialise(root, tree):
    for name, node in tree:
        p = os.path.join(root, name)
        if node[0] == "f":
            with open(p, "wb") as fp:
                # a non-empty REUSE.toml must be valid TOML, or every command stops with a configuration error
                fp.write(b"version = 1\n" if name == "REUSE.toml" and node[1] > 0 else b"x" * node[1])
        elif node[0] == "l":
            os.symlink(node[1] if len(node) > 1 else "nowhere", p)
        else:
            os.makedirs(p, exist_ok=True)
            materialise(p, node[1])


FILE_NAMES = ["a.py", "LICENSE", "LICENCE", "COPYING", "LICENSE-MIT", "LICENSE.txt", "LICENSEX", "LICENSE_MIT", "COPYING.md", "COPYINGX",
              "MYLICENSE", "x.license", ".license", "license", "a.spdx", "a.spdx.json", "a.spdx.yaml", "a.spdx.yml", "a.spdx.rdf", "a.spdx.xml",
              "a.spdxx", "a.spdxxjson", "a.spdx.txt", "spdx", "REUSE.toml", "reuse.toml", ".gitignore", ".hgtags", "x.o", "b c.txt", "é.txt",
              "Makefile", ".hidden", "a.spdx.jsonx", "LICENSE.", "COPYING-", "LICENCE.md"]
DIR_NAMES = ["src", "LICENSES", ".reuse", ".hg", ".sl", ".git", "subprojects", "LICENSE", "docs", "licenses", ".github", "sub", "LICENSES2", "x.license"]


def rand_tree(rng, depth=0, parent=""):
    n = rng.randint(1, 5 if depth < 2 else 3)
    names = set()
    out = []
    for _ in range(n):
        kind = rng.random()
        if kind < 0.55 or depth >= 3:
            name = rng.choice(FILE_NAMES)
            node = ("f", rng.choice([0, 1, 1, 7, 7, 30]))
        elif kind < 0.65:
            name = rng.choice(FILE_NAMES + DIR_NAMES)
            node = ("l", rng.choice(["nowhere", ".", "/etc/hostname"]))
        else:
            name = rng.choice(DIR_NAMES)
            if name == ".git":
                name = "src"  # a real .git directory would turn the tree into a repository
            node = ("d", rand_tree(rng, depth + 1, name))
        if name in names:
            continue
        names.add(name)
        out.append((name, node))
    return out


def dir_paths(tree, prefix=""):
    """relative paths of the real directories of a generated tree"""
    out = []
    for name, node in tree:
        if node[0] == "d":
            out.append(prefix + name)
            out.extend(dir_paths(node[1], prefix + name + "/"))
    return out


def nameable(tree, prefix=""):
    """what `reuse lint-file` can be handed from a generated tree: every regular file (covered or not, empty ones too), every
    directory, and the symlinks that point at their own directory ('.'); a dangling symlink is refused by the command
    line (click checks existence) and one that leaves the project is a usage error, so these two are not named"""
    out = []
    for name, node in tree:
        if node[0] == "f":
            out.append((prefix + name, "f"))
        elif node[0] == "l":
            if len(node) > 1 and node[1] == ".":
                out.append((prefix + name, "l"))
        else:
            out.append((prefix + name, "d"))
            out.extend(nameable(node[1], prefix + name + "/"))
    return out


SPELLINGS = ("rel", "rel", "dot", "abs", "updown")


def spell(path, form, root, cwd):
    """one of several spellings of the project-relative `path` as a command-line argument given in directory `cwd`"""
    full = os.path.join(root, path)
    if form == "abs":
        return full
    r = os.path.relpath(full, cwd)
    if form == "dot":
        return "./" + r
    if form == "updown" and "/" in path and cwd == root:
        d, b = path.rsplit("/", 1)
        return d + "/../" + d.rsplit("/", 1)[-1] + "/" + b      # a/b/../b/f
    return r


LINT_FILE_LINE = re.compile(r"^(.*): (?:no license identifier|no copyright notice|read error|missing license \S+|bad license \S+)$")


def lint_file_examined(root, cwd, opts, args):
    """the project-relative paths `reuse lint-file ARGS` says something about.  The generated files carry no REUSE
    information, so every file the command examines is named in at least two lines."""
    code, out, exc = cli.run_cli(opts + ["lint-file"] + args, cwd)
    if exc is not None or code not in (0, 1):
        return ["<lint-file failed: exit %s %s %s>" % (code, type(exc).__name__ if exc else "", out.strip().splitlines()[-1:] if out.strip() else "")]
    seen = set()
    for line in out.splitlines():
        m = LINT_FILE_LINE.match(line)
        if m:
            seen.add(os.path.relpath(os.path.join(cwd, m.group(1)), root))
        elif line.strip() and "Warning" not in line and not line.startswith("  warnings.warn"):
            seen.add("<unparsed: %s>" % line[:60])
    return sorted(seen)


class NameStream(Stream):
    name = "names"
    exhaustive = True
    rule = ("every name of length <=N over {L,I,C,E,N,S,.,-,x} (quick N=4, thorough N=5) plus every prefix/suffix/one-character "
            "mutation of the 60 boundary names: `is_path_ignored` asked about a real file / directory / child of a directory of that name vs the model (whose pattern lists are regenerated from the code); oracle = the file/dir name "
            "clauses of the property text; non-trivial = name excluded by some rule")

    def cases(self, tier, rng):
        n = 5 if tier == "thorough" else 4
        names = set()
        for k in range(1, n + 1):
            for t in itertools.product("LICENS.-x", repeat=k):
                names.add("".join(t))
        for b in FILE_NAMES + DIR_NAMES + ["CAL-1.0", "CAL-1.0.txt", "CAL-1.0-Combined-Work-Exception.txt", "SHL-2.1", "SHL-2.1.txt", "CAL-1x0", "SHL-2.10"]:
            names.add(b)
            for i in range(len(b) + 1):
                for c in "x.-\n":
                    names.add(b[:i] + c + b[i:])
                if i < len(b):
                    names.add(b[:i] + b[i + 1:])
                    names.add(b[:i] + b[i].swapcase() + b[i + 1:])
        names = sorted(n for n in names if n not in (".", "..") and "/" not in n and "\0" not in n)
        for i in range(0, len(names), 400):
            yield {"names": names[i:i + 400]}

    def impl(self, case):
        # behavioural probe, not a look at the private pattern lists: a non-empty regular file called n, a directory called n, and a
        # directory whose parent is called n are put on disk and `is_path_ignored` is asked about each (no VCS, no subset) -- so the
        # stream survives any reorganisation of the name rules inside covered_files.py and sees what the walk sees
        import shutil
        import tempfile
        from pathlib import Path
        from reuse import covered_files as cf
        base = "/dev/shm" if os.path.isdir("/dev/shm") else None
        top = Path(tempfile.mkdtemp(prefix="rv-c03-names-", dir=base))
        out = []
        try:
            for k, n in enumerate(case["names"]):
                d = top / str(k)
                (d / "f").mkdir(parents=True)
                (d / "d" / n).mkdir(parents=True)
                (d / "m" / n / "child").mkdir(parents=True)
                (d / "f" / n).write_bytes(b"x\n")
                out.append("".join("1" if cf.is_path_ignored(q) else "0" for q in (d / "f" / n, d / "d" / n, d / "m" / n / "child")))
        finally:
            shutil.rmtree(top, ignore_errors=True)
        return " ".join(out)

    def model_lines(self, case):
        return ["namerow\t" + enc_list(case["names"])]

    def oracle(self, case, impl_out):
        if impl_out.startswith("EXC"):
            return "crash: " + impl_out
        for n, bits in zip(case["names"], impl_out.split(" ")):
            if "\n" in n:
                continue  # documented boundary: '$' and '.' treat a newline specially; no real file name has one in practice
            if (bits[0] == "1") != spec_file_name_excluded(n):
                return "file-name-rule: %r is %s by the tool but %s by the property" % (
                    n, "excluded" if bits[0] == "1" else "covered", "excluded" if spec_file_name_excluded(n) else "covered")
            if (bits[1] == "1") != (n in EXCLUDED_DIRS):
                return "dir-name-rule: %r" % n
            if (bits[2] == "1") != (n == "subprojects"):
                return "meson-parent-rule: %r" % n
        return None

    def classify(self, case, failure):
        if failure.startswith("file-name-rule"):
            # only when *every* disagreeing name in the chunk is a CAL-1.0 / SHL-2.1 workaround name
            got = self.impl(case)
            if got.startswith("EXC"):
                return None
            bad = [n for n, bits in zip(case["names"], got.split(" ")) if "\n" not in n and
                   (bits[0] == "1") != spec_file_name_excluded(n)]
            if bad and all(workaround_name(n) for n in bad):
                return "c03-workaround-names"
        return None

    def nontrivial(self, case, impl_out):
        return tuple(n for n, b in zip(case["names"], impl_out.split(" ")) if "1" in b) or None

    def show(self, case):
        return {"names": case["names"][:12]}


class TreeStream(Stream):
    name = "tree"
    rule = ("random directory trees (depth <=4) built from 37 file names and 14 directory names on both sides of every rule, as "
            "file / empty file / directory / symlink / broken symlink, x the four flag combinations, no VCS: real iter_files vs model "
            "walk vs oracle; for a sample also the file sets of `lint --json`, `spdx` and `annotate --recursive`; "
            "non-trivial = tree where something is excluded and something is covered")

    def cases(self, tier, rng):
        n = 1500 if tier == "thorough" else 150
        for i in range(n):
            cmds = i % 10 == 0
            tree = rand_tree(rng)
            case = {"tree": tree, "flags": rng.choice(["00", "01", "10", "11"]), "cmds": cmds}
            if cmds:
                case["tree"] = tree = self._sane_licenses(tree)
                # `annotate --recursive DIR` for up to three directories of the tree, excluded ones (LICENSES, .reuse,
                # subprojects/x, .hg) included: exactly the covered files below DIR may be touched
                dirs = dir_paths(tree)
                case["rdirs"] = rng.sample(dirs, min(3, len(dirs)))
                # `lint-file`: (1) every nameable path of the tree, covered or not, each in a random spelling, from the root;
                # (2) a random part of them, from a sub-directory as working directory (with --root)
                names = nameable(tree)
                case["lf1"] = [[p, rng.choice(SPELLINGS)] for p, k in names if k != "d" or rng.random() < 0.3]
                rng.shuffle(case["lf1"])
                part = [p for p, k in names if rng.random() < 0.5]
                case["lf2"] = {"cwd": rng.choice([""] + [d for d in dirs]), "sel": [[p, rng.choice(("rel", "abs", "dot"))] for p in part]}
            yield case

    @staticmethod
    def _sane_licenses(tree):
        """For the runs through whole commands: two files below a LICENSES/ directory that resolve to one
        identifier stop every command (C16 known finding) — keep one regular file per LICENSES/ directory."""
        out = []
        for name, node in tree:
            if node[0] == "d":
                kids = TreeStream._sane_licenses(node[1])
                if name == "LICENSES":
                    files = [(n, x) for n, x in kids if x[0] == "f"][:1]
                    kids = files
                out.append((name, ("d", kids)))
            elif name == "LICENSES" and node[0] == "l":
                continue  # a LICENSES symlink into the tree makes licence texts resolve twice (same known finding)
            else:
                out.append((name, node))
        return out

    def impl(self, case):
        from reuse.covered_files import iter_files
        tree, flags = case["tree"], case["flags"]
        with cli.scratch("rv-c03-") as root:
            materialise(root, tree)
            got = sorted(os.path.relpath(str(p), root) for p in iter_files(
                root, include_submodules=flags[0] == "1", include_meson_subprojects=flags[1] == "1"))
            extra = ""
            if case.get("cmds"):
                opts = (["--include-submodules"] if flags[0] == "1" else []) + (["--include-meson-subprojects"] if flags[1] == "1" else [])
                code, rep, exc = cli.lint_json(root, extra=())
                code, out, exc2 = cli.run_cli(opts + ["lint", "--json"], root)
                try:
                    rep = json.loads(out[out.index("{"):])
                    lint_files = sorted(f["path"] for f in rep["files"])
                except Exception:
                    lint_files = ["<lint failed>"]
                code, out, exc3 = cli.run_cli(opts + ["spdx"], root)
                spdx_files = sorted(l[len("FileName: ./"):] for l in out.splitlines() if l.startswith("FileName: ./"))
                lf = ""
                if case.get("lf1"):
                    lf += "|lintfile=%s" % ";".join(lint_file_examined(
                        root, root, opts + ["--no-multiprocessing"], [spell(p, form, root, root) for p, form in case["lf1"]]))
                if case.get("lf2") and case["lf2"]["sel"]:
                    cwd = os.path.join(root, case["lf2"]["cwd"]) if case["lf2"]["cwd"] else root
                    lf += "|lintfile2=%s" % ";".join(lint_file_examined(
                        root, cwd, opts + ["--no-multiprocessing", "--root", root], [spell(p, form, root, cwd) for p, form in case["lf2"]["sel"]]))
                before = cli.snapshot(root)
                code, out, exc4 = cli.run_cli(opts + ["annotate", "-c", "Jane", "-l", "MIT", "--recursive", "--fallback-dot-license", "."], root)
                after = cli.snapshot(root)
                touched = set()
                for k in set(before) | set(after):
                    if before.get(k) != after.get(k):
                        touched.add(k[:-len(".license")] if k.endswith(".license") and k not in before else k)
                extra = "|lint=%s|spdx=%s|annot=%s%s" % (";".join(lint_files), ";".join(spdx_files), ";".join(sorted(touched)), lf)
        for d in case.get("rdirs", []):
            with cli.scratch("rv-c03r-") as root:
                materialise(root, tree)
                before = cli.snapshot(root)
                cli.run_cli(opts + ["annotate", "-c", "Jane", "-l", "MIT", "--recursive", "--fallback-dot-license", d], root)
                after = cli.snapshot(root)
                touched = set()
                for k in set(before) | set(after):
                    if before.get(k) != after.get(k):
                        touched.add(k[:-len(".license")] if k.endswith(".license") and k not in before else k)
                extra += "|annot:%s=%s" % (enc(d), ";".join(sorted(touched)))
        if True:
            return ";".join(got) + extra

    def model_lines(self, case):
        return ["walk\t%s0\t\t%s\t~\t~" % (case["flags"], " ".join(tree_tokens(case["tree"])))]

    def model_out(self, case, outs):
        return ";".join(sorted(dec_list(outs[0])))

    def _split(self, impl_out):
        parts = impl_out.split("|")
        return parts[0], parts[1:]

    def run_compare(self, impl_out):
        return self._split(impl_out)[0]

    def oracle(self, case, impl_out):
        if impl_out.startswith("EXC"):
            return "walk-crash: " + impl_out
        base, extras = self._split(impl_out)
        want = ";".join(sorted(spec_covered(case["tree"], case["flags"])))
        if base != want:
            a, b = set(base.split(";")) - {""}, set(want.split(";")) - {""}
            return "covered-set-differs: examined but excluded by the property %s; covered but skipped %s" % (sorted(a - b), sorted(b - a))
        for e in extras:
            k, v = e.split("=", 1)
            if k.startswith("annot:"):
                d = dec(k[len("annot:"):])
                below = ";".join(p for p in want.split(";") if p.startswith(d + "/"))
                if v != below:
                    return "recursive-set-differs: `annotate --recursive %s` touched %s, the covered files below it are %s" % (d, v, below)
                continue
            if k == "lintfile2":
                named = {p for p, _ in case["lf2"]["sel"]}
                part = ";".join(p for p in want.split(";") if p in named)
                if v != part:
                    return ("lint-file-set-differs: `lint-file` from %r on %d named paths examines %s, the covered files among the named are %s"
                            % (case["lf2"]["cwd"] or ".", len(named), v, part))
                continue
            if k == "lintfile" and v != want:
                a, b = set(v.split(";")) - {""}, set(want.split(";")) - {""}
                return ("lint-file-set-differs: `lint-file` on every path of the tree examines %s although excluded, skips the covered %s"
                        % (sorted(a - b), sorted(b - a)))
            if v != want:
                return "command-set-differs: %s considers %s, covered files are %s" % (k, v, want)
        return None

    def classify(self, case, failure):
        if failure.startswith(("covered-set-differs", "command-set-differs")):
            names = []

            def rec(ch):
                for n, node in ch:
                    names.append(n)
                    if node[0] == "d":
                        rec(node[1])
            rec(case["tree"])
            return None
        return None

    def nontrivial(self, case, impl_out):
        base = self._split(impl_out)[0]
        total = sum(1 for _ in tree_tokens(case["tree"]))
        return base if base and total > len(base.split(";")) + 1 else None


# compare only the walk part with the model
_orig_model_out = TreeStream.model_out


def _git(args, cwd, input=None, global_config="/dev/null"):
    return subprocess.run(["git"] + args, cwd=cwd, capture_output=True, input=input,
                          env={**os.environ, "GIT_CONFIG_GLOBAL": global_config, "GIT_CONFIG_SYSTEM": "/dev/null",
                               "GIT_AUTHOR_NAME": "t", "GIT_AUTHOR_EMAIL": "t@e", "GIT_COMMITTER_NAME": "t", "GIT_COMMITTER_EMAIL": "t@e"})


class GitStream(Stream):
    name = "git"
    rule = ("random trees inside a Git repository with generated .gitignore hierarchies (globs, directory rules, negations), files "
            "tracked / untracked / ignored, a manual submodule and subprojects/, in 40 % of the cases a user-level ignore file "
            "(core.excludesFile of the user's global Git configuration, outside the repository), four flag combinations: real Project.all_files vs the "
            "model walk fed `git check-ignore` answers vs the oracle; a second family of cases adds 0-3 further submodules (paths of one to "
            "three components with dots, blanks, dashes, non-ASCII; the name equal to the path or given apart with dots / blanks / a `.path` "
            "ending; as plain directory, with a .git file, as embedded repository, as gitlink in the index, or made by `git submodule add "
            "[--name N]`; registered through `git config --file .gitmodules`) and reaches the root through symbolic links (an ancestor "
            "directory is a link, the root itself is one, a link to a link, a relative link), spelt absolute or relative, the process in the "
            "root, its parent or a sibling directory: Project.from_directory(<that spelling>).all_files, subset_files, `reuse --root <that "
            "spelling> lint --json` and `lint-file` must each examine exactly the covered files (Git's verdicts are asked in the real "
            "directory and do not depend on the spelling; files below a registered submodule path are covered iff --include-submodules); "
            "non-trivial = some file ignored by Git and some covered")
    IGN = ["*.o", "build/", "/docs/gen.txt", "!keep.o", "tmp*", "src/*.log", "**/cache/", "*.tmp"]
    NAMES = ["a.c", "b.o", "keep.o", "gen.txt", "tmp1", "x.log", "y.tmp", "README", "LICENSE", "z.py"]
    DNAMES = ["src", "build", "docs", "cache", "subprojects", "mod", "lib"]

    def cases(self, tier, rng):
        for i in range(200 if tier == "thorough" else 25):
            yield {"seed": rng.randrange(1 << 30), "flags": rng.choice(["00", "01", "10", "11"])}
        # further submodules (names / paths with dots, blanks, several components, a name other than the path; real ones), and the
        # root spelt through symbolic links, absolute or relative, from the root, its parent or a sibling directory
        for i in range(240 if tier == "thorough" else 30):
            yield {"seed": rng.randrange(1 << 30), "flags": rng.choice(["00", "01", "10", "10", "11", "00"]), "xsubs": 1,
                   "via": rng.choice(c03vcs.VIAS), "cwd": rng.choice(["root", "top", "elsewhere"]), "rootsp": rng.choice(["abs", "rel"])}

    def _gen(self, case):
        import random
        rng = random.Random(case["seed"])

        def tree(depth):
            out, seen = [], set()
            for _ in range(rng.randint(2, 5)):
                if rng.random() < 0.6 or depth >= 2:
                    n = rng.choice(self.NAMES)
                    node = ("f", rng.choice([1, 5]))
                else:
                    n = rng.choice(self.DNAMES)
                    node = ("d", tree(depth + 1))
                if n not in seen:
                    seen.add(n)
                    out.append((n, node))
            return out
        t = tree(0)
        ign_root = rng.sample(self.IGN, rng.randint(1, 4))
        ign_sub = rng.sample(self.IGN, rng.randint(0, 2))
        return t, ign_root, ign_sub, rng

    UIGN = ["*.log", "README", "tmp*", "z.py", "lib/", "*.c"]

    def _user_ignore(self, case):
        """patterns of the user's own ignore file (core.excludesFile in the global configuration), or None; drawn from a
        separate generator so that the trees of older seeds stay what they were"""
        import random
        r = random.Random(case["seed"] ^ 0x5EED)
        if r.random() < 0.6:
            return None
        return r.sample(self.UIGN, r.randint(1, 3))

    def impl(self, case):
        from reuse.project import Project
        import logging
        t, ign_root, ign_sub, rng = self._gen(case)
        flags = case["flags"]
        uign = self._user_ignore(case)
        with cli.scratch("rv-c03g-") as top:
            root = os.path.join(top, "repo")
            os.makedirs(root)
            gconf = "/dev/null"
            if uign is not None:
                os.makedirs(os.path.join(top, "home"))
                gconf = os.path.join(top, "home", "gitconfig")
                with open(os.path.join(top, "home", "ignore"), "w") as fp:
                    fp.write("\n".join(uign) + "\n")
                with open(gconf, "w") as fp:
                    fp.write("[core]\n\texcludesFile = %s\n" % os.path.join(top, "home", "ignore"))
            materialise(root, t)
            with open(os.path.join(root, ".gitignore"), "w") as fp:
                fp.write("\n".join(ign_root) + "\n")
            if ign_sub and os.path.isdir(os.path.join(root, "src")):
                with open(os.path.join(root, "src", ".gitignore"), "w") as fp:
                    fp.write("\n".join(ign_sub) + "\n")
            # a manual submodule: directory with a .git file + .gitmodules entry
            sub = None
            if os.path.isdir(os.path.join(root, "mod")):
                sub = "mod"
                with open(os.path.join(root, ".gitmodules"), "w") as fp:
                    fp.write('[submodule "mod"]\n\tpath = mod\n\turl = https://example.com/mod.git\n')
            _git(["init", "-q"], root)
            plan = c03vcs.plan_submodules(case["seed"]) if case.get("xsubs") else []
            xsubs = c03vcs.build_submodules(top, root, plan)
            # the spelling of the root the tool is given, and where the process is
            os.makedirs(os.path.join(top, "elsewhere"))
            cwd = {"root": root, "top": top, "elsewhere": os.path.join(top, "elsewhere")}[case.get("cwd", "root")]
            rootsp = c03vcs.linked_root(top, root, case.get("via", "plain"))
            if case.get("rootsp") == "rel":
                rootsp = os.path.relpath(rootsp, cwd)
            # track a random half of the non-ignored files (and force-add one ignored file sometimes)
            allf = []
            for dp, dn, fn in os.walk(root):
                dn[:] = [d for d in dn if d != ".git"]
                for f in fn:
                    allf.append(os.path.relpath(os.path.join(dp, f), root))
            allf.sort()
            for f in allf:
                r = rng.random()
                if r < 0.5:
                    _git(["add", "--", f], root)
                elif r < 0.6:
                    _git(["add", "-f", "--", f], root)
            logging.disable(logging.CRITICAL)
            saved_env = {k: os.environ.get(k) for k in ("GIT_CONFIG_GLOBAL", "GIT_CONFIG_SYSTEM")}
            os.environ["GIT_CONFIG_GLOBAL"] = gconf      # the user's configuration as the tool's Git finds it
            os.environ["GIT_CONFIG_SYSTEM"] = "/dev/null"
            extra_sets = {}
            try:
                with cli.chdir(cwd):
                    project = Project.from_directory(rootsp, include_submodules=flags[0] == "1", include_meson_subprojects=flags[1] == "1")
                    got = sorted(os.path.relpath(str(p), rootsp) for p in project.all_files())
                    # lint-file's file source: every file on disk named (those inside .git, ignored directories, the
                    # submodule and subprojects/ included), through Project.subset_files and through the command; then a random half
                    every = list(allf) + [x for x in (".git/HEAD", ".git/config") if os.path.exists(os.path.join(root, x))]
                    lf_all = sorted(os.path.relpath(str(p), rootsp) for p in project.subset_files([os.path.join(rootsp, x) for x in every]))
                    half = sorted(x for x in every if rng.random() < 0.5)
                    lf_half = sorted(os.path.relpath(str(p), rootsp) for p in project.subset_files(
                        [os.path.join(rootsp, x) for x in half] if "via" in case else half)) if half else []
                opts = (["--include-submodules"] if flags[0] == "1" else []) + (["--include-meson-subprojects"] if flags[1] == "1" else [])
                forms = [rng.choice(("rel", "dot", "abs")) for _ in every]
                if "via" in case:
                    # the commands, told the root in that spelling (the named files spelt below the root as the user spelt it)
                    aroot = os.path.normpath(os.path.join(cwd, rootsp))
                    lf_cli = lint_file_examined(aroot, cwd, opts + ["--no-multiprocessing", "--root", rootsp],
                                                [spell(x, f, aroot, cwd) for x, f in zip(every, forms)])
                    extra_sets["lint_cli"] = c03vcs.lint_json_files(rootsp, cwd, opts, os.path.realpath(root))
                else:
                    lf_cli = lint_file_examined(root, root, opts + ["--no-multiprocessing"], [spell(x, f, root, root) for x, f in zip(every, forms)])
            finally:
                logging.disable(logging.NOTSET)
                for k, v in saved_env.items():
                    if v is None:
                        os.environ.pop(k, None)
                    else:
                        os.environ[k] = v
            # Git's own verdict for every path (files and directories)
            paths = []
            for dp, dn, fn in os.walk(root):
                dn[:] = [d for d in dn if d != ".git"]
                for x in dn + fn:
                    paths.append(os.path.relpath(os.path.join(dp, x), root))
            # (Git refuses to answer for a path inside a submodule of its index; the generated submodules hold no name an ignore pattern matches)
            asked = [x for x in paths if not c03vcs.below_any(x, xsubs)]
            r = _git(["check-ignore", "--stdin", "-z"], root, input=("\0".join(asked)).encode(), global_config=gconf)
            if r.returncode not in (0, 1):
                raise RuntimeError("git check-ignore failed: %r" % r.stderr[-200:])
            ignored = sorted(x for x in r.stdout.decode().split("\0") if x)
            # full tree as it is on disk (including .gitignore, .gitmodules)
            def read(d):
                out = []
                for n in sorted(os.listdir(d)):
                    if n == ".git" and os.path.isdir(os.path.join(d, n)):
                        out.append((n, ("d", [])))
                        continue
                    p = os.path.join(d, n)
                    if os.path.isdir(p):
                        out.append((n, ("d", read(p))))
                    else:
                        out.append((n, ("f", os.path.getsize(p))))
                return out
            disk = read(root)
            tracked = sorted(x for x in _git(["ls-files", "-z"], root).stdout.decode().split("\0") if x)
            return json.dumps({"got": got, "ignored": ignored, "sub": ([sub] if sub else []) + xsubs, "disk": disk, "tracked": tracked,
                               "lf_all": lf_all, "lf_cli": lf_cli, "lf_half": lf_half, "half": half, "rootsp": rootsp, "cwd": cwd, **extra_sets})

    def model_lines(self, case):
        return []  # needs the on-disk facts; compared inside the oracle through a second driver round

    def oracle(self, case, impl_out):
        if impl_out.startswith("EXC"):
            return "git-walk-crash: " + impl_out
        from core import run_driver
        r = json.loads(impl_out)
        disk = [(n, tuple(node) if node[0] != "d" else ("d", node[1])) for n, node in r["disk"]]

        def fix(ch):
            return [(n, ("d", fix(node[1])) if node[0] == "d" else tuple(node)) for n, node in ch]
        disk = fix(r["disk"])
        want = sorted(spec_covered(disk, case["flags"], frozenset(r["ignored"]), frozenset(r["sub"])))
        if r["got"] != want:
            a, b = set(r["got"]), set(want)
            # kept per case: classify() is asked after all cases have been judged
            self.__dict__.setdefault("_seen", {})[json.dumps(case, sort_keys=True)] = (sorted(a - b), sorted(b - a), r)
            return "git-covered-set-differs: examined although excluded/ignored %s; covered but skipped %s%s" % (
                sorted(a - b), sorted(b - a), " (root spelt %r, process in %r; submodules %s)" % (r["rootsp"], r["cwd"], r["sub"]) if "via" in case else "")
        # lint-file: of the named files exactly the covered ones are examined (C03_same_set / C03_subset)
        for key, named, how in (("lf_all", None, "Project.subset_files(<every file on disk>)"), ("lf_cli", None, "`reuse lint-file <every file on disk>`"),
                                ("lf_half", set(r.get("half", [])), "Project.subset_files(<half of the files on disk>)"),
                                ("lint_cli", None, "`reuse --root %s lint --json` run in %s" % (r.get("rootsp"), r.get("cwd")))):
            if key not in r:
                continue
            part = want if named is None else [p for p in want if p in named]
            if r[key] != part:
                a, b = set(r[key]), set(part)
                return "git-lint-file-set-differs: %s examines %s although excluded/ignored; skips the covered %s" % (how, sorted(a - b), sorted(b - a))
        # model vs implementation on the same facts
        line = "walk\t%s0\t\t%s\t%s\t%s" % (case["flags"], " ".join(tree_tokens(disk)), enc_list(r["ignored"]), enc_list(r["sub"]))
        mo = sorted(dec_list(run_driver([line])[0]))
        if mo != r["got"]:
            return "git-model-differs: model %s, tool %s" % (mo, r["got"])
        if "lf_half" in r and [p for p in mo if p in set(r["half"])] != r["lf_half"]:
            return "git-model-differs: model restricted to the named files %s, lint-file's source %s" % ([p for p in mo if p in set(r["half"])], r["lf_half"])
        return None

    def classify(self, case, failure):
        if failure.startswith("git-covered-set-differs") and "covered but skipped [] " in failure + " ":
            if json.dumps(case, sort_keys=True) not in getattr(self, "_seen", {}):
                return None
            extra, _, r = self._seen[json.dumps(case, sort_keys=True)]
            ign = set(r["ignored"])
            tracked = r["tracked"]

            from c03vcs import in_unignored_untracked_dir
            # every wrongly examined file is ignored by Git *and* lies inside a directory without any tracked file that is not
            # ignored itself: `git ls-files --others --ignored --directory` does not list such files (the directory is reported
            # as a whole or not at all).  An ignored directory whose content is examined is not this shape.
            if extra and all((x in ign or any(x.startswith(i + "/") for i in ign)) and in_unignored_untracked_dir(x, ign, tracked) for x in extra):
                return "c03-git-ignored-in-untracked-dir"
        return None

    def nontrivial(self, case, impl_out):
        if impl_out.startswith("EXC"):
            return None
        r = json.loads(impl_out)
        return impl_out if r["ignored"] and r["got"] else None

    def show(self, case):
        t, ign_root, ign_sub, _ = self._gen(case)
        out = {"tree": t, "gitignore": ign_root, "src/.gitignore": ign_sub, "flags": case["flags"], "user_ignore_file": self._user_ignore(case)}
        if case.get("xsubs"):
            out["further_submodules [name, path, kind]"] = c03vcs.plan_submodules(case["seed"])
        if "via" in case:
            out["root"] = {"reached": case["via"], "spelt": case["rootsp"], "process_in": case["cwd"]}
        return out


class TreeStreamCmp(TreeStream):
    """All commands obtain their files from the one walk (C03_same_set, by construction of the model)."""

    def model_out(self, case, outs):
        base = ";".join(sorted(dec_list(outs[0])))
        if case.get("cmds"):
            out = base + "|lint=%s|spdx=%s|annot=%s" % (base, base, base)
            # C03_recursive: `--recursive DIR` = the covered files of the one walk that lie below DIR
            # C03_subset: naming files restricts the one walk to the named ones
            if case.get("lf1"):
                out += "|lintfile=%s" % base
            if case.get("lf2") and case["lf2"]["sel"]:
                named = {p for p, _ in case["lf2"]["sel"]}
                out += "|lintfile2=%s" % ";".join(p for p in base.split(";") if p in named)
            for d in case.get("rdirs", []):
                out += "|annot:%s=%s" % (enc(d), ";".join(p for p in base.split(";") if p.startswith(d + "/")))
            return out
        return base


import c03vcs  # noqa: E402  (vcs.py's own logic: streams vcs, vcsgit, vcsdetect)

PROPERTY = Property(
    pid="C03",
    streams=[NameStream(), TreeStreamCmp(), GitStream(), c03vcs.VcsCannedStream(), c03vcs.VcsGitStream(), c03vcs.VcsDetectStream()],
    assumptions=[
        "vcs.py's own logic is modelled from the raw command outputs (Model/Vcs.lean); what remains an oracle is Git's ignore semantics: the contract "
        "between `git ls-files --directory` and `git check-ignore` (Spec.Vcs.ListingContract) is a hypothesis, tested on real repositories",
        "only Git is installed: the Mercurial/Jujutsu/Pijul strategies are exercised on canned command outputs only",
        "UTF-8 decoding of the command outputs and Path.resolve() on symbolic links inside the project are outside the model",
        "os.walk / Path.is_file / is_dir / is_symlink / stat are modelled by the tree type (file with size, symlink, directory)",
        "file names containing a newline are outside the name-rule oracle ('$' and '.' treat '\\n' specially) — documented boundary",
    ],
)
