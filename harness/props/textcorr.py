"""Correspondence streams for the text engine (tag recognition, copyright patterns, make / merge,
extract_reuse_info) — shared by C02, C20, C07, C09."""
import itertools

from core import Stream, enc, dec, enc_list, dec_list

PIECES = [
    "SPDX-License-Identifier:", "SPDX-FileCopyrightText:", "SPDX-SnippetCopyrightText:", "SPDX-FileContributor:",
    "Copyright", "©", "(C)", "(c)", "2020", "2019-2021", "2019 - 2021", "2020,", "1999 -2001", "٢٠٢٠",
    "Jane Doe", "ACME Inc.", "<jane@example.com>", "MIT", "GPL-3.0-or-later", "AND", "OR", ",", "x",
    "*/", "-->", "#}", "'>", "\">", "]::", "\" />", "' >", "*)", "=#", "--%>", ":)", "}", "%>", "]", "::", ">", "\"", "'",
    " ", " ", " ", "\t", " ", "  ", "#", "//", "/*", " * ", "|*", "*|", "c", "REM", ";;", "<!--", "{#",
    "\n", "\n", "\r", "\x0b", "\x85", " ",
]


def rand_text(rng, lo=1, hi=10):
    return "".join(rng.choice(PIECES) for _ in range(rng.randint(lo, hi)))


def small_lines():
    """every sequence of <=3 tokens from a reduced alphabet"""
    alpha = ["SPDX-License-Identifier:", "Copyright", "©", "(C)", " ", "2020", "x", "*/", "-->", "\">", "\n", "#", "\t"]
    for n in range(1, 4):
        for t in itertools.product(alpha, repeat=n):
            yield "".join(t)


class FindTagStream(Stream):
    name = "findtag"
    rule = ("find_spdx_tag with the licence and the contributor pattern on every sequence of <=3 tokens of a 13-token alphabet and on "
            "random texts of 1-10 pieces from a 60-piece grammar (tags, years, holders, terminators, blanks incl. NBSP, comment "
            "markers, line breaks); non-trivial = distinct non-empty result")

    def cases(self, tier, rng):
        for t in small_lines():
            yield {"w": "L", "t": t.replace("Copyright", "SPDX-FileContributor:")}
        for _ in range(30000 if tier == "thorough" else 3000):
            yield {"w": rng.choice("LN"), "t": rand_text(rng)}

    def impl(self, case):
        from reuse import extract
        pat = extract._LICENSE_IDENTIFIER_PATTERN if case["w"] == "L" else extract._CONTRIBUTOR_PATTERN
        return enc_list(extract.find_spdx_tag(case["t"], pat))

    def model_lines(self, case):
        return ["findtag\t%s\t%s" % (case["w"], enc(case["t"]))]

    def nontrivial(self, case, impl_out):
        return impl_out if impl_out != "~" else None

    def show(self, case):
        return {"pattern": case["w"], "text": case["t"]}


def cmatch_str(m):
    if m is None:
        return "none"
    g = m.groupdict()
    return "%s|%s|%s|%s" % (enc(g["prefix"]), "-" if g["year"] is None else "=" + enc(g["year"]), enc(g["statement"]), enc(g["copyright"]))


def impl_search(line):
    from reuse import extract
    for pat in extract._COPYRIGHT_PATTERNS:
        m = pat.search(line)
        if m is not None:
            return m
    return None


class CSearchStream(Stream):
    name = "csearch"
    rule = ("the three copyright patterns searched in order on one line (no line break): every sequence of <=3 tokens of the small "
            "alphabet and random lines from the piece grammar; compared: prefix, year, statement and whole `copyright` group; "
            "non-trivial = distinct matched result")

    def cases(self, tier, rng):
        for t in small_lines():
            if "\n" not in t:
                yield {"l": t}
        for _ in range(40000 if tier == "thorough" else 4000):
            t = rand_text(rng)
            for ch in "\n\r\x0b\x0c\x1c\x1d\x1e\x85  ":
                t = t.replace(ch, " ")
            yield {"l": t}

    def impl(self, case):
        return cmatch_str(impl_search(case["l"]))

    def model_lines(self, case):
        return ["csearch\t" + enc(case["l"])]

    def nontrivial(self, case, impl_out):
        return impl_out if impl_out != "none" else None

    def show(self, case):
        return {"line": case["l"]}


HOLDERS = ["Jane Doe", "ACME Inc.", "Jane Doe <jane@example.com>", "Free Software Foundation Europe e.V. <https://fsfe.org>",
           "José Álvarez", "X", "Copyright Clearance Center", "Team C#", "© Holder", "(C) Holder", "2020 Someone",
           "Copyright 2019 Other", "SPDX-FileCopyrightText: 2018 Third", "a */", "b -->", "Foo {Bar}", "张三", "2020", "R&D, Ltd.",
           "Eric", "SPDX-FileCopyrightText: Fourth", "© 2017 Fifth"]
YEARS = [None, "2020", "2019-2021", "2019 - 2021", "1999", "2030 - 2031"]


class MkLineStream(Stream):
    name = "mkline"
    exhaustive = True
    rule = ("make_copyright_line on every (holder from a 22-entry list incl. holders that already are notices, year form, prefix option) "
            "triple; then the tool's own reader on the result; non-trivial = distinct output line")

    def cases(self, tier, rng):
        from reuse.copyright import _COPYRIGHT_PREFIXES
        for h in HOLDERS:
            for y in YEARS:
                for p in list(_COPYRIGHT_PREFIXES) + ["nonsense"]:
                    yield {"h": h, "y": y, "p": p}

    def impl(self, case):
        from reuse.copyright import make_copyright_line
        try:
            return enc(make_copyright_line(case["h"], case["y"], case["p"]))
        except RuntimeError as e:
            return "err:prefix" if "prefix" in str(e) else "err:newline"

    def model_lines(self, case):
        return ["mkline\t%s\t%s\t%s" % (enc(case["h"]), "-" if case["y"] is None else "=" + enc(case["y"]), case["p"])]


class MergeStream(Stream):
    name = "merge"
    rule = ("merge_copyright_lines on random lists (1-6) of notices built from 8 holders x 6 year forms x 10 prefixes plus non-notices, "
            "in the iteration order the implementation sees (a list is passed, the model receives the same order); "
            "non-trivial = merge changed the set")

    def cases(self, tier, rng):
        from reuse.copyright import _COPYRIGHT_PREFIXES
        prefs = list(_COPYRIGHT_PREFIXES.values())
        hs = ["Jane Doe", "ACME Inc.", "José", "Copyright Clearance Center", "Team C#", "X <x@y.z>", "b -->", "Foo"]
        for _ in range(6000 if tier == "thorough" else 800):
            lines = []
            for _ in range(rng.randint(1, 6)):
                if rng.random() < 0.1:
                    lines.append(rng.choice(["no notice here", "2020 Jane Doe", ""]))
                    continue
                y = rng.choice(YEARS)
                lines.append("%s %s%s" % (rng.choice(prefs), (y + " ") if y else "", rng.choice(hs)))
            # duplicates are impossible in a set
            seen = []
            for l in lines:
                if l not in seen:
                    seen.append(l)
            yield {"lines": seen}

    def impl(self, case):
        from reuse.copyright import merge_copyright_lines

        class OrderedSet(list):
            """iterates in list order; merge_copyright_lines only iterates its argument"""
        out = merge_copyright_lines(OrderedSet(case["lines"]))
        return enc_list(sorted(out))

    def model_lines(self, case):
        return ["merge\t" + enc_list(case["lines"])]

    def model_out(self, case, outs):
        return enc_list(sorted(dec_list(outs[0])))

    def nontrivial(self, case, impl_out):
        return impl_out if sorted(dec_list(impl_out)) != sorted(case["lines"]) else None


class ExtractStream(Stream):
    name = "extract"
    rule = ("extract_reuse_info on random multi-line texts from the piece grammar with ignore markers mixed in: raw licence values "
            "(before expression parsing), copyright notices and contributors as sets; non-trivial = something extracted")

    def cases(self, tier, rng):
        for _ in range(15000 if tier == "thorough" else 2000):
            parts = []
            for _ in range(rng.randint(1, 6)):
                r = rng.random()
                if r < 0.08:
                    parts.append(rng.choice(["REUSE-IgnoreStart", "REUSE-IgnoreEnd"]))
                else:
                    parts.append(rand_text(rng, 1, 6))
                parts.append(rng.choice(["\n", "\n", " ", ""]))
            yield {"t": "".join(parts)}

    def impl(self, case):
        from reuse import extract
        text = extract.filter_ignore_block(case["t"])
        # (a licence tag without a value declares nothing: extract_reuse_info skips the empty text, for which the parser returns None)
        lic = sorted(v for v in set(extract.find_spdx_tag(text, extract._LICENSE_IDENTIFIER_PATTERN)) if v)
        con = sorted(set(extract.find_spdx_tag(text, extract._CONTRIBUTOR_PATTERN)))
        cpr = set()
        for line in text.splitlines():
            m = impl_search(line)
            if m is not None:
                cpr.add(m.groupdict()["copyright"].strip())
        # cross-check with the public function when the expressions parse
        try:
            info = extract.extract_reuse_info(case["t"])
            assert sorted(info.copyright_lines) == sorted(cpr) and sorted(info.contributor_lines) == con, "extract_reuse_info differs from its parts"
            assert None not in info.spdx_expressions and bool(info.spdx_expressions) == bool(lic), "extract_reuse_info keeps an empty licence value"
        except AssertionError:
            raise
        except Exception:
            pass
        return "L=%s|C=%s|N=%s" % (enc_list(lic), enc_list(sorted(cpr)), enc_list(con))

    def model_lines(self, case):
        return ["extract\t" + enc(case["t"])]

    def model_out(self, case, outs):
        parts = dict(p.split("=", 1) for p in outs[0].split("|"))
        return "L=%s|C=%s|N=%s" % tuple(enc_list(sorted(dec_list(parts[k]))) for k in "LCN")

    def nontrivial(self, case, impl_out):
        return impl_out if impl_out != "L=~|C=~|N=~" else None

    def show(self, case):
        return {"text": case["t"]}
